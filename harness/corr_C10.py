"""C10 — each remote call gets its own response, whatever the interleaving.

Tie: the real `RMCClient` (request/start/cleanup/close/disconnect) runs scripted scenarios over a fake
PRUDP client object inside an anyio task group (harness/rmc_client_sim.py); the op log of every run is
replayed through the compiled Lean model (`nxdrv_C10`), which must predict the call id of every request,
every call's outcome, every "invalid call id" warning and the final white-box state
(`call_id`, `closed`, keys of `requests`/`responses`, which calls still hang).
Oracle on the real code = the property itself, evaluated on the log by `oracle()`: by call id (the first response
carrying the id of a call's request is the call's), and — for scenarios whose peer answers *request messages*
(`["ans", task, ...]`, one-way requests included) — by addressee (`oracle_addressed`: a call completes with the answer
the peer gave to its own request, never with the answer to another request).
Clients started with protocol servers (`RMCClient.start(servers)`): the logout hooks' entries, returns and raises are
log lines / marks that the extended model (NxModel/Nex/RmcClientX.lean) must predict, as well as how cleanup() ended.
Traffic in both directions (`["preq", ...]`): the peer sends REQUESTS of its own — to the registered servers or to nobody —
whose call ids come from the peer's own counter and so coincide with the ids of our outstanding calls; they are interleaved
in every order with the responses. The model must predict which server's handle() is entered for each of them and every
answer the client sends (protocol, call id, success/error); the oracle (`oracle_peer_requests`) demands, on the real run
alone, that every received request was handed exactly once to the server registered for its protocol (with its method
and body) or refused with Core::NotImplemented, and answered exactly once under its own call id — and `oracle` that no
call of ours was completed by such a request.
Several connections in one process (`gen_multi`, `judge_multi`): 2..3 RMCClient objects — each with its own settings object,
transport, servers and records — live in ONE event loop / task group (what BackEndClient.login, a server or a proxy do).
All of them count their calls from 1, so equal call ids are outstanding on several connections at once. While the
observed connection goes through every response order x closure point, another connection acts at every point of that
schedule: registers calls (the same ids), gets them answered with its own data, receives strays / requests carrying the
ids outstanding elsewhere, is closed by its peer or locally with or without calls outstanding; plus random interleavings
of 2..3 scenarios drawn from all the single-connection families. EVERY connection is judged by `oracle` on its own log
alone (each call gets the response with its id that arrived ON ITS CONNECTION; a closure of another connection neither
raises, nor hangs, nor completes anything here), and the whole process is replayed, in its real order, through the
compiled model of a process (`Nx.RmcClient.lift`: a list of independent connection states, `conn <i>` selects one),
which must predict every connection's ids, outcomes, warnings and final white-box state.
Method ids (`gen_methods`, `gen_pairs`): calls whose method id ranges over the whole u32 range - bit 15 (the bit a success
response sets in the method word it carries back) and higher bits set - answered with success and errors by scripted peers
that echo the request frame as a conforming peer does, and by the library itself: two RMCClient objects as the two ends of
one connection, each with servers, so that a call is answered by the other end's handle_request (`oracle_pair`: the handler
was entered with exactly the method / body passed to request() and the call completed with what that handler answered).
Callers that end while suspended (`gen_sendfail`): the transport's send() of a request raises, or the caller is cancelled
inside send() (back pressure, queued for / holding the transport's send lock) or while waiting for its response, while
other calls are outstanding and further calls follow. Log line `abort t` = the model's `AOp.abort` (the frame disappears,
the object is untouched). Oracle: the surviving calls complete with the answers to their own requests, later calls never
with anybody else's, and - in every family - two calls outstanding at the same time under one call id is a violation.
Long histories (harness/c10_long.py, compact steps `churn` / `strays` of rmc_client_sim): one or several calls stay outstanding
while 1 .. 70000 (thorough: 140000) further call ids are consumed on the connection by short calls of other tasks and one-way
requests, then their responses arrive / the connection closes / both, then further calls follow (`gen_long`); 1 .. 1025
(thorough: 70000) consecutive responses nobody waits for - duplicates, ids of one-way requests, ids never issued - as one burst,
spaced out, cut into runs by genuine responses or by short calls, on an idle connection and with calls outstanding, followed by the
genuine responses and by further calls (`gen_bursts`). Same oracle, same line-by-line model replay; in addition a caller that hangs
because the receive loop is gone (ended or raised on a WELL-FORMED response although nothing closed the connection) is a violation.
"""
import copy, itertools, struct, multiprocessing, os, pickle, re, subprocess, sys
import rmc_client_sim as R
import c10_long

LEVEL = "proof"
M32 = 0xFFFFFFFF


# ---------------------------------------------------------------- scenario construction
def mk(n, perm, kinds, close_pos, close_kind, ypol, rng, start_id=1, extras=None, noresp=(), send_yields=None,
       late=None, after_close_calls=0, first_yield=1, fam="", addressed=False, servers=None, spawn_close=0,
       second_close=None, reply_yields=0, opts=None, anshow=None):
    """n calls; responses delivered in the order `perm` (indices of calls); `extras[j]` = extra steps
    inserted before the j-th response (j = n: after the last); close after `close_pos` responses.
    addressed: the peer answers *request messages* (["ans", task, ...]: the response echoes whatever call id the
    request of that task carried, one-way requests included) instead of sending responses with ids computed here.
    servers: logout hooks of the protocol servers the client is started with; second_close: another closure
    (of any kind) right after the first one's yields."""
    steps = []
    late = late or {}
    order = [k for k in range(n) if k not in late]
    # ids in registration order: callers are started FIFO and each runs up to its send before the next
    ids = {}
    tasknum = {}
    nxt = start_id
    def alloc(k):
        nonlocal nxt
        ids[k] = nxt
        nxt = (nxt + 1) & M32
    def started(k):
        tasknum[k] = len(tasknum)
    def y():
        c = ypol(rng)
        if c: steps.append(["yield", c])
    opts = opts or {}
    anshow = anshow or {}
    def start_step(k):
        st = ["start", 1 if k in noresp else 0, (send_yields or {}).get(k, 0)]
        return st + [dict(opts[k])] if k in opts else st
    for k in order:
        steps.append(start_step(k))
        alloc(k); started(k)
    if first_yield: steps.append(["yield", first_yield])
    pserial = [0]
    def preq(proto, method, sel):
        # the peer's own request; its call id: ("call", k) = the id of our k-th call, ("abs", v), ("next",) = the id our next call will get
        if sel[0] == "call": cid = ids.get(sel[1], (start_id + sel[1]) & M32)
        elif sel[0] == "next": cid = nxt
        else: cid = sel[1] & M32
        pserial[0] += 1
        return ["preq", proto, method, cid, pserial[0]]
    serial = {}
    def resp(k, kind):
        s = serial.get(k, 0); serial[k] = s + 1
        if addressed:
            return ["ans", tasknum[k], "ok" if kind == "ok-empty" else kind, s] + ([anshow[k]] if k in anshow else [])
        if k in opts and "method" in opts[k]:
            # a conforming peer echoes the request's method with bit 15 set
            return ["resp", ids[k], kind, s, {"std": opts[k]["method"] | 0x8000, "same": opts[k]["method"], "other": 0x8001}[anshow.get(k, "std")]]
        return ["resp", ids[k], kind, s]
    closed = False
    def do_close():
        nonlocal closed
        if close_kind and not closed:
            steps.append([close_kind]); closed = True
            y()
            if second_close:
                steps.append([second_close]); y()
    for j in range(n + 1):
        if j == close_pos: do_close()
        for k, pos in late.items():
            if pos == j:
                steps.append(start_step(k))
                if not closed: alloc(k)
                started(k)
                steps.append(["yield", 1])
        for e in (extras or {}).get(j, []):
            if e[0] == "dup":         # another response for call e[1]
                if e[1] in ids: steps.append(resp(e[1], e[2]))
            elif e[0] == "unknown":
                steps.append(["resp", e[1] & M32, e[2], 9])
            elif e[0] == "nextid":    # the id the next call would get
                steps.append(["resp", nxt, "ok", 9])
            elif e[0] == "req":
                steps.append(["req", e[1], 3, e[2]])
            elif e[0] == "raw":
                steps.append(["raw", e[1]])
            elif e[0] == "preq":
                steps.append(preq(e[1], e[2], e[3]))
            y()
        if j < n:
            k = perm[j]
            if k in ids:
                steps.append(resp(k, kinds[k]))
                y()
    for _ in range(after_close_calls):
        steps.append(["start", 0, 0]); steps.append(["yield", 1])
    sc = {"start_id": start_id, "steps": steps, "fam": fam}
    if addressed: sc["addressed"] = 1
    if servers: sc["servers"] = servers
    if spawn_close: sc["spawn_close"] = 1
    if reply_yields: sc["reply_yields"] = reply_yields
    return sc


def y1(rng): return 1
def y2(rng): return 2
def ybatch(rng): return 0
def yrand(rng): return rng.choice([0, 0, 1, 1, 2, 3])
YP = {"y1": y1, "batch": ybatch, "rand": yrand, "y2": y2}
CLOSE_KINDS = ["eof", "close", "disconnect", "cleanup"]


def rkinds(rng, n):
    return [rng.choice(["ok", "ok", "err", "err", "ok-empty", "err-nobit"]) for _ in range(n)]


def akinds(rng, n):
    return [rng.choice(["ok", "ok", "err", "err", "err-nobit"]) for _ in range(n)]


# what a protocol server's logout(client) hook may do (see rmc_client_sim.FakeServer)
HOOKS = [["ret"], ["yret", 1], ["yret", 3], ["raise"], ["yraise", 2], ["idle"], ["forever"]]


def gen_scenarios(ctx):
    rng, quick = ctx.rng, ctx.tier == "quick"
    out = []
    # F1: exhaustive: every permutation of the response order for 1..5 calls x closure after every prefix x every
    #     closure kind (+ no closure), under three scheduling policies
    for n in range(1, 6):
        for perm in itertools.permutations(range(n)):
            for yp in ("y1", "batch", "rand"):
                out.append(mk(n, perm, rkinds(rng, n), None, None, YP[yp], rng, fam="perm%d:none:%s" % (n, yp)))
                for pos in range(n + 1):
                    for ck in CLOSE_KINDS:
                        out.append(mk(n, perm, rkinds(rng, n), pos, ck, YP[yp], rng, fam="perm%d:%s:%s" % (n, ck, yp)))
    # F2: 6 calls: sampled permutations (all 720 in thorough)
    perms6 = list(itertools.permutations(range(6)))
    if quick: perms6 = rng.sample(perms6, 150)
    for perm in perms6:
        out.append(mk(6, perm, rkinds(rng, 6), None, None, yrand, rng, fam="perm6:none"))
        for pos in (range(7) if not quick else [rng.randrange(7)]):
            out.append(mk(6, perm, rkinds(rng, 6), pos, rng.choice(CLOSE_KINDS), yrand, rng, fam="perm6:close"))
    # F3: duplicates / unknown ids / stray requests at every position of every permutation of 1..4 calls
    for n in range(1, 5):
        for perm in itertools.permutations(range(n)):
            for j in range(n + 1):
                exs = [("unknown", 0, "ok"), ("unknown", 999999, "err"), ("unknown", M32, "ok"), ("nextid",), ("req", 10, 77)]
                for k in range(n):
                    exs.append(("dup", k, rng.choice(["ok", "err"])))   # early (wins), or late (dropped) depending on j
                for ex in exs:
                    for yp in ("y1", "batch"):
                        ck = rng.choice([None, None] + CLOSE_KINDS)
                        out.append(mk(n, perm, rkinds(rng, n), n if ck else None, ck, YP[yp], rng, extras={j: [ex]},
                                      fam="extra:%s%s" % (ex[0], "" if ex[0] != "dup" else (":late" if k_delivered(perm, j, ex[1]) else ":early"))))
    # F4: mixed random: late calls, noresponse calls, slow sends, calls after closure, several extras
    for _ in range(1500 if quick else 150000):
        n = rng.randint(1, 6)
        perm = list(range(n)); rng.shuffle(perm)
        noresp = {k for k in range(n) if rng.random() < 0.2}
        late = {k: rng.randint(0, n) for k in range(n) if rng.random() < 0.3}
        sy = {k: rng.randint(1, 3) for k in range(n) if rng.random() < 0.3}
        extras = {}
        for _ in range(rng.choice([0, 0, 1, 2, 3])):
            j = rng.randint(0, n)
            ex = rng.choice([("unknown", rng.choice([0, 7, 100, M32, 0x80000000]), rng.choice(["ok", "err"])), ("nextid",),
                             ("req", rng.choice([10, 0x7F, 0x123]), rng.randrange(1 << 32)), ("dup", rng.randrange(n), rng.choice(["ok", "err", "ok-empty", "err-nobit"])),
                             ("preq", rng.choice([0x50, 0x50, 0x51, 10]), rand_method(rng), rng.choice([("call", rng.randrange(n)), ("call", rng.randrange(n)), ("next",), ("abs", rng.choice([0, 1, 2, 7, M32]))]))])
            extras.setdefault(j, []).append(ex)
        ck = rng.choice([None] + CLOSE_KINDS)
        adr = rng.random() < 0.5     # the peer answers request messages (echoing their ids) / sends ids computed here
        srv = [rng.choice(HOOKS[:5]) for _ in range(rng.choice([1, 2]))] if rng.random() < 0.4 else None
        out.append(mk(n, perm, rkinds(rng, n), rng.randint(0, n) if ck else None, ck, yrand, rng, extras=extras, noresp=noresp,
                      late=late, send_yields=sy, after_close_calls=rng.choice([0, 0, 1, 2]) if ck else 0,
                      first_yield=rng.choice([1, 1, 1, 2, 0]), addressed=adr, spawn_close=int(srv is not None or rng.random() < 0.25),
                      servers=srv, reply_yields=rng.choice([0, 0, 0, 1, 2]),
                      fam="mixed:addressed" if adr else "mixed"))
    # F5: the call id counter wraps
    for start in (0xFFFFFFFE, 0xFFFFFFFF, 0, 0xFFFFFFFD):
        for n in range(1, 5):
            for perm in itertools.permutations(range(n)):
                ck = rng.choice([None] + CLOSE_KINDS)
                out.append(mk(n, perm, rkinds(rng, n), rng.randint(0, n) if ck else None, ck, rng.choice([y1, ybatch, yrand]), rng,
                              start_id=start, fam="wrap"))
    # F6: a datagram that does not parse ends the receive loop (outside C10's quantifier; the owner's
    #     `async with client` then cleans up) — the model must agree on who is released and how
    for n in range(1, 4):
        for raw in ("-", "00", "0500000001", "0a0000000a0107000000018000"):
            for ck in ("cleanup", "close"):
                out.append(mk(n, list(range(n)), rkinds(rng, n), 1, ck, y1, rng, extras={1: [("raw", raw)]}, fam="malformed"))
    out += gen_oneway(ctx)
    out += gen_servers(ctx)
    out += gen_bidir(ctx)
    out += gen_methods(ctx)
    out += gen_sendfail(ctx)
    return out


# the method id of a request is a u32; a success response carries it back with bit 15 set (method | 0x8000)
METHOD_IDS = [0, 1, 2, 0x7FFF, 0x8000, 0x8001, 0x8002, 0x8004, 0xFFFF, 0x10000, 0x18000, 0x18004, 0x7FFF8000, 0x7FFFFFFF,
              0x80000000, 0x80008002, 0xFFFF7FFF, 0xFFFF8000, 0xFFFFFFFF]
# handlers told by the method id what to do (FakeServer.handle reads the low 8 bits), the rest of the word anywhere
PREQ_HIGH = [0x8001, 0x8002, 0x8000, 0x18004, 0x8011, 0x8003, 0x80000001, 0xFFFF8002, 0xFFFFFF01, 0xFFFFFF12, 0xFFFFFFFF, 0x7FFF8005]


def rand_method_id(rng):
    r = rng.random()
    if r < 0.4: return rng.choice(METHOD_IDS)
    if r < 0.7: return rng.getrandbits(32) | 0x8000
    if r < 0.85: return rng.getrandbits(32) & ~0x8000
    return rng.getrandbits(16)


def gen_methods(ctx):
    """F11: the method id of a call over its whole range (u32) — in particular ids with bit 15 set, which is the bit a success
    response sets in the method word it carries back — answered with success and with errors by a scripted peer that echoes
    what the request frame carried (as a conforming peer does: protocol, method | 0x8000), by call id and by addressee; 1 call x every boundary id x every kind, 2..3 calls
    with different ids x every response order; requests of the peer with such method ids under the ids of our outstanding
    calls, to registered servers and to nobody, at every placement; random mixes with strays, closures, one-way calls."""
    rng, quick = ctx.rng, ctx.tier == "quick"
    out = []
    for m in METHOD_IDS + [rng.getrandbits(32) | 0x8000 for _ in range(6)]:
        for kind in ("ok", "err", "err-nobit", "ok-empty"):
            for adr, how in ((True, "std"), (False, "std")):
                if adr and kind == "ok-empty": continue
                out.append(mk(1, (0,), [kind], None, None, y1, rng, addressed=adr, opts={0: {"method": m}}, anshow={0: how},
                              fam="method1:%s" % ("bit15" if m & 0x8000 else "plain")))
    tuples = []
    for n in (2, 3):
        for _ in range(24 if quick else 200):
            ms = [rand_method_id(rng) for _ in range(n)]
            if not any(x & 0x8000 for x in ms): ms[rng.randrange(n)] |= 0x8000
            tuples.append(ms)
        tuples.append([0x8000 + k for k in range(n)]); tuples.append([0x8001] * n); tuples.append([0xFFFFFFFF, 0x8002, 1][:n])
    for ms in tuples:
        n = len(ms)
        for perm in itertools.permutations(range(n)):
            for yp in ("y1", "batch"):
                for adr in (True, False):
                    ck = rng.choice([None, None, None] + CLOSE_KINDS)
                    out.append(mk(n, perm, akinds(rng, n) if adr else rkinds(rng, n), rng.randint(0, n) if ck else None, ck, YP[yp], rng, addressed=adr,
                                  opts={k: {"method": ms[k]} for k in range(n)}, anshow={k: "std" for k in range(n)},
                                  noresp={k for k in range(n) if rng.random() < 0.1}, fam="method%d" % n))
    # requests of the peer whose method ids have bit 15 / higher bits set, under the ids of our outstanding calls
    for n in (1, 2):
        for mq in (1, 2):
            for perm in itertools.permutations(range(n)):
                for slots in itertools.combinations_with_replacement(range(n + 1), mq):
                    for rep in range(3):
                        nserv = rng.choice([1, 1, 2])
                        extras = {}
                        for q, slot in enumerate(slots):
                            proto = 0x50 + rng.randrange(nserv) if rng.random() < 0.8 else rng.choice([10, 0x21])
                            extras.setdefault(slot, []).append(("preq", proto, rng.choice(PREQ_HIGH), ("call", rng.randrange(n)) if rep else ("abs", 1 + q)))
                        out.append(mk(n, perm, rkinds(rng, n), None, None, rng.choice([y1, ybatch]), rng, extras=extras, servers=[["ret"]] * nserv, spawn_close=1,
                                      opts={k: {"method": rng.choice(PREQ_HIGH)} for k in range(n)}, reply_yields=rng.choice([0, 0, 1]), fam="method:peer-request"))
    for _ in range(400 if quick else 40000):
        n = rng.randint(1, 5)
        perm = list(range(n)); rng.shuffle(perm)
        extras = {}
        for _ in range(rng.choice([0, 0, 1, 2])):
            j = rng.randint(0, n)
            extras.setdefault(j, []).append(rng.choice([("unknown", rng.choice([0, 7, 100, M32]), "ok"), ("nextid",), ("dup", rng.randrange(n), rng.choice(["ok", "err"])),
                                                        ("preq", rng.choice([0x50, 0x50, 10]), rng.choice(PREQ_HIGH), ("call", rng.randrange(n)))]))
        ck = rng.choice([None, None] + CLOSE_KINDS)
        adr = rng.random() < 0.5
        out.append(mk(n, perm, akinds(rng, n) if adr else rkinds(rng, n), rng.randint(0, n) if ck else None, ck, yrand, rng, extras=extras,
                      noresp={k for k in range(n) if rng.random() < 0.15}, late={k: rng.randint(0, n) for k in range(n) if rng.random() < 0.2},
                      send_yields={k: rng.randint(1, 3) for k in range(n) if rng.random() < 0.2}, addressed=adr, servers=[["ret"]], spawn_close=1,
                      opts={k: {"method": rand_method_id(rng)} for k in range(n)}, anshow={k: "std" for k in range(n)},
                      start_id=rng.choice([1, 1, 0x7FFF, 0x8000, 0xFFFFFFFE]), fam="method:mixed"))
    return out


EXC_KINDS = ["os", "broken", "closed", "custom"]


def mk_sendfail(rng, n0, fails, m, perm, kinds, transport="gate", pre=0, failed_ans="first", close=None, fam="sendfail"):
    """n0 calls are started; those in `fails` = {k: (where, how, delivered)} end while suspended: where = "send" (the
    transport's send() of that request is suspended - back pressure, or holding the transport's send lock with the later
    senders queued behind it - and then raises `how` / the caller is cancelled), "now" (send() raises at once), "slow" /
    "wait" (cancelled during a send that takes a few loop iterations / while waiting for the response). The other calls
    are outstanding meanwhile (`pre` of them are answered before the failure). Then m further calls are made. The peer
    answers the REQUEST MESSAGES it received (every surviving call's, in the order `perm`; the failed one's too when its
    datagram had reached the peer), success or error; finally the connection may close."""
    steps = []
    for k in range(n0):
        f = fails.get(k)
        if f is None: steps.append(["start", 0, 0])
        elif f[0] == "send": steps.append(["start", 0, 0, {"gate": 1}])
        elif f[0] == "now": steps.append(["start", 0, 0, {"fail_now": [f[1], f[2]]}])
        elif f[0] == "slow": steps.append(["start", 0, 4])
        else: steps.append(["start", 0, 0])
    lock = transport == "lock"
    steps.append(["yield", 2 + (2 * n0 if lock else 0)])
    first_f = min(fails) if fails else n0
    live = [k for k in range(n0) if k not in fails]
    early = [k for k in live if not lock or k < first_f][:pre]
    for k in early:
        steps.append(["ans", k, kinds[k], 0]); steps.append(["yield", 1])
    for k in sorted(fails):
        where, how, delivered = fails[k]
        if where == "now": continue
        steps.append(["cancel", k, delivered] if how == "cancel" else ["fail", k, how, delivered])
        steps.append(["yield", rng.choice([0, 1, 3])])
    steps.append(["yield", 3 + (2 * n0 if lock else 0)])
    for j in range(m):
        steps.append(["start", 0, 0])
    if m: steps.append(["yield", 2 + (2 * m if lock else 0)])
    rest = [k for k in perm if k not in fails and k not in early]
    answered_failed = [k for k in sorted(fails) if fails[k][2]]
    seq = [("a", k) for k in rest]
    for k in answered_failed:
        pos = 0 if failed_ans == "first" else len(seq) if failed_ans == "last" else rng.randint(0, len(seq))
        seq.insert(pos, ("f", k))
    cpos = close[0] if close else None
    for j, (_, k) in enumerate(seq):
        if cpos == j: steps.append([close[1]]); steps.append(["yield", 1])
        steps.append(["ans", k, kinds[k], 0]); steps.append(["yield", rng.choice([0, 1, 1, 2])])
    if close and (cpos is None or cpos >= len(seq)): steps.append([close[1]])
    steps.append(["yield", 3])
    sc = {"start_id": 1, "steps": steps, "fam": fam, "addressed": 1, "spawn_close": 1}
    if lock: sc["send_lock"] = 1
    return sc


def gen_sendfail(ctx):
    """F12: a caller that fails or is cancelled while suspended inside the transport's send() - or while waiting for its response -
    with other calls outstanding and further calls made afterwards. Exhaustive over: 1..3 initial calls x which one fails
    (oldest / middle / newest) x exception / cancellation x transport (independent sends with back pressure on the failing one /
    a send lock that the failing sender holds while the later ones queue behind it / a send that raises at once) x the
    failing datagram reached the peer or not x 0..2 later calls x 0..1 calls answered before the failure x the order in
    which the peer answers the surviving requests (all orders up to 3 survivors, sampled beyond in quick); cancellation
    during a slow send and while waiting; two callers failing; closures; random mixes."""
    rng, quick = ctx.rng, ctx.tier == "quick"
    out = []
    for n0 in (1, 2, 3):
        for f in range(n0):
            for transport in ("gate", "lock", "now"):
                for how in ("cancel", "exc"):
                    if transport == "now" and how == "cancel": continue
                    for delivered in (0, 1):
                        for m in (0, 1, 2):
                            surv = [k for k in range(n0 + m) if k != f]
                            for pre in ((0, 1) if (n0 > 1 and transport != "now") else (0,)):
                                perms = list(itertools.permutations(surv))
                                if quick and len(perms) > 6: perms = rng.sample(perms, 4)
                                for perm in perms:
                                    h = rng.choice(EXC_KINDS) if how == "exc" else "cancel"
                                    close = (rng.randint(0, len(surv)), rng.choice(CLOSE_KINDS)) if rng.random() < 0.15 else None
                                    out.append(mk_sendfail(rng, n0, {f: ("now" if transport == "now" else "send", h, delivered)}, m, perm, akinds(rng, n0 + m),
                                                           transport=transport, pre=pre, failed_ans=rng.choice(["first", "first", "last", "any"]), close=close,
                                                           fam="sendfail:%s:%s" % (transport, how)))
    # cancelled during a slow send / while waiting for the response (a timeout around request())
    for n0 in (1, 2, 3):
        for f in range(n0):
            for where in ("slow", "wait"):
                for m in (0, 1, 2):
                    surv = [k for k in range(n0 + m) if k != f]
                    for perm in itertools.permutations(surv):
                        out.append(mk_sendfail(rng, n0, {f: (where, "cancel", 1)}, m, perm, akinds(rng, n0 + m), transport=rng.choice(["gate", "lock"]),
                                               pre=rng.choice([0, 1]), failed_ans=rng.choice(["first", "last", "any"]), fam="sendfail:cancel-" + where))
    # several callers failing, 4 initial calls, closures
    for _ in range(500 if quick else 50000):
        n0 = rng.randint(2, 4); m = rng.randint(0, 3)
        fs = rng.sample(range(n0), rng.choice([1, 2, 2]))
        transport = rng.choice(["gate", "lock"])
        fails = {}
        for k in fs:
            where = rng.choice(["send", "send", "now", "slow", "wait"])
            if transport == "lock" and where == "send" and any(v[0] == "send" for v in fails.values()): where = "wait"
            fails[k] = (where, "cancel" if where in ("slow", "wait") else rng.choice(EXC_KINDS + (["cancel"] if where == "send" else [])), 1 if where in ("slow", "wait") else rng.randint(0, 1))
        surv = [k for k in range(n0 + m) if k not in fails]
        rng.shuffle(surv)
        close = (rng.randint(0, len(surv)), rng.choice(CLOSE_KINDS)) if rng.random() < 0.3 else None
        out.append(mk_sendfail(rng, n0, fails, m, surv, akinds(rng, n0 + m), transport=transport, pre=rng.choice([0, 0, 1, 2]),
                               failed_ans=rng.choice(["first", "last", "any"]), close=close, fam="sendfail:mixed"))
    return out


# what a registered server's handle() does with a request of the peer is told by the method id (rmc_client_sim.FakeServer.handle):
# low 4 bits: 1 return b"ack:"+body | 2 raise RMCError | 3 TypeError | 4 KeyError | 5 ValueError; next 4 bits: loop iterations it takes
METHODS = [1, 1, 1, 1, 2, 3, 4, 5, 1 + 16, 1 + 16, 1 + 32, 1 + 48, 2 + 16, 3 + 32, 5 + 16]


def rand_method(rng): return rng.choice(METHODS)


def gen_bidir(ctx):
    """F9: traffic in both directions on one connection. n calls of ours are outstanding; the peer sends m REQUESTS of its
    own (to the servers the client was started with, or to an unregistered protocol) whose call ids come from ITS counter:
    equal to ours ("both ends count from 1"), a shuffle of ours, overlapping partly, all the same, disjoint. They are
    interleaved with the responses in every order (every permutation of the responses x every placement of the requests
    among them), handlers that answer at once / later (the receive loop waits in them while responses queue up) / raise;
    plus closures of every kind at every prefix, one-way requests, late calls, slow answers, the id counter wrapping."""
    rng, quick = ctx.rng, ctx.tier == "quick"
    out = []
    def sels(variant, n, m, start):
        if variant == "same":      # the peer counts from where we count
            return [("abs", start + q) for q in range(m)]
        if variant == "ours":      # some of our outstanding ids, in any order, possibly repeated
            return [("call", rng.randrange(n)) for _ in range(m)]
        if variant == "shuffle":
            ks = list(range(max(n, m))); rng.shuffle(ks)
            return [("call", k) for k in ks[:m]]
        if variant == "partial":
            return [("abs", start + n - 1 + q) for q in range(m)]
        if variant == "one":       # every request under the id of one of our calls
            k = rng.randrange(n)
            return [("call", k)] * m
        return [("abs", 1000 + q) for q in range(m)]
    def one(n, perm, slots, variant, yp, nserv=None, close=None, start=1, fam=None, **kw):
        nserv = rng.choice([1, 1, 2]) if nserv is None else nserv
        ss = sels(variant, n, len(slots), start)
        extras = {}
        for slot, sel in zip(slots, ss):
            proto = 0x50 + rng.randrange(nserv) if nserv and rng.random() < 0.85 else rng.choice([10, 0x21, 0x50 + nserv])
            extras.setdefault(slot, []).append(("preq", proto, rand_method(rng), sel))
        servers = [rng.choice(HOOKS[:5]) if close else ["ret"] for _ in range(nserv)]
        cpos, ck = close if close else (None, None)
        out.append(mk(n, perm, rkinds(rng, n), cpos, ck, YP[yp], rng, start_id=start, extras=extras, servers=servers or None,
                      spawn_close=1, fam=fam or "bidir%d+%d:%s" % (n, len(slots), variant), **kw))
    # exhaustive: 1..3 calls x 1..3 peer requests x every response order x every placement of the requests among the responses
    for n in range(1, 4 if quick else 5):
        for m in range(1, 4):
            for perm in itertools.permutations(range(n)):
                for slots in itertools.combinations_with_replacement(range(n + 1), m):
                    for variant in ("same", "shuffle", rng.choice(["ours", "partial", "one", "disjoint"])):
                        for yp in ("y1", "batch"):
                            one(n, perm, slots, variant, yp)
                    # a closure after some prefix (the handler may be executing), servers with logout hooks
                    if m <= 2:
                        one(n, perm, slots, rng.choice(["same", "shuffle", "ours"]), rng.choice(["y1", "batch", "rand"]),
                            close=(rng.randint(0, n), rng.choice(CLOSE_KINDS)), fam="bidir%d+%d:close" % (n, m),
                            second_close=rng.choice([None, None] + CLOSE_KINDS), reply_yields=rng.choice([0, 0, 1]))
    # 4 calls (quick: 1..2 requests, one id variant per placement), 5..6 calls sampled
    if quick:
        for m in (1, 2):
            for perm in itertools.permutations(range(4)):
                for slots in itertools.combinations_with_replacement(range(5), m):
                    one(4, perm, slots, rng.choice(["same", "same", "shuffle", "ours"]), rng.choice(["y1", "batch"]))
    for _ in range(600 if quick else 60000):
        n = rng.randint(1, 6); m = rng.randint(1, 6)
        perm = list(range(n)); rng.shuffle(perm)
        slots = sorted(rng.randint(0, n) for _ in range(m))
        close = (rng.randint(0, n), rng.choice(CLOSE_KINDS)) if rng.random() < 0.3 else None
        one(n, perm, slots, rng.choice(["same", "same", "shuffle", "ours", "partial", "one", "disjoint"]), rng.choice(["y1", "batch", "rand", "rand"]),
            nserv=rng.choice([0, 1, 1, 2, 3]), close=close, fam="bidir:mixed",
            noresp={k for k in range(n) if rng.random() < 0.15}, late={k: rng.randint(0, n) for k in range(n) if rng.random() < 0.2},
            send_yields={k: rng.randint(1, 3) for k in range(n) if rng.random() < 0.2}, reply_yields=rng.choice([0, 0, 1, 2]),
            addressed=rng.random() < 0.3, first_yield=rng.choice([1, 1, 2, 0]))
    # the id counter wraps while the peer's requests use the same numbers
    for start in (0xFFFFFFFE, 0xFFFFFFFF, 0):
        for n in (1, 2, 3):
            for perm in itertools.permutations(range(n)):
                for slots in itertools.combinations_with_replacement(range(n + 1), 2):
                    one(n, perm, slots, rng.choice(["same", "shuffle"]), rng.choice(["y1", "batch"]), start=start, fam="bidir:wrap")
    return out


def gen_oneway(ctx):
    """F7: one-way requests (noresponse=True) mixed with ordinary calls at every position of the request sequence; the
    peer answers EVERY request message it received, one-way ones included (as the library's own server does for an
    unregistered protocol), with success or error, in every order; plus one request issued late / a closure."""
    rng, quick = ctx.rng, ctx.tier == "quick"
    out = []
    def family(n, mask, perm):
        noresp = {k for k in range(n) if mask[k]}
        for yp in ("y1", "batch"):
            out.append(mk(n, perm, akinds(rng, n), None, None, YP[yp], rng, noresp=noresp, addressed=True, fam="oneway%d:%s" % (n, yp)))
        # one request issued only after j answers have been sent; sometimes a closure; sometimes slow sends
        k, j = rng.randrange(n), rng.randint(0, n)
        ck = rng.choice([None, None] + CLOSE_KINDS)
        sy = {q: rng.randint(1, 2) for q in range(n) if rng.random() < 0.2}
        out.append(mk(n, perm, akinds(rng, n), rng.randint(0, n) if ck else None, ck, yrand, rng, noresp=noresp, late={k: j},
                      send_yields=sy, addressed=True, fam="oneway%d:late" % n))
    for n in range(1, 5 if quick else 6):
        for mask in itertools.product((0, 1), repeat=n):
            if any(mask):
                for perm in itertools.permutations(range(n)):
                    family(n, mask, perm)
    for n, cnt in ((5, 250), (6, 150)) if quick else ((6, 20000),):
        for _ in range(cnt):
            mask = [int(rng.random() < 0.4) for _ in range(n)]
            if not any(mask): mask[rng.randrange(n)] = 1
            perm = list(range(n)); rng.shuffle(perm)
            family(n, mask, perm)
    # the counter wraps while one-way requests are mixed in
    for start in (0xFFFFFFFE, 0xFFFFFFFF):
        for mask in itertools.product((0, 1), repeat=3):
            for perm in itertools.permutations(range(3)):
                out.append(mk(3, perm, akinds(rng, 3), None, None, y1, rng, start_id=start, noresp={k for k in range(3) if mask[k]},
                              addressed=True, fam="oneway:wrap"))
    return out


def gen_servers(ctx):
    """F8: the client is started with protocol servers (RMCClient.start(servers)) whose logout hooks return at once, return
    after a while, return only when no call is outstanding any more, never return, or raise; the connection is closed
    in every way (peer EOF, close(), disconnect(), leaving `async with`) after every prefix of every response order,
    each closure running in a task of its own, calls outstanding."""
    rng, quick = ctx.rng, ctx.tier == "quick"
    out = []
    for n in range(1, 4 if quick else 5):
        for perm in itertools.permutations(range(n)):
            for pos in range(n + 1):
                for ck in CLOSE_KINDS:
                    confs = [[h] for h in HOOKS]
                    if quick:
                        confs += [[rng.choice(HOOKS) for _ in range(rng.choice([2, 2, 3]))] for _ in range(2)]
                    else:
                        confs += [[a, b] for a in HOOKS for b in HOOKS]
                    for servers in confs:
                        second = rng.choice([None, None, None] + CLOSE_KINDS)
                        adr = rng.random() < 0.5
                        out.append(mk(n, perm, akinds(rng, n) if adr else rkinds(rng, n), pos, ck, rng.choice([y1, y1, ybatch, yrand]), rng,
                                      noresp={k for k in range(n) if rng.random() < 0.1},
                                      send_yields={k: rng.randint(1, 3) for k in range(n) if rng.random() < 0.15},
                                      after_close_calls=rng.choice([0, 0, 1]), addressed=adr, servers=servers, spawn_close=1,
                                      second_close=second, fam="servers:%s:%s" % (ck, "+".join(h[0] for h in servers) if len(servers) == 1 else "multi")))
    return out


def k_delivered(perm, j, k):
    return k in perm[:j]


# ---------------------------------------------------------------- property oracle on the real run
def parse_resp(data):
    """independent reader of a response datagram (protocol id < 0x7F only): -> (call_id, outcome string) or None"""
    if len(data) < 6: return None
    (ln,) = struct.unpack_from("<I", data)
    p = data[4:]
    if ln != len(p) or p[0] & 0x80 or (p[0] & 0x7F) == 0x7F: return None
    if p[1]:
        if len(p) < 10: return None
        return struct.unpack_from("<I", p, 2)[0], "body " + R.hx(p[10:])
    if len(p) != 10: return None
    code, cid = struct.unpack_from("<II", p, 2)
    return cid, "rmc %d" % (code | 0x80000000)


def parse_req(data):
    """independent reader of a REQUEST datagram: -> (protocol, call_id, method, body) or None"""
    if len(data) < 5: return None
    (ln,) = struct.unpack_from("<I", data)
    p = data[4:]
    if ln != len(p) or not p[0] & 0x80: return None
    proto, q = p[0] & 0x7F, p[1:]
    if proto == 0x7F:
        if len(q) < 2: return None
        proto, q = struct.unpack_from("<H", q)[0], q[2:]
    if len(q) < 8: return None
    cid, method = struct.unpack_from("<II", q)
    return proto, cid, method, q[8:]


def parse_answer(data):
    """independent reader of a RESPONSE datagram the client sent: -> (protocol, call_id, ok, body | error code) or None"""
    if len(data) < 6: return None
    (ln,) = struct.unpack_from("<I", data)
    p = data[4:]
    if ln != len(p) or p[0] & 0x80: return None
    proto, q = p[0] & 0x7F, p[1:]
    if proto == 0x7F:
        if len(q) < 2: return None
        proto, q = struct.unpack_from("<H", q)[0], q[2:]
    if len(q) < 9: return None
    if q[0]:
        cid, method = struct.unpack_from("<II", q, 1)
        return proto, cid, True, (method, q[9:])
    if len(q) != 9: return None
    code, cid = struct.unpack_from("<II", q, 1)
    return proto, cid, False, code


NOT_IMPLEMENTED = 0x80010002    # Core::NotImplemented


def oracle_peer_requests(sim, crash_at):
    """traffic in the other direction, judged on the real run only: every REQUEST the receive loop took from the transport
    is handed exactly once to the handle() of the server registered for its protocol — with its method and body, in the
    atomic section that received it — or, when no server is registered for the protocol, refused with Core::NotImplemented;
    and it is answered exactly once, with a message carrying ITS call id, when its handler ends. Whether one of our
    calls is outstanding under the same call id is irrelevant: the peer's call ids are its own."""
    log, bad = sim.oplog, []
    nserv = len(sim.sc.get("servers") or [])
    disp = {}
    for idx, srv, method, body in sim.dispatches:
        disp.setdefault(idx, []).append((srv, method, body))
    expected = []       # the answers the peer must get, in order: (call id, protocol, ok, payload or None)
    handlerrets = [(i, l) for i, l in enumerate(log) if l.startswith("handlerret ")]
    used = set()
    n_disp_ok = 0
    for i, l in enumerate(log):
        if not l.startswith("recv ") or (crash_at is not None and i >= crash_at): continue
        h = l[5:]
        r = parse_req(bytes.fromhex(h) if h != "-" else b"")
        if r is None: continue
        proto, cid, method, body = r
        mine = [c for c in sim.callers if c["sent_id"] == cid and not c["noresp"] and c["call_at"] < i and (c["outcome"] is None or c["done_at"] > i)]
        ctxt = " (call id %d is also the id of the outstanding call of task %s)" % (cid, ",".join(str(c["task"]) for c in mine)) if mine else ""
        got = disp.get(i, [])
        if 0x50 <= proto < 0x50 + nserv:
            want = [(proto - 0x50, method, body.hex())]
            if got != want:
                bad.append(("peer-request-not-dispatched", "the peer's request (protocol 0x%x, method %d, call id %d, body %r) received at op %d%s was handed to %s; "
                            "it must be handed exactly once to server %d registered for its protocol" % (
                                proto, method, cid, body, i, ctxt, "no server" if not got else "servers/methods/bodies %r" % got, proto - 0x50)))
                continue
            n_disp_ok += 1
            # its handler's end (handlers run one at a time: the receive loop waits in them)
            hr = next(((j, x) for j, x in handlerrets if j > i and j not in used), None)
            if hr is not None:
                used.add(hr[0])
                ok = hr[1].endswith(" 1")
                expected.append((cid, proto, ok, (method | 0x8000, b"ack:" + body) if ok else None, i, ctxt))
        else:
            if got:
                bad.append(("peer-request-misdispatched", "the peer's request for the unregistered protocol 0x%x (call id %d) received at op %d was handed to %r" % (proto, cid, i, got)))
            expected.append((cid, proto, False, NOT_IMPLEMENTED, i, ctxt))
    if len(sim.dispatches) != n_disp_ok and not any(k == "peer-request-not-dispatched" for k, _ in bad):
        bad.append(("spurious-dispatch", "handle() of a server was entered %d times for %d received requests: %r" % (len(sim.dispatches), n_disp_ok, sim.dispatches)))
    answers = []
    for idx, hexd in sim.sends_at:
        a = parse_answer(bytes.fromhex(hexd))
        answers.append(a if a is not None else ("unparsable", hexd))
    exp = [(p, c, ok) for c, p, ok, _, _, _ in expected]
    real = [(a[0], a[1], a[2]) if a[0] != "unparsable" else a for a in answers]
    if exp != real and not bad:
        # the first request whose answer is missing / wrong
        k = next((j for j in range(max(len(exp), len(real))) if j >= len(exp) or j >= len(real) or exp[j] != real[j]), 0)
        if k < len(expected):
            c, p, ok, _, i, ctxt = expected[k]
            bad.append(("peer-request-answer", "the peer's request with call id %d (protocol 0x%x) received at op %d%s must be answered exactly once with a %s carrying call id %d; "
                        "the client sent (protocol, call id, success) = %r where %r are due" % (c, p, i, ctxt, "success" if ok else "error", c, real, exp)))
        else:
            bad.append(("peer-request-answer", "the client sent answers nobody asked for: (protocol, call id, success) = %r where %r are due" % (real, exp)))
    elif not bad:
        for (c, p, ok, payload, i, ctxt), a in zip(expected, answers):
            if payload is not None and a[3] != payload:
                bad.append(("peer-request-answer", "the answer to the peer's request with call id %d received at op %d%s carries %r, expected %r" % (c, i, ctxt, a[3], payload)))
                break
    return bad


def n_colliding(sim):
    """how many received peer requests carried the id of a call of ours that was outstanding (registered, not yet answered) at that moment"""
    n = 0
    for i, l in enumerate(sim.oplog):
        if l.startswith("recv ") and l[5:] != "-":
            r = parse_req(bytes.fromhex(l[5:]))
            if r and any(c["sent_id"] == r[1] and not c["noresp"] and c["call_at"] < i and (c["outcome"] is None or c["done_at"] > i)
                         and not any(sim.oplog[j].startswith("recv ") and (parse_resp(bytes.fromhex(sim.oplog[j][5:])) or (None,))[0] == r[1]
                                     for j in range(c["call_at"] + 1, i) if sim.oplog[j][5:] != "-")
                         for c in sim.callers):
                n += 1
    return n


def oracle(sim):
    """the property, judged on the real run only. returns [(key, why)]"""
    log = sim.oplog
    bad = []
    closed_at = next((i for i, l in enumerate(log) if l in ("eof", "cleanup")), None)
    crash_at = next((i for i, l in enumerate(log) if l == "loopcrash"), None)
    end = len(log)
    # the receive loop (RMCClient.start) has ended although nobody closed the connection and the last datagram it took was a
    # well-formed response (a datagram that does not parse ends the loop too: outside the property, see F6)
    loop_gone = None
    if closed_at is None and sim.final.get("loop") is not None:
        last = next((log[i][5:] for i in range((crash_at if crash_at is not None else end) - 1, -1, -1) if log[i].startswith("recv ")), None)
        r = parse_resp(bytes.fromhex(last)) if last not in (None, "-") else None
        if r is not None:
            n_stray = 0
            for i in range((crash_at if crash_at is not None else end) - 1, -1, -1):
                if log[i].startswith("recv "):
                    if sim.warn_after.get(i, 0): n_stray += 1
                    else: break
                elif not log[i].startswith("wake "): break
            loop_gone = "the receive loop ended (%s) after taking the well-formed response (call id %d: %s) at op %d%s" % (
                sim.final["loop"], r[0], r[1], (crash_at if crash_at is not None else end) - 1,
                ", the %s consecutive response nobody was waiting for" % ordinal(n_stray) if n_stray else "")
    waiting = [c for c in sim.callers if c["sent_id"] is not None and not c["noresp"]]
    # H-ids: calls outstanding at the same time carry distinct ids. The counter is 32 bits wide: below 2^32 - 1 calls on the
    # connection (Nx.C10.few_calls_distinct) a collision is the implementation handing out the id of an outstanding call -
    # the peer cannot tell the two calls apart, one of them gets the other's response or none; beyond, the property's premise fails
    by_id = {}
    for c in waiting: by_id.setdefault(c["sent_id"], []).append(c)
    for g in by_id.values():
        for a, b in (itertools.product(g, g) if len(g) > 1 else ()):
            if a is not b and a["sent_id"] == b["sent_id"] and a["task"] < b["task"]:
                a_end = a["done_at"] if a["outcome"] is not None else end
                if b["call_at"] <= a_end and a["call_at"] <= (b["done_at"] if b["outcome"] is not None else end):
                    if len(sim.callers) >= M32: return []
                    return [("live-ids-collide", "tasks %d and %d are outstanding at the same time under the same call id %d (%d calls were made on the connection): "
                             "task %d registered at op %d and %s; task %d registered at op %d and %s%s" % (
                                 a["task"], b["task"], a["sent_id"], len(sim.callers),
                                 a["task"], a["call_at"], "ended with %r at op %d" % (a["outcome"], a["done_at"]) if a["outcome"] is not None else "never completed",
                                 b["task"], b["call_at"], "ended with %r at op %d" % (b["outcome"], b["done_at"]) if b["outcome"] is not None else "never completed",
                                 abort_note(sim)))]
    for c in sim.callers:
        t = c["task"]
        if aborted(c): continue      # its send() raised / it was cancelled (injected by the scenario): it ended with exactly that
        if c["sent_id"] is None:
            if c["outcome"] is None:
                bad.append(("hang-at-entry", "task %d never completed although request() had not even sent" % t))
            elif not (c["outcome"] == "closed" and closed_at is not None and closed_at < c["call_at"]):
                bad.append(("entry", "task %d: request() ended with %r before sending%s" % (t, c["outcome"],
                            " (the connection had closed at op %d, after this call was made)" % closed_at if closed_at is not None else
                            " although nothing had closed the connection: no peer EOF, no local close()/disconnect()/__aexit__ (at the end client.closed = %r, receive loop: %s)" % (
                                sim.final.get("closed"), sim.final.get("loop") or "running"))))
            continue
        if closed_at is not None and closed_at < c["call_at"]:
            bad.append(("sent-after-close", "task %d sent a request although the client was closed" % t))
        if c["noresp"]:
            if c["outcome"] != "none":
                bad.append(("noresponse", "task %d (noresponse) ended with %r" % (t, c["outcome"])))
            continue
        stop = c["done_at"] if c["outcome"] is not None else end
        first = None
        for i in range(c["call_at"] + 1, stop):
            if log[i].startswith("recv ") and (crash_at is None or i < crash_at):
                h = log[i][5:]
                r = parse_resp(bytes.fromhex(h) if h != "-" else b"")
                if r and r[0] == c["sent_id"]:
                    first = r[1]; break
        if c["outcome"] is None:
            if closed_at is not None:
                how = "peer EOF" if log[closed_at] == "eof" else "/".join(sorted({r[0] for r in sim.final.get("closures", [])})) + "()"
                srv = sim.sc.get("servers")
                bad.append(("hang-after-close", "task %d (call id %d) still hangs although the connection closed at op %d (%s)%s" % (
                    t, c["sent_id"], closed_at, how,
                    "; client started with %d server(s) whose logout hooks are %r, cleanup() is %s" % (len(srv), srv, sim.final.get("cleanup_status")) if srv else "")))
            elif first is not None:
                bad.append(("hang-answered", "task %d (call id %d) still hangs although its response arrived" % (t, c["sent_id"])))
            elif loop_gone is not None and sum(1 for k, _ in bad if k == "hang-loop-gone") < 3:
                bad.append(("hang-loop-gone", "task %d (call id %d) hangs for ever: %s; nothing closed the connection (closed = %d), %d datagram(s) of the peer "
                            "are still in the transport, nobody will ever take them" % (t, c["sent_id"], loop_gone, sim.final.get("closed", 0), sim.final.get("undelivered", 0))))
        elif c["outcome"] == "closed":
            if closed_at is None or closed_at > c["done_at"]:
                bad.append(("spurious-closed", "task %d (call id %d) raised 'closed' at op %d but nothing had closed the connection%s" % (
                    t, c["sent_id"], c["done_at"], " (the first closure of the run is at op %d)" % closed_at if closed_at is not None else "")))
        else:
            if first != c["outcome"]:
                # was the call completed by a REQUEST of the peer that happened to carry the same call id?
                for i in range(c["call_at"] + 1, stop):
                    if log[i].startswith("recv ") and (crash_at is None or i < crash_at):
                        h = log[i][5:]
                        q = parse_req(bytes.fromhex(h) if h != "-" else b"")
                        if q and q[1] == c["sent_id"] and c["outcome"] == "body " + R.hx(q[3]):
                            bad.append(("request-taken-for-response", "task %d (call id %d) returned %r: that is the body of a REQUEST the peer sent (protocol 0x%x, method %d, "
                                        "received at op %d) under call id %d of its own numbering, not a response; %s" % (
                                            t, c["sent_id"], c["outcome"], q[0], q[2], i, q[1],
                                            "the first response carrying its id was %r" % first if first is not None else "no response carrying its id had arrived")))
                            break
            if first is None:
                bad.append(("cross-talk", "task %d (call id %d) got %r but no response with its id had arrived" % (t, c["sent_id"], c["outcome"])))
            elif first != c["outcome"]:
                bad.append(("wrong-response", "task %d (call id %d) got %r, the first response carrying its id was %r" % (t, c["sent_id"], c["outcome"], first)))
            if closed_at is not None and closed_at < c["done_at"]:
                bad.append(("returned-after-close", "task %d returned %r after the connection had closed" % (t, c["outcome"])))
    if sim.sc.get("addressed"):
        bad += oracle_addressed(sim, crash_at)
    bad += oracle_peer_requests(sim, crash_at)
    note = abort_note(sim)
    return [(k, w + note) for k, w in bad] if note else bad


def ordinal(n):
    return "%d%s" % (n, "th" if 10 <= n % 100 <= 20 else {1: "st", 2: "nd", 3: "rd"}.get(n % 10, "th"))


def aborted(c):
    """the scenario made this caller's transport send() raise, or cancelled the caller, and request() ended with exactly that"""
    return bool(c.get("aborted")) and c["outcome"] is not None and (c["outcome"] == "cancelled" or c["outcome"].startswith("exc "))


def abort_note(sim):
    ab = [c for c in sim.callers if c.get("aborted")]
    if not ab: return ""
    return " [before that: " + "; ".join("the request() of task %d (call id %r) ended with %r at op %d while suspended (%s)" % (
        c["task"], c["sent_id"], c["outcome"], c["done_at"],
        "its datagram had reached the peer" if c.get("delivered", True) else "its datagram never reached the peer") for c in ab) + "]"


def oracle_addressed(sim, crash_at):
    """scenarios whose peer answers request messages (["ans", task, ...]): every datagram that answers a request is tagged
    with the task that sent that request. A call must complete with the first answer the peer gave to ITS OWN request —
    never with the answer to another request (another call's, or a one-way request's: that one is unsolicited for every caller)."""
    log, bad = sim.oplog, []
    addr = {int(k): v for k, v in sim.recv_addr.items()}
    def outcome_at(i):
        h = log[i][5:]
        r = parse_resp(bytes.fromhex(h) if h != "-" else b"")
        return r[1] if r else None
    def describe(t):
        c = sim.callers[t]
        return "task %d's %srequest (call id %r)" % (t, "ONE-WAY " if c["noresp"] else "", c["sent_id"])
    for c in sim.callers:
        if c["sent_id"] is None or c["noresp"] or c["outcome"] in (None, "closed") or aborted(c): continue
        t = c["task"]
        # its own answer = the first datagram, taken from the transport after the call registered, that the peer sent in answer to
        # this task's request — or that answers no request at all (an unaddressed stray response) but carries this call's id: the
        # receive loop may have been waiting in a request handler / a slow answer send while such a stray sat in the transport and
        # the call registered; to the client it is the response carrying its id (judged by id in `oracle`), not another call's data
        def mine(i):
            if crash_at is not None and i >= crash_at or not log[i].startswith("recv "): return False
            if i in addr: return addr[i] == t
            h = log[i][5:]
            r = parse_resp(bytes.fromhex(h) if h != "-" else b"")
            return bool(r) and r[0] == c["sent_id"]
        own = next((i for i in range(c["call_at"] + 1, c["done_at"]) if mine(i)), None)
        want = outcome_at(own) if own is not None else None
        if c["outcome"] == want: continue
        if len(bad) >= 20: break
        src = next((i for i in range(0, c["done_at"]) if i in addr and addr[i] != t and outcome_at(i) == c["outcome"]), None)
        seq = ", ".join("%s(task %d, id %r)" % ("oneway" if q["noresp"] else "call", q["task"], q["sent_id"]) for q in sim.callers)
        if src is not None:
            bad.append(("not-own-response", "task %d (call id %d) completed with %r, which is the answer the peer gave to %s; the answer to its own "
                        "request %s. Requests in order: %s" % (t, c["sent_id"], c["outcome"], describe(addr[src]),
                                                              "was %r" % want if want else "had not arrived", seq)))
        else:
            bad.append(("not-own-response", "task %d (call id %d) completed with %r; the first answer the peer gave to its request %s. Requests in order: %s"
                        % (t, c["sent_id"], c["outcome"], "was %r" % want if want else "had not arrived", seq)))
    return bad


# ---------------------------------------------------------------- several connections in one process
def retag(sc, c):
    """the data the peer of connection c sends differ from what any other connection's peer sends for the same call ids / tasks"""
    for st in sc["steps"]:
        if st[0] in ("resp", "ans"): st[3] += 16 * c
        elif st[0] == "preq": st[4] += 16 * c
    return sc


def chunks_of(sc):
    """the steps of a scenario built by mk() as two blocks: registering its calls (up to the first yield) / everything after"""
    st = sc["steps"]
    k = next((i + 1 for i, x in enumerate(st) if x[0] == "yield"), len(st)) if any(x[0] == "start" for x in st) else 0
    return [st[:k], st[k:]] if 0 < k < len(st) else [st]


def place(nv, blocks, points):
    """order list: connection 0 has nv steps; the blocks of connection 1 are executed at the given points (non-decreasing
    numbers of steps connection 0 has executed before)"""
    order, done = [], 0
    for b, p in zip(blocks, points):
        order += [0] * (p - done); done = p
        order += [1] * len(b)
    return order + [0] * (nv - done)


def gen_multi(ctx, singles):
    """F10: several live connections in one process.
    (a) observed connection V: 1..3 calls (3: sampled in quick), every response order, no closure / a closure after every
        prefix, two scheduling policies; another connection W does one thing out of a catalogue — closes idle (every
        kind), receives strays / a peer request carrying V's outstanding ids, registers 1 / n / n+1 calls (same counter
        start, or shifted) and gets them answered with its own data in some order, is closed with them outstanding,
        receives duplicates — with its call registration placed at every point p of V's schedule and the rest at every
        point q >= p.
    (b) 2..3 scenarios drawn from ALL single-connection families (permutations, closures, strays, one-way, servers with
        logout hooks, traffic in both directions, wrap, malformed datagrams), interleaved at random (step by step or in
        runs)."""
    rng, quick = ctx.rng, ctx.tier == "quick"
    out = []
    def observed(n):
        for perm in itertools.permutations(range(n)):
            for yp in ("y1", "batch"):
                yield mk(n, perm, akinds(rng, n), None, None, YP[yp], rng)
                for pos in range(n + 1):
                    yield mk(n, perm, akinds(rng, n), pos, rng.choice(CLOSE_KINDS), YP[yp], rng, spawn_close=int(rng.random() < 0.3))
    def catalogue(n):
        ids = list(range(1, n + 1))
        cat = []
        for ck in CLOSE_KINDS:
            cat.append(("idle-" + ck, mk(0, (), [], 0, ck, y1, rng, spawn_close=int(rng.random() < 0.3))))
        sh = ids[:]; rng.shuffle(sh)
        cat.append(("stray", mk(0, (), [], None, None, rng.choice([y1, ybatch]), rng, extras={0: [("unknown", i, rng.choice(["ok", "err"])) for i in sh]})))
        cat.append(("stray-close", mk(0, (), [], 0, rng.choice(CLOSE_KINDS), y1, rng, extras={0: [("unknown", rng.choice(ids), "ok")]})))
        srv = rng.random() < 0.5
        cat.append(("peer-request", mk(0, (), [], None, None, y1, rng, servers=[["ret"]] if srv else None, spawn_close=1,
                                       extras={0: [("preq", 0x50 if srv else 10, rand_method(rng), ("abs", rng.choice(ids)))]})))
        for m in sorted({1, n, n + 1}):
            perm = list(range(m)); rng.shuffle(perm)
            cat.append(("calls%+d" % (m - n), mk(m, perm, akinds(rng, m), None, None, rng.choice([y1, y1, ybatch]), rng)))
        for _ in range(2):
            m = rng.choice([1, n, n + 1]); perm = list(range(m)); rng.shuffle(perm)
            cat.append(("calls-close", mk(m, perm, akinds(rng, m), rng.randint(0, m), rng.choice(CLOSE_KINDS), y1, rng, spawn_close=int(rng.random() < 0.3))))
        m = rng.choice([1, n]); perm = list(range(m)); rng.shuffle(perm)
        cat.append(("calls-dup", mk(m, perm, akinds(rng, m), None, None, y1, rng, extras={rng.randint(0, m): [("dup", rng.randrange(m), rng.choice(["ok", "err"]))]})))
        m = rng.choice([1, n]); perm = list(range(m)); rng.shuffle(perm)
        cat.append(("calls-shifted", mk(m, perm, akinds(rng, m), rng.choice([None, rng.randint(0, m)]), rng.choice(CLOSE_KINDS), y1, rng, start_id=rng.choice([2, n, n + 1]))))
        return cat
    for n in (1, 2, 3):
        todo = []
        for v in observed(n):
            nv = len(v["steps"])
            for name, w in catalogue(n):
                blocks = chunks_of(w)
                for points in itertools.combinations_with_replacement(range(nv + 1), len(blocks)):
                    todo.append((v, name, w, blocks, points))
        if n == 3 and quick:
            todo = rng.sample(todo, 6000)
        for v, name, w, blocks, points in todo:
            out.append({"multi": [copy.deepcopy(v), retag(copy.deepcopy(w), 1)], "order": place(len(v["steps"]), blocks, points),
                        "fam": "multi%d:%s" % (n, name)})
    # (b) random interleavings of 2..3 scenarios of any family
    small = [sc for sc in singles if len(sc["steps"]) <= 24]
    for _ in range(4000 if quick else 100000):
        k = rng.choice([2, 2, 3])
        scs = [retag(copy.deepcopy(rng.choice(small)), i) for i in range(k)]
        order = [i for i, sc in enumerate(scs) for _ in sc["steps"]]
        if rng.random() < 0.5:
            rng.shuffle(order)
        else:       # in runs: each connection executes a few steps in a row
            left = [len(sc["steps"]) for sc in scs]
            order = []
            while any(left):
                i = rng.choice([j for j in range(k) if left[j]])
                r = min(left[i], rng.randint(1, 4))
                order += [i] * r; left[i] -= r
        out.append({"multi": scs, "order": order, "fam": "multi:mixed%d" % k})
    return out


# what the library's own request handler answers, by the convention of rmc_client_sim.FakeServer.handle (method & 15)
PAIR_ERR = {2: 0x80010006,      # raise RMCError("Core::AccessDenied")
            3: 0x80040002,      # TypeError  -> PythonCore::TypeError
            4: 0x80040007,      # KeyError   -> PythonCore::KeyError
            5: 0x80040001}      # ValueError -> PythonCore::Exception


def gen_pairs(ctx):
    """F13: the peer is the library itself. Two RMCClient objects are the two ends of ONE connection (what one sends the other
    receives, both count their calls from 1); each end is started with servers, so a call of one end is answered by the
    other end's handle_request (success with the handler's output, the handler's RMCError, PythonCore::* for other
    exceptions, Core::NotImplemented for an unregistered protocol). 1..3 calls per end whose METHOD IDS range over the
    whole u32 range (bit 15 and higher bits set), handlers that answer at once or after a while, calls in both directions
    at once. Each call must complete with the answer the other end's handler gave to ITS request, and that handler must
    have been entered with exactly the method id and body the caller passed."""
    rng, quick = ctx.rng, ctx.tier == "quick"
    out = []
    def side(tag, methods, protos, nserv, yields):
        steps = []
        for m, p in zip(methods, protos):
            steps.append(["start", 0, rng.choice([0, 0, 0, 1]), {"method": m, "protocol": p}])
            if yields and rng.random() < 0.5: steps.append(["yield", rng.choice([1, 2])])
        steps.append(["yield", 2])
        fy = sum(((m >> 4) & 15) + 6 for m in methods)
        return {"start_id": 1, "steps": steps, "addressed": 1, "servers": [["ret"]] * nserv, "spawn_close": 1, "body_tag": tag, "final_yields": fy,
                "reply_yields": rng.choice([0, 0, 1])}
    def pair(ma, mb, fam, nserv=None, yields=True):
        na = nserv or rng.choice([1, 1, 2]); nb = nserv or rng.choice([1, 1, 2])
        pa = [0x50 + rng.randrange(nb) if rng.random() < 0.9 else rng.choice([10, 0x21, 0x50 + nb]) for _ in ma]
        pb = [0x50 + rng.randrange(na) if rng.random() < 0.9 else rng.choice([10, 0x21, 0x50 + na]) for _ in mb]
        a, b = side("a", ma, pa, na, yields), side("b", mb, pb, nb, yields)
        a["final_yields"] += b["final_yields"]
        order = [0] * len(a["steps"]) + [1] * len(b["steps"])
        if rng.random() < 0.6: rng.shuffle(order)
        out.append({"multi": [a, b], "order": order, "pair": 1, "fam": fam})
    for m in METHOD_IDS + PREQ_HIGH + [rng.getrandbits(32) | 0x8000 for _ in range(10)]:
        pair([m], [], "pair1:" + ("bit15" if m & 0x8000 else "plain"))
        pair([m], [m], "pair1+1")
    for _ in range(500 if quick else 30000):
        ma = [rand_pair_method(rng) for _ in range(rng.randint(1, 3))]
        mb = [rand_pair_method(rng) for _ in range(rng.choice([0, 0, 1, 2, 3]))]
        pair(ma, mb, "pair:mixed")
    return out


def rand_pair_method(rng):
    r = rng.random()
    if r < 0.35: return rng.choice(PREQ_HIGH)
    if r < 0.6: return rng.choice(METHOD_IDS)
    # any u32 with bit 15 set / clear; handlers take at most 3 loop iterations
    m = (rng.getrandbits(32) & ~0xF0) | (rng.choice([0, 0, 1, 3]) << 4)
    return m | 0x8000 if rng.random() < 0.7 else m & ~0x8000


def oracle_pair(msc, sims):
    """both ends are the library: every completed call of one end is compared with what its arguments mean to the other end's
    servers (end to end, independent of any frame) -> [(connection, key, why)]"""
    bad = []
    for c, sim in enumerate(sims):
        other = sims[1 - c]
        nserv = len(other.sc.get("servers") or [])
        tag = sim.sc.get("body_tag", "")
        disp = {}
        for idx, srv, method, body in other.dispatches:
            disp.setdefault(body, []).append((srv, method))
        for q in sim.callers:
            if q["sent_id"] is None or q["noresp"] or "method" not in q: continue
            m, p, body = q["method"], q.get("protocol", 10), b"Q%d" % q["task"] + tag.encode()
            what = "connection %d, task %d: request(protocol 0x%x, method 0x%x, body %r) (call id %d) to a peer that is the library's own handle_request with %d server(s)" % (
                c, q["task"], p, m, body, q["sent_id"], nserv)
            if 0x50 <= p < 0x50 + nserv:
                got = disp.get(body.hex(), [])
                if got and got != [(p - 0x50, m)]:
                    bad.append((c, "pair-method", "%s: the peer's handler was entered with (server, method) = %s, expected once with (%d, 0x%x)" % (
                        what, ", ".join("(%d, 0x%x)" % g for g in got), p - 0x50, m)))
                    continue
                want = "rmc %d" % PAIR_ERR[m & 15] if (m & 15) in PAIR_ERR else "body " + R.hx(b"ack:" + body)
                answered = bool(got) and any(l.startswith("handlerret") for l in other.oplog)
            else:
                want = "rmc %d" % NOT_IMPLEMENTED
                answered = True
            if q["outcome"] is None:
                # did an answer to this request reach this end?
                arrived = any(a == q["task"] for a in {int(k): v for k, v in sim.recv_addr.items()}.values())
                if arrived:
                    bad.append((c, "pair-hang", "%s never completed although the peer's answer to it arrived (expected %r)" % (what, want)))
            elif q["outcome"] != want and q["outcome"] != "closed":
                bad.append((c, "pair-outcome", "%s completed with %r, expected %r" % (what, q["outcome"], want)))
    return bad


def describe_history(sc):
    """the compact steps of a long-history / burst scenario in words"""
    parts = []
    for st in sc["steps"]:
        if st[0] == "churn":
            parts.append("%d call ids consumed by short-lived traffic (pattern %r: c = call answered ok, e = answered with an error, o = one-way request, "
                         "O = one-way request the peer answers; %d at a time)" % (st[1], st[2], st[3] if len(st) > 3 else 1))
        elif st[0] == "strays":
            n = st[1][2] if st[1] and st[1][0] == "range" else len(st[1])
            parts.append("%d consecutive responses nobody waits for (ids %s, kinds %r, %s)" % (
                n, "%d, %d, ..." % (st[1][1], (st[1][1] + st[1][3]) & M32) if st[1][0] == "range" else ",".join(map(str, st[1][:6])) + (",..." if n > 6 else ""),
                st[2] if len(st) > 2 else "k", "one burst" if not (st[3] if len(st) > 3 else 0) else "%d loop iterations apart" % st[3]))
        elif st[0] == "start": parts.append("one-way request" if st[1] else "call")
        elif st[0] in ("ans", "resp"): parts.append("%s %s %s" % ("answer to task" if st[0] == "ans" else "response id", st[1], st[2]))
        elif st[0] in CLOSE_KINDS: parts.append(st[0])
    return "counter starts at %d; " % sc.get("start_id", 1) + "; ".join(parts)


def render_op(line):
    if line.startswith("recv "):
        h = line[5:]
        data = bytes.fromhex(h) if h != "-" else b""
        r = parse_resp(data)
        if r: return "recv response(call id %d: %s)" % r
        q = parse_req(data)
        if q: return "recv REQUEST(protocol 0x%x, call id %d)" % (q[0], q[1])
        return "recv " + h
    return line


def schedule_of(sims, limit=60):
    """the real order of the atomic sections of the whole process, 'c<connection>:<what>'"""
    g = sims[0].glog
    items = ["c%d:%s" % (c, render_op(sims[c].oplog[i])) for c, i in g]
    return ", ".join(items[:limit]) + (", ... (%d more)" % (len(items) - limit) if len(items) > limit else "")


def cross_note(sims, c, why):
    """what the other connections of the process did that explains a failure on connection c (facts from the logs only)"""
    m = re.search(r"task (\d+)", why)
    notes = []
    if m and int(m.group(1)) < len(sims[c].callers):
        call = sims[c].callers[int(m.group(1))]
        out = call["outcome"]
        if out and (out.startswith("body ") or out.startswith("rmc ")):
            for d, o in enumerate(sims):
                if d == c: continue
                for i, l in enumerate(o.oplog):
                    if l.startswith("recv ") and l[5:] != "-":
                        r = parse_resp(bytes.fromhex(l[5:]))
                        if r and r[1] == out:
                            notes.append("%r is what the peer of connection %d sent ON CONNECTION %d (its op %d, call id %d)" % (out, d, d, i, r[0]))
                            break
        if out in ("closed", "keyerror") or out is None:
            for d, o in enumerate(sims):
                if d != c and any(l in ("eof", "cleanup") for l in o.oplog):
                    notes.append("connection %d was closed (%s); connection %d %s" % (
                        d, next(l for l in o.oplog if l in ("eof", "cleanup")), c,
                        "was closed too" if any(l in ("eof", "cleanup") for l in sims[c].oplog) else "was never closed"))
        same = [d for d, o in enumerate(sims) if d != c and any(q["sent_id"] == call["sent_id"] for q in o.callers)]
        if same:
            notes.append("call id %r was also used by a call on connection(s) %s" % (call["sent_id"], ",".join(map(str, same))))
    return "; ".join(notes)


def multi_model_lines(sims):
    """the whole process through the model of a process, in the real order; -> (lines, per connection: indices of its output lines)"""
    lines, mine = ["proc"], [[] for _ in sims]
    for c, sim in enumerate(sims):
        lines.append("conn %d" % c)
        mine[c].append(len(lines))
        lines.append("new %d %d" % (sim.sc.get("start_id", 1), len(sim.sc.get("servers", []))))
    cur = len(sims) - 1
    for c, i in sims[0].glog:
        l = sims[c].oplog[i]
        if l == "loopcrash": continue
        if c != cur:
            lines.append("conn %d" % c); cur = c
        mine[c].append(len(lines))
        lines.append(l)
    for c in range(len(sims)):
        lines.append("conn %d" % c)
        mine[c] += [len(lines), len(lines) + 1]
        lines += ["dump", "xdump"]
    return lines, mine


def overlapping_ids(sims):
    """number of pairs of calls on DIFFERENT connections that were outstanding at the same time under the same call id"""
    pos = {}
    for g, (c, i) in enumerate(sims[0].glog):
        pos[(c, i)] = g
    end = len(sims[0].glog)
    spans = []
    for c, sim in enumerate(sims):
        for q in sim.callers:
            if q["sent_id"] is not None and not q["noresp"]:
                a = pos.get((c, q["call_at"]), 0)
                b = pos.get((c, q["done_at"]), end) if q["outcome"] is not None else end
                spans.append((c, q["sent_id"], a, b))
    return sum(1 for x in spans for y in spans if x[0] < y[0] and x[1] == y[1] and x[2] <= y[3] and y[2] <= x[3])


def _work_multi(chunk):
    res = []
    for sims in R.run_many_multi(chunk):
        res.append([{"oplog": sim.oplog, "callers": sim.callers, "final": sim.final, "warn_after": sim.warn_after, "sc": sim.sc,
                     "recv_addr": sim.recv_addr, "hook_entries": sim.hook_entries, "dispatches": sim.dispatches, "sends_at": sim.sends_at,
                     "glog": sim.glog if sim.conn == 0 else None, "conn": sim.conn} for sim in sims])
    return res


def run_real_multi(mscs, par):
    if par <= 1 or len(mscs) < 200:
        parts = [_work_multi(mscs)]
    else:
        chunks = [mscs[i:i + 250] for i in range(0, len(mscs), 250)]
        with multiprocessing.get_context("fork").Pool(par) as pool:
            parts = pool.map(_work_multi, chunks)
    return [[_S(d) for d in run] for p in parts for run in p]


_FRESH = ("import sys, pickle; d = pickle.load(sys.stdin.buffer); sys.path[:] = d['path']; import corr_C10; "
          "pickle.dump(corr_C10._work_multi([d['msc']]), sys.stdout.buffer)")


def run_fresh_multi(msc):
    """one multi-connection scenario in a fresh interpreter that has run nothing before (a failing input must fail by itself)"""
    p = subprocess.run([sys.executable, "-c", _FRESH], input=pickle.dumps({"path": list(sys.path), "msc": msc}),
                       stdout=subprocess.PIPE, stderr=subprocess.PIPE, timeout=120)
    (run,) = pickle.loads(p.stdout)
    return [_S(d) for d in run]


def oracle_multi(sims, msc=None):
    """the property for every connection of the process, each judged on its own log alone -> [(connection, key, why)]"""
    return [(c, key, why) for c, sim in enumerate(sims) for key, why in oracle(sim)] + (oracle_pair(msc, sims) if msc and msc.get("pair") else [])


def judge_multi(ctx, mscs, runs, drv):
    lines, spans = [], []
    for sims in runs:
        ml, mine = multi_model_lines(sims)
        spans.append((len(lines), mine))
        lines += ml
    outs = drv.batch(lines)
    n_diff, first_diff, n_overlap, n_conn = 0, None, 0, 0
    cands = {}      # violation key -> [(size, index of the run, connection, why)]
    for idx, (msc, sims, (base, mine)) in enumerate(zip(mscs, runs, spans)):
        fam = msc.get("fam", "")
        ov = overlapping_ids(sims)
        n_overlap += ov
        n_conn += len(sims)
        ctx.case(key=repr(msc["multi"]) + repr(msc["order"]), nontrivial=sum(len(s.callers) for s in sims) > 0, tag="fam=" + fam.split(":")[0],
                 sample={"scenario": msc, "schedule": schedule_of(sims), "oplogs": [s.oplog for s in sims]} if ctx.evaluations % 3989 == 0 else None)
        ctx.tag("multi:connections=%d" % len(sims))
        if ov: ctx.tag("multi:equal-ids-outstanding-on-two-connections")
        if sum(1 for s in sims if any(l in ("eof", "cleanup") for l in s.oplog)) not in (0, len(sims)) and any(c["outcome"] not in (None, "closed") or True for s in sims for c in s.callers):
            ctx.tag("multi:one-closed-others-open")
        all_diffs = []
        for c, sim in enumerate(sims):
            o = [outs[base + j] for j in mine[c]]
            diffs, flags = compare(sim, o)
            if "SPECDIFF" in flags and "H-IDS-BROKEN" not in flags:
                ctx.corr_break("C10_refines_spec-at-runtime", "the compiled model and the compiled specification disagree although live ids are distinct",
                               {"scenario": msc, "connection": c, "oplog": sim.oplog, "model": o})
            if diffs: all_diffs.append((c, diffs))
            for k in {(q["outcome"] or "hung").split(" ")[0] for q in sim.callers}: ctx.tag("outcome=" + k)
        for c, key, why in oracle_multi(sims, msc):
            size = (len(sims), sum(len(s.callers) for s in sims), len(msc["order"]))
            cands.setdefault(key, []).append((size, idx, c, why))
        if all_diffs:
            n_diff += 1
            if first_diff is None: first_diff = (msc, sims, all_diffs)
    # report, per kind of failure, the smallest scenario that fails BY ITSELF in a process that has run nothing else
    for key in sorted(cands):
        cs = sorted(cands[key])[:8]
        rep = None
        for size, idx, c, why in cs:
            try:
                fresh = run_fresh_multi(mscs[idx])
            except Exception:
                break
            hit = next(((c2, w2) for c2, k2, w2 in oracle_multi(fresh, mscs[idx]) if k2 == key), None)
            if hit:
                rep = (mscs[idx], fresh, hit[0], hit[1], "confirmed by running this scenario alone in a fresh process"); break
        if rep is None:
            size, idx, c, why = cs[0]
            rep = (mscs[idx], runs[idx], c, why, "observed in a worker process that had run other scenarios before")
        msc, sims, c, why, how = rep
        note = cross_note(sims, c, why)
        ctx.violation("c10:connections:" + key,
                      "RMCClient, %s, connection %d: %s%s. Schedule of the process: %s" % (
                          "the two ends of one connection (each end an RMCClient with servers)" if msc.get("pair") else "%d live connections in one process" % len(sims), c, why, " [" + note + "]" if note else "", schedule_of(sims)),
                      {"scenario": msc, "failing_connection": c, "schedule": schedule_of(sims, 10 ** 6), "oplogs": [s.oplog for s in sims],
                       "callers": [[{k: (v.hex() if isinstance(v, bytes) else v) for k, v in q.items()} for q in s.callers] for s in sims],
                       "final": [s.final for s in sims], "reproduction": how,
                       "how": "./check C10 --replay <this file>: rmc_client_sim.run_many_multi([scenario]) (all connections in one event loop), then oracle() on every connection"})
    return n_diff, first_diff, len(lines), n_overlap, n_conn


# ---------------------------------------------------------------- model replay
def model_lines(sim):
    lines = ["new %d %d" % (sim.sc.get("start_id", 1), len(sim.sc.get("servers", [])))]
    for l in sim.oplog:
        if l == "loopcrash": continue
        lines.append(l)
    lines.append("dump")
    lines.append("xdump")
    return lines


def compare(sim, outs):
    """returns list of (what, detail) differences between the real run and the model's prediction"""
    diffs = []
    log = [l for l in sim.oplog if l != "loopcrash"]
    idx_map = [i for i, l in enumerate(sim.oplog) if l != "loopcrash"]
    callers = sim.callers
    flags = set()
    hooks_real = {}
    for idx, srv in sim.hook_entries:
        hooks_real.setdefault(idx, []).append(srv)
    disp_real, sends_real = {}, {}
    for idx, srv, method, body in sim.dispatches:
        disp_real.setdefault(idx, []).append("dispatch %d %d" % (srv, method))
    for idx, hexd in sim.sends_at:
        a = parse_answer(bytes.fromhex(hexd))
        sends_real.setdefault(idx, []).append("%d %d %d" % (a[0], a[1], int(a[2])) if a else "unparsable " + hexd)
    for pos, (l, o) in enumerate(zip(log, outs[1:-2])):
        parts = o.split(" ")
        while parts and parts[-1] in ("SPECDIFF", "H-IDS-BROKEN"):
            flags.add(parts.pop())
        o = " ".join(parts)
        items = [] if o == "-" else o.split(";")
        # logout hooks entered during this atomic section
        model_hooks = [int(x.split(" ")[1]) for x in items if x.startswith("logout ")]
        if model_hooks != hooks_real.get(idx_map[pos], []):
            diffs.append(("logout-hooks", "%s: model enters hooks %r, real %r" % (l[:40], model_hooks, hooks_real.get(idx_map[pos], []))))
        if l in ("hookret", "hookraise") and "nohook" in items:
            diffs.append(("hook", "%s although no logout hook is executing in the model" % l))
        # the peer's own requests: which server's handle() is entered, which answers are sent (protocol, call id, success)
        model_disp = [" ".join(x.split(" ")[:3]) for x in items if x.startswith("dispatch ")]
        if model_disp != disp_real.get(idx_map[pos], []):
            diffs.append(("dispatch", "%s: model %r, real handle() entries %r" % (l[:60], [x for x in items if x.startswith("dispatch ")], disp_real.get(idx_map[pos], []))))
        model_ans = [x.split(" ", 1)[1] for x in items if x.startswith("answer ")] + [x.split(" ", 1)[1] + " 0" for x in items if x.startswith("notimpl ")]
        if model_ans != sends_real.get(idx_map[pos], []):
            diffs.append(("answer", "%s: model sends (protocol, call id, success) %r, real %r" % (l[:60], model_ans, sends_real.get(idx_map[pos], []))))
        if l.startswith("handlerret ") and "nohandler" in items:
            diffs.append(("handler", "%s although no request handler is executing in the model" % l))
        if l.startswith("call "):
            sent = [x for x in items if x.startswith("sent ")]
            done = [x for x in items if x.startswith("done ")]
            t = int((sent or done or ["x -1"])[0].split(" ")[1])
            if t < 0 or t >= len(callers): diffs.append(("call", "%s -> %s" % (l, o))); continue
            c = callers[t]
            msent = int(sent[0].split(" ")[2]) if sent else None
            if msent != c["sent_id"]:
                diffs.append(("call-id", "task %d: model says id %r, real request carried %r" % (t, msent, c["sent_id"])))
            if done:
                want = done[0].split(" ", 2)[2]
                if c["outcome"] != want:
                    diffs.append(("outcome", "task %d: model %r real %r" % (t, want, c["outcome"])))
        elif l.startswith("recv "):
            real_warn = sim.warn_after.get(idx_map[pos], 0)
            model_warn = sum(1 for x in items if x.startswith("warn "))
            crashed = o.startswith("crash")
            real_crash = idx_map[pos] + 1 < len(sim.oplog) and sim.oplog[idx_map[pos] + 1] == "loopcrash"
            if crashed != real_crash:
                diffs.append(("loop-crash", "%s: model %r real crash=%r" % (l[:60], o, real_crash)))
            if real_warn != model_warn:
                diffs.append(("warn", "%s: model %r, real warnings %d" % (l[:60], o, real_warn)))
        elif l.startswith("abort "):
            t = int(l.split(" ")[1])
            if o != "aborted %d" % t:
                diffs.append(("abort", "task %d ended with %r while suspended; model: %r" % (t, callers[t]["outcome"], o)))
        elif l.startswith("wake "):
            t = int(l.split(" ")[1])
            want = o.split(" ", 2)[2] if o.startswith("done ") else o
            if callers[t]["outcome"] != want:
                diffs.append(("outcome", "task %d: model %r real %r" % (t, want, callers[t]["outcome"])))
    # final state
    f = sim.final
    d = outs[-2]
    xreal = "cleanup=" + f["cleanup_status"]
    if not outs[-1].endswith(" " + xreal):
        diffs.append(("cleanup-status", "model %r real %r (closures %r, loop %r)" % (outs[-1], xreal, f["closures"], f["loop"])))
    frames = d[d.index("frames=[") + 8:-1].split(" ") if not d.endswith("frames=[]") else []
    hung_model = sorted(int(x.split(":")[0]) for x in frames)
    ready_model = sorted(int(x.split(":")[0]) for x in frames if x.endswith(":1"))
    real = "state next=%d tasks=%d closed=%d requests=[%s] responses=[%s]" % (
        f["next"], len(callers), f["closed"], ",".join(map(str, f["requests"])), ",".join(map(str, f["responses"])))
    if not d.startswith(real + " frames="):
        diffs.append(("state", "model %r real %r" % (d, real)))
    if hung_model != sorted(f["hung"]):
        diffs.append(("hung", "model frames %r real unfinished %r" % (frames, f["hung"])))
    if ready_model:
        diffs.append(("not-woken", "tasks %r have their event set (model) but never resumed" % ready_model))
    return diffs, flags


def _work(chunk):
    sims = R.run_many(chunk)
    res = []
    for sim in sims:
        res.append({"oplog": sim.oplog, "callers": sim.callers, "final": sim.final, "warn_after": sim.warn_after, "sc": sim.sc,
                    "recv_addr": sim.recv_addr, "hook_entries": sim.hook_entries, "dispatches": sim.dispatches, "sends_at": sim.sends_at})
    return res


class _S:  # light view of a finished run
    def __init__(self, d): self.__dict__.update(d)


def run_real(scs, par):
    if par <= 1 or len(scs) < 2000:
        return [_S(d) for d in _work(scs)]
    # scenarios with long histories (tens of thousands of calls each) go to the workers first, one per job
    heavy = [i for i, sc in enumerate(scs) if c10_long.total_churn(sc) >= 1000]
    hs = set(heavy)
    light = [i for i in range(len(scs)) if i not in hs]
    heavy.sort(key=lambda i: -c10_long.total_churn(scs[i]))
    jobs = [[i] for i in heavy] + [light[k:k + 500] for k in range(0, len(light), 500)]
    with multiprocessing.get_context("fork").Pool(par) as pool:
        parts = pool.map(_work, [[scs[i] for i in job] for job in jobs], chunksize=1)
    res = [None] * len(scs)
    for job, p in zip(jobs, parts):
        for i, d in zip(job, p): res[i] = _S(d)
    return res


def judge(ctx, sims, drv):
    # the model replays every op log; the driver is fed in batches of at most ~1.5 million lines (each log starts with `new`)
    per_sim, lines, group, nlines = [], [], [], 0
    def flush():
        nonlocal lines, group
        if lines:
            outs = drv.batch(lines)
            for a, b in group: per_sim.append(outs[a:b])
        lines, group = [], []
    for sim in sims:
        ml = model_lines(sim)
        if lines and len(lines) + len(ml) > 1500000: flush()
        group.append((len(lines), len(lines) + len(ml)))
        lines += ml
        nlines += len(ml)
    flush()
    n_diff = 0
    first_diff = None
    worst = {}      # violation key -> (size of the scenario, what, replay): the smallest failing scenario is reported
    for sim, o in zip(sims, per_sim):
        diffs, flags = compare(sim, o)
        bad = oracle(sim)
        fam = sim.sc.get("fam", "")
        kinds = sorted({(c["outcome"] or "hung").split(" ")[0] for c in sim.callers})
        ctx.case(key=repr(sim.sc["steps"]) + str(sim.sc.get("start_id")), nontrivial=len(sim.callers) > 0,
                 tag="fam=" + fam.split(":")[0], sample={"scenario": sim.sc, "oplog": sim.oplog, "model": o} if ctx.evaluations % 3989 == 0 else None)
        for k in kinds: ctx.tag("outcome=" + k)
        for x in o[1:-2]:
            for it in x.replace(" SPECDIFF", "").replace(" H-IDS-BROKEN", "").split(";"):
                ctx.tag("model:" + it.split(" ")[0] + (":" + it.split(" ")[2] if it.startswith("done ") else ""))
        if "H-IDS-BROKEN" in flags: ctx.tag("h-ids-broken")
        if "SPECDIFF" in flags and "H-IDS-BROKEN" not in flags:
            ctx.corr_break("C10_refines_spec-at-runtime", "the compiled model and the compiled specification disagree although live ids are distinct",
                           {"scenario": sim.sc, "oplog": sim.oplog, "model": o})
        for key, why in bad:
            size = (len(sim.callers), len(sim.sc["steps"]))
            if key not in worst or size < worst[key][0]:
                named = {int(x) for x in re.findall(r"tasks? (\d+)", why)} | {int(x) for x in re.findall(r"and (\d+) are outstanding", why)}
                big = len(sim.oplog) > 6000
                def cut(l): return l if not big else {"length": len(l), "first": l[:30], "last": l[-30:]}
                worst[key] = (size, "RMCClient: " + why + (" [history: " + describe_history(sim.sc) + "]" if "long" in sim.sc or "burst" in sim.sc else ""),
                              {"scenario": sim.sc, "oplog": cut(sim.oplog),
                               "callers": [{k: (v.hex() if isinstance(v, bytes) else v) for k, v in c.items()} for c in sim.callers
                                           if not big or c["task"] in named or (c["outcome"] is None and len(named) < 40 and not named.add(c["task"]))],
                               "callers_total": len(sim.callers),
                               "final": sim.final if not big else {k: (v if not isinstance(v, list) or len(v) < 60 else v[:60] + ["..."]) for k, v in sim.final.items()},
                               "model": cut(o), "model_diffs": diffs[:40],
                               "how": "harness/corr_C10.py replay(): rmc_client_sim.run_many([scenario]) then oracle()"})
        if diffs:
            n_diff += 1
            if first_diff is None: first_diff = (sim, o, diffs)
    for key in sorted(worst):
        ctx.violation("c10:" + key, worst[key][1], worst[key][2])
    return n_diff, first_diff, nlines


def run(ctx):
    ctx.rule = ("scenarios = scripted peers/closers around the real RMCClient: 1..6 concurrent request() tasks, every permutation of the "
                "response order for 1..5 calls (6: sampled in quick, all 720 in thorough) x closure after every prefix x eof/close/disconnect/__aexit__, "
                "duplicate / unknown-id / stray-request datagrams at every position of every permutation of 1..4 calls, random mixes with late calls, "
                "noresponse calls, slow sends, calls after closure, call-id wrap-around; three scheduling policies; one-way requests at every position of "
                "1..4 requests (5: thorough; 5-6 sampled) with a peer answering every request message, one-way included, in every order (success/error), "
                "plus a late request / closure / wrap; clients started with 1..3 protocol servers whose logout hooks return, return late, wait until no "
                "call is outstanding, never return or raise x closure of every kind (each in its own task) after every prefix of every response order "
                "of 1..3 calls (4: thorough); traffic in both directions: 1..3 calls (4: thorough) x 1..3 REQUESTS of the peer whose call ids equal / shuffle / "
                "overlap / repeat / avoid the ids of our outstanding calls x every response order x every placement of the requests among the responses, "
                "to 1..2 registered servers (handlers answering at once, late, raising RMCError / other exceptions) or to unregistered protocols, plus "
                "closures at every prefix, 4 calls x 1..2 requests, sampled mixes up to 6 x 6 with one-way / late calls and slow answer sends, counter wrap. "
                "Several live connections in one process (2..3 RMCClient objects in one event loop, all counting their calls from 1): the observed "
                "connection goes through every response order of 1..3 calls (3: sampled in quick) x no closure / closure after every prefix while another "
                "connection closes idle, receives strays / a peer request with the ids outstanding elsewhere, registers 1/n/n+1 calls under the same or "
                "shifted ids and gets them answered with its own data, is closed with calls outstanding, receives duplicates - its registration at every "
                "point p and the rest at every point q >= p of that schedule; plus random interleavings of 2..3 scenarios of all the families above; "
                "every connection judged on its own log, the process replayed in real order through the model of a process. "
                "Method ids over the u32 range (19 boundary ids + random ones with bit 15 / higher bits set): 1 call x every id x success / error / "
                "non-conforming error / empty body, by call id and by addressee, 2..3 calls with different ids x every response order, requests of the peer "
                "with such method ids under the ids of our outstanding calls at every placement, random mixes; and with the library itself as the peer: two "
                "RMCClient objects as the two ends of one connection, each started with servers, 1..3 calls per end (both directions at once), every call "
                "judged end to end (the other end's handler entered once with exactly the method and body passed to request(); the call completes with what "
                "that handler answered: output / RMCError / PythonCore::* / Core::NotImplemented). "
                "Callers ending while suspended: 1..3 initial calls x which one fails x send() raising / cancellation x back pressure on independent sends / "
                "a transport send lock held by the failing sender with the later ones queued / send() raising at once x datagram delivered or not x 0..2 later "
                "calls x 0..1 calls answered before the failure x every order of the peer's answers to the surviving requests (sampled beyond 6 orders in quick), "
                "cancellation during a slow send / while waiting for the response, two callers failing, closures, random mixes (`abort t` in the model). "
                "In every family two calls outstanding at the same time under one call id (fewer than 2^32 - 1 calls made) is itself a violation. "
                "Long histories: 1..8 calls stay outstanding while N further call ids are consumed on the connection by short calls of other tasks "
                "(answered with success / error), one-way requests and one-way requests the peer answers, 1..16 at a time, N in {1, 2, 5, 17, 100, 255..257, "
                "511, 513, 1000, 1023..1025, 2048, 4095..4097, 5000, 70000} (thorough: also 8193, 32769, 65535..65537, 140000), counter from 1 / wrapping "
                "at 2^32 inside the history / around 2^16 and 2^31, then their responses arrive in any order (by addressee or by id) / the connection "
                "closes in every way / some are answered and then it closes, then 1..3 further calls; bursts of B consecutive responses nobody waits "
                "for, B in {1..3, 7..10, 15..17, 31..33, 63..65, 100, 127..129, 255..257, 1000, 1024, 1025} (thorough: 4096, 4097, 70000): duplicates of "
                "completed calls, ids of one-way requests, never-issued ids (the next ids of the counter, far ids, 0, 2^32-1, one id repeated), success / "
                "empty success / error / error without bit 31, as one burst / spaced out / cut into runs by the genuine responses or by short calls, on a "
                "connection that never made a call, after all calls completed, with 1..3 calls outstanding, followed by the genuine responses, further "
                "calls, a second burst and another call, or a closure with a call unanswered. "
                "Each run's op log is replayed through the Lean model; a case counts as distinct non-trivial per distinct "
                "scenario with at least one call")
    ctx.assumptions.append("anyio/asyncio wake a task whose Event was set and run the code between two awaits atomically (trusted runtime); "
                           "a send() that raises / a cancelled caller is the model's `abort` (the frame is discarded, the object untouched); a send() of an "
                           "ANSWER to a peer's request (handle_request) that raises is not modelled")
    import time
    t0 = time.time(); phases = ctx.extra["phase_seconds"] = {}
    scs = gen_scenarios(ctx)
    scs_long = c10_long.gen_long(ctx) + c10_long.gen_bursts(ctx)
    par = min(16, os.cpu_count() or 1)
    sims = run_real(scs + scs_long, par if ctx.tier != "quick" else min(par, 8))
    ctx.extra["long_history_scenarios"] = sum(1 for sc in scs_long if "long" in sc)
    ctx.extra["long_history_call_ids_consumed_while_a_call_is_outstanding"] = sorted({sc["long"] for sc in scs_long if "long" in sc})
    ctx.extra["burst_scenarios"] = sum(1 for sc in scs_long if "burst" in sc)
    ctx.extra["burst_lengths"] = sorted({sc["burst"] for sc in scs_long if "burst" in sc})
    phases["generate+run single-connection scenarios"] = round(time.time() - t0, 1); t0 = time.time()
    drv = ctx.driver()
    n_diff, first, nlines = judge(ctx, sims, drv)
    phases["model replay + oracle, single-connection"] = round(time.time() - t0, 1); t0 = time.time()
    ctx.traces_validated = len(sims)
    ctx.extra["scenarios"] = len(sims)
    ctx.extra["model_lines"] = nlines
    ctx.extra["scenarios_differing_from_model"] = n_diff
    ctx.extra["permutations_exhaustive_up_to"] = 5 if ctx.tier == "quick" else 6
    ctx.extra["peer_requests_received"] = sum(1 for sim in sims for l in sim.oplog if l.startswith("recv ") and parse_req(bytes.fromhex(l[5:]) if l[5:] != "-" else b"") is not None)
    ctx.extra["peer_requests_dispatched"] = sum(len(sim.dispatches) for sim in sims)
    ctx.extra["peer_requests_colliding_with_outstanding_call"] = sum(n_colliding(sim) for sim in sims)
    # several live connections in one process
    mscs = gen_multi(ctx, scs) + gen_pairs(ctx)
    runs = run_real_multi(mscs, par)
    phases["generate+run multi-connection processes"] = round(time.time() - t0, 1); t0 = time.time()
    m_diff, m_first, m_lines, n_overlap, n_conn = judge_multi(ctx, mscs, runs, drv)
    phases["model replay + oracle, multi-connection"] = round(time.time() - t0, 1)
    ctx.traces_validated += n_conn
    ctx.extra["multi_connection_processes"] = len(runs)
    ctx.extra["multi_connection_connections"] = n_conn
    ctx.extra["multi_connection_model_lines"] = m_lines
    ctx.extra["multi_connection_processes_differing_from_model"] = m_diff
    ctx.extra["pairs_of_calls_outstanding_on_two_connections_under_one_id"] = n_overlap
    if m_diff and not ctx.violations and not ctx.known_hits:
        msc, msims, all_diffs = m_first
        ctx.corr_break("rmcclient-process-model-correspondence", "a process with several live RMCClient objects and the Lean model of a process (independent connection "
                       "states) disagree on %d of %d runs; first: %s" % (m_diff, len(runs), [(c, d[:2]) for c, d in all_diffs][:3]),
                       {"scenario": msc, "schedule": schedule_of(msims, 10 ** 6), "oplogs": [x.oplog for x in msims], "diffs": all_diffs,
                        "theorems_no_longer_tied": ["Nx.C10.connections_independent", "Nx.C10.no_cross_talk_between_connections", "Nx.C10.close_wakes_all_of_that_connection"]})
    if n_diff and not ctx.violations and not ctx.known_hits:
        sim, o, diffs = first
        ctx.corr_break("rmcclient-model-correspondence", "real RMCClient and the Lean model disagree on %d of %d scenarios; first: %s" % (n_diff, len(sims), diffs[:3]),
                       {"scenario": sim.sc, "oplog": sim.oplog, "model": o, "diffs": diffs,
                        "theorems_no_longer_tied": ["Nx.C10.C10_refines_spec", "Nx.C10.close_wakes_all", "Nx.C10.no_cross_talk"]})


def replay(ctx, path):
    import json
    r = json.load(open(path))
    if "multi" in r["scenario"]:
        sims = run_real_multi([r["scenario"]], 1)[0]
        print("schedule:", schedule_of(sims, 10 ** 6))
        bad = oracle_multi(sims, r["scenario"])
        for c, sim in enumerate(sims):
            print("--- connection %d" % c)
            for q in sim.callers: print(q)
            print(sim.final)
        for c, key, why in bad: print("VIOLATION connection %d:" % c, key, why)
        return 1 if bad else 0
    sims = run_real([r["scenario"]], 1)
    for sim in sims:
        print("\n".join(sim.oplog))
        for c in sim.callers: print(c)
        print(sim.final)
        bad = oracle(sim)
        for key, why in bad: print("VIOLATION", key, why)
        return 1 if bad else 0
