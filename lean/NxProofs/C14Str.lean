import NxProofs.Schema
import NxProofs.NexStreams
/-!
# C14: string-valued positions at the level of Python `str`

The schema interpreter (`NxModel/Nex/Schema.lean`) carries a string as its UTF-8 bytes (`Val.str`) and its
`decStr` drops the last *byte* (documented difference G4), whereas `StreamIn.string` decodes the bytes and
drops the last *character*. This file closes that gap for EVERY encodable Python string — a Lean `String` is
a sequence of Unicode scalar values, exactly the `str` values `encode("utf8")` accepts —, in particular for
strings that end in U+0000, consist only of U+0000, contain U+0000, end in white space, or are a single
character at a border of the BMP: the byte-level codec of the interpreter and the character-level codec of
`NxModel/Nex/Streams.lean` (`wString` / `rString`: `(s + "\0").encode("utf8")`, `decode("utf8")[:-1]`)
write the same bytes, fail on the same strings (more than 65534 bytes), and read back the same string.
-/
namespace Nx.C14Str
open Nx Nx.Schema Nx.Nex

/-- UTF-8 of `s + "\0"` is UTF-8 of `s` followed by the single byte 0 -/
theorem utf8Enc_terminated (l : List Char) : utf8Enc (l ++ ['\x00']) = utf8Enc l ++ [0] := by
  simp [utf8Enc, String.utf8EncodeChar]

/-- the interpreter's `encStr` on the UTF-8 bytes of `s` IS `StreamOut.string(s)`: same bytes, same failure -/
theorem encStr_eq_wString (s : String) : encStr (utf8Enc s.toList) = wString (some s) := by
  simp only [wString, utf8Enc_terminated, encStr, wU16, List.length_append, List.length_cons, List.length_nil]
  by_cases h : (utf8Enc s.toList).length + 1 < 65536
  · simp [h, bind, Except.bind, pure, Except.pure]
  · simp [h, bind, Except.bind]

/-- reading what was written: the interpreter's byte-level `decStr` (drops the last byte) yields the UTF-8 bytes of
    exactly the string that the character-level `StreamIn.string` (drops the last character) yields, and that string
    is `s` — whatever `s` ends in -/
theorem decStr_eq_rString {s : String} {b : Bytes} (h : wString (some s) = .ok b) (rest : Bytes) :
    decStr (b ++ rest) = .ok (some (utf8Enc s.toList), rest) ∧ rString (b ++ rest) = .ok (some s, rest) :=
  ⟨encStr_rt rest (by rw [encStr_eq_wString]; exact h), rString_wString h rest⟩

/-- the longest encodable string has 65534 UTF-8 bytes (the 16-bit prefix counts the terminator) -/
theorem encodable_iff (s : String) : (∃ b, encStr (utf8Enc s.toList) = .ok b) ↔ (utf8Enc s.toList).length ≤ 65534 := by
  rw [encStr_eq_wString]; exact wString_ok_iff s

/-- distinct strings have distinct wire forms (so `"k"` and `"k\0"` stay distinct map keys / values) -/
theorem wString_injective {s t : String} {b : Bytes} (hs : wString (some s) = .ok b) (ht : wString (some t) = .ok b) : s = t := by
  have h1 := rString_wString hs []
  have h2 := rString_wString ht []
  rw [h1] at h2
  simpa using h2

end Nx.C14Str
