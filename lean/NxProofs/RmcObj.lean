import NxProofs.Rmc
/-! RMC framing of a message OBJECT whose fields were assigned one by one (`msg.error = …` on a prepared response etc.):
the model's `encode` is a function of the current field values, and for a response object the `error` attribute alone
selects the form, whatever method and body the object still holds. -/
namespace Nx.Rmc
open Nx

/-- what `encode` looks at in a response object that carries an error code: protocol, call id and the code only -/
theorem encode_error_ignores_method_body (m : Msg) (hmode : m.mode ≠ 0) (hbit : hasErrorBit m.error = true) :
    encode m = encode { m with method := none, body := [] } := by
  simp only [encode, hmode, if_false, hbit, if_true]

/-- a request object ignores its `error` attribute -/
theorem encode_request_ignores_error (m : Msg) (hmode : m.mode = 0) (e : Int) :
    encode { m with error := e } = encode m := by
  simp only [encode, hmode, if_true]

/-- a response object whose `error` attribute was set to a code with the error bit is framed as the reference
    error response of its protocol and call id — whatever method and body it was prepared with -/
theorem encode_error_set (m : Msg) (hmode : m.mode = 1) (e : Nat) (h : (Spec.failure m.protocol m.callId e).WF) :
    encode { m with error := (e : Int) } = .ok (specEncode (.failure m.protocol m.callId e)) := by
  have hbit : hasErrorBit (e : Int) = true := by
    obtain ⟨_, _, he1, he2⟩ := h
    unfold hasErrorBit
    have : (e : Int) ≠ -1 := by omega
    simp [this]
    omega
  rw [encode_error_ignores_method_body _ (by simp [hmode]) (by simpa using hbit)]
  have := encode_ofSpec (.failure m.protocol m.callId e) h
  simpa [ofSpec, hmode] using this

/-- … and when the error is withdrawn again (`error = -1`) it is framed as the reference success response of the
    method and body it holds -/
theorem encode_error_withdrawn (m : Msg) (hmode : m.mode = 1) (meth : Nat) (hmeth : m.method = some meth)
    (h : (Spec.success m.protocol m.callId meth m.body).WF) :
    encode { m with error := -1 } = .ok (specEncode (.success m.protocol m.callId meth m.body)) := by
  have := encode_ofSpec (.success m.protocol m.callId meth m.body) h
  simpa [ofSpec, hmode, hmeth] using this

end Nx.Rmc
