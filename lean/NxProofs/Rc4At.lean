import NxModel.Prudp.Conn
import NxProofs.Cipher
/-! RC4 at a running position (`rc4At key pos`), as the endpoint model uses it: it is xor with a key stream, hence
length-preserving and its own inverse at the same position — for every key. -/
namespace Nx.L1
open Nx Nx.Prudp Nx.Chan Nx.Crypto

theorem rc4Apply_length : ∀ (x : Bytes) (st : Rc4), (rc4Apply st x).1.length = x.length := by
  intro x
  induction x with
  | nil => intro st; rfl
  | cons a r ih => intro st; simp only [rc4Apply, List.length_cons]; rw [ih]

theorem rc4At_length (key : Bytes) (pos : Nat) (d : Bytes) : (rc4At key pos d).length = d.length := by
  unfold rc4At; exact rc4Apply_length _ _

/-! ## RC4 at a position is xor with a key stream -/

/-- the key-stream byte RC4 produces at position `p` under `key` -/
def rc4Ks (key : Bytes) (p : Nat) : UInt8 := (rc4Next (rc4Skip p (rc4Ksa key))).1

theorem rc4Skip_succ : ∀ (n : Nat) (st : Rc4), rc4Skip (n + 1) st = (rc4Next (rc4Skip n st)).2 := by
  intro n
  induction n with
  | zero => intro st; rfl
  | succ n ih => intro st; show rc4Skip (n + 1) (rc4Next st).2 = _; rw [ih]; rfl

theorem rc4At_eq_xorAt (key : Bytes) : ∀ (d : Bytes) (pos : Nat), rc4At key pos d = xorAt (rc4Ks key) pos d := by
  intro d
  induction d with
  | nil => intro pos; rfl
  | cons x r ih =>
    intro pos
    have h := ih (pos + 1)
    unfold rc4At at h ⊢
    rw [rc4Skip_succ] at h
    simp only [rc4Apply, xorAt]
    rw [h]; rfl

theorem rc4At_involutive (key : Bytes) (pos : Nat) (d : Bytes) : rc4At key pos (rc4At key pos d) = d := by
  rw [rc4At_eq_xorAt, rc4At_eq_xorAt]; exact xorAt_involutive _ d pos

theorem rc4At_isEmpty (key : Bytes) (pos : Nat) (d : Bytes) : (rc4At key pos d).isEmpty = d.isEmpty := by
  have := rc4At_length key pos d
  cases h : rc4At key pos d with
  | nil => rw [h] at this; cases d with
    | nil => rfl
    | cons _ _ => simp at this
  | cons x xs => rw [h] at this; cases d with
    | nil => simp at this
    | cons _ _ => rfl

end Nx.L1
