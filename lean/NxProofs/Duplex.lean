import NxProofs.Sys
/-!
# C01 — both directions of one connection at once

`Sys` follows ONE direction of a connection (endpoint `a` sends, endpoint `b` receives) and treats what the two endpoints
do for the other direction as frame steps (`bSend`, `bPing`, `aRecv`, `bAckIn`, `bFireResend`, …). Here the two directions
are put together: `Duplex` holds the connection twice, once per direction, `ab` with endpoint A as the sender and `ba` with
endpoint B as the sender; `Same` says that the two views hold THE SAME two endpoints (`ab.a = ba.b`, `ab.b = ba.a`). Every
step of the duplex system — an application send at either end, a keep-alive of either end, the delivery of any packet ever
emitted in either direction to the other end's `handle`, any acknowledgement arriving at either end, a retransmission timer
of either end firing, any packet with a signature its receiver does not expect arriving at either end, a graceful `disconnect()` of either end, a send of either end on ANOTHER substream, any ordinary packet of another substream arriving at either end — is one `Sys` step in each view (the main step in one, a frame step in the other); `duplex_step` shows
the two views stay the same pair of endpoints and both stay coupled to their L2 channels. Hence (`duplex_safe`) in every
reachable state what B's application can read is a prefix of what A's application sent AND what A's can read is a prefix
of what B's sent — for every interleaving of the sends, deliveries, acknowledgements and timers of both directions.
-/
namespace Nx.L1
open Nx Nx.Prudp Nx.Chan Nx.Crypto

structure Duplex where
  ab : Sys      -- A sends, B receives: `ab.a` is endpoint A, `ab.b` is endpoint B
  ba : Sys      -- B sends, A receives: `ba.a` is endpoint B, `ba.b` is endpoint A

/-- the two views hold the same two endpoints -/
structure Duplex.Same (d : Duplex) : Prop where
  a : d.ab.a = d.ba.b
  b : d.ab.b = d.ba.a

inductive DOp where
  | sendA (now : Time) (data : Bytes)     -- A's application: `send(data, sub)` as one step (waits while another send of A holds the lock)
  | sendB (now : Time) (data : Bytes)
  | beginA (now : Time) (data : Bytes)    -- the same call fragment by fragment: state check, lock, split …
  | beginB (now : Time) (data : Bytes)
  | fragA (now : Time)                    -- … and one turn of its loop; anything of either end may happen between two turns
  | fragB (now : Time)
  | pingA (now : Time)                    -- A's keep-alive timer
  | pingB (now : Time)
  | toB (now : Time) (j : Nat)            -- the network hands B a copy of the j-th packet A ever emitted (any order, any number of times)
  | toA (now : Time) (j : Nat)
  | ackToA (now : Time) (p : Packet)      -- any acknowledgement (of non-handshake traffic) arrives at A
  | ackToB (now : Time) (p : Packet)
  | resendA (now : Time) (p : Packet) (k : Nat)   -- a retransmission timer of A fires
  | resendB (now : Time) (p : Packet) (k : Nat)
  | injectA (now : Time) (p : Packet)     -- ANY packet whose signature is not the one A expects arrives at A (forged, corrupted, stray)
  | injectB (now : Time) (p : Packet)
  | disconnectA (now : Time)              -- A's application: graceful `disconnect()`
  | disconnectB (now : Time)
  | sendAOther (now : Time) (data : Bytes) (s' : Nat)   -- A's application sends on ANOTHER substream
  | sendBOther (now : Time) (data : Bytes) (s' : Nat)
  | toBOther (now : Time) (p : Packet)     -- an ordinary packet of ANOTHER substream arrives at B (any such packet, genuine or not)
  | toAOther (now : Time) (p : Packet)

/-- the step as seen in direction A→B -/
def DOp.inAB (sub : Nat) (d : Duplex) : DOp → Option SysOp
  | .sendA now data => some (.send now data)
  | .sendB now data => if d.ba.pend.isEmpty then some (.bSend now data sub) else none
  | .beginA now data => some (.begin now data)
  | .beginB _ _ => none
  | .fragA now => some (.frag now)
  | .fragB now => (d.ba.pend.head?).map (fun f => .bFrag now f)
  | .pingA now => some (.ping now)
  | .pingB now => some (.bPing now)
  | .toB now j => some (.deliverH now j)
  | .toA now j => (d.ba.net[j]?).map (fun p => .aRecv now p)
  | .ackToA now p => some (.ackIn now p)
  | .ackToB now p => some (.bAckIn now p)
  | .resendA now p k => some (.fireResend now p k)
  | .resendB now p k => some (.bFireResend now p k)
  | .injectA now p => some (.aInject now p)
  | .injectB now p => some (.inject now p)
  | .disconnectA now => some (.disconnect now)
  | .disconnectB now => some (.bDisconnect now)
  | .sendAOther now data s' => some (.aSendOther now data s')
  | .sendBOther now data s' => some (.bSend now data s')
  | .toBOther now p => some (.bRecvOther now p)
  | .toAOther now p => some (.aRecv now p)

/-- the step as seen in direction B→A -/
def DOp.inBA (sub : Nat) (d : Duplex) : DOp → Option SysOp
  | .sendA now data => if d.ab.pend.isEmpty then some (.bSend now data sub) else none
  | .sendB now data => some (.send now data)
  | .beginA _ _ => none
  | .beginB now data => some (.begin now data)
  | .fragA now => (d.ab.pend.head?).map (fun f => .bFrag now f)
  | .fragB now => some (.frag now)
  | .pingA now => some (.bPing now)
  | .pingB now => some (.ping now)
  | .toB now j => (d.ab.net[j]?).map (fun p => .aRecv now p)
  | .toA now j => some (.deliverH now j)
  | .ackToA now p => some (.bAckIn now p)
  | .ackToB now p => some (.ackIn now p)
  | .resendA now p k => some (.bFireResend now p k)
  | .resendB now p k => some (.fireResend now p k)
  | .injectA now p => some (.inject now p)
  | .injectB now p => some (.aInject now p)
  | .disconnectA now => some (.bDisconnect now)
  | .disconnectB now => some (.disconnect now)
  | .sendAOther now data s' => some (.bSend now data s')
  | .sendBOther now data s' => some (.aSendOther now data s')
  | .toBOther now p => some (.aRecv now p)
  | .toAOther now p => some (.bRecvOther now p)

def Sys.stepO (env : Env) (sub : Nat) (s : Sys) : Option SysOp → Sys
  | none => s
  | some o => s.step env sub o

def Sys.opOkO (env : Env) (sub : Nat) (s : Sys) : Option SysOp → Bool
  | none => true
  | some o => s.opOk env sub o

def Sys.absOpO (env : Env) (sub : Nat) (s : Sys) : Option SysOp → Option Op
  | none => none
  | some o => s.absOp env sub o

def Duplex.step (env : Env) (sub : Nat) (d : Duplex) (op : DOp) : Duplex :=
  { ab := d.ab.stepO env sub (op.inAB sub d), ba := d.ba.stepO env sub (op.inBA sub d) }

/-- the step hypotheses of both views (sends complete on a live link; deliveries within half the id space of the receiver's
    release point; acknowledgements are acknowledgements of non-handshake, non-DISCONNECT traffic; a retransmission timer
    holds a packet its endpoint emitted and fires within the budget on a live link) -/
def Duplex.opOk (env : Env) (sub : Nat) (d : Duplex) (op : DOp) : Bool :=
  d.ab.opOkO env sub (op.inAB sub d) && d.ba.opOkO env sub (op.inBA sub d)

def Duplex.run (env : Env) (sub : Nat) (d : Duplex) (ops : List DOp) : Duplex := ops.foldl (Duplex.step env sub) d

def Duplex.runOk (env : Env) (sub : Nat) : Duplex → List DOp → Bool
  | _, [] => true
  | d, op :: ops => d.opOk env sub op && Duplex.runOk env sub (d.step env sub op) ops

theorem good_stepO (env : Env) (hl : EnvLaws env) (sub : Nat) (ci : Cipher) (size : Nat) (hsz : 1 ≤ size) (start : Nat)
    (s : Sys) (ch : Chan) (o : Option SysOp) (h : Good env sub ci size start s ch) (hok : s.opOkO env sub o = true) :
    Good env sub ci size start (s.stepO env sub o) (stepOpt (wrap env ci) size ch (s.absOpO env sub o)) ∧
    Chan.runOk (wrap env ci) size ch (s.absOpO env sub o).toList = true := by
  cases o with
  | none => exact ⟨h, rfl⟩
  | some op => exact good_step env hl sub ci size hsz start s ch op h hok

/-- the same endpoints stay the same endpoints -/
theorem same_step (env : Env) (sub : Nat) (d : Duplex) (op : DOp) (h : d.Same) : (d.step env sub op).Same := by
  obtain ⟨ha, hb⟩ := h
  cases op with
  | sendA now data =>
    cases hp : d.ab.pend with
    | nil => refine ⟨?_, ?_⟩ <;> simp [Duplex.step, DOp.inAB, DOp.inBA, Sys.stepO, Sys.step, hp, ha, hb]
    | cons f fs => refine ⟨?_, ?_⟩ <;> simp [Duplex.step, DOp.inAB, DOp.inBA, Sys.stepO, Sys.step, hp, ha, hb]
  | sendB now data =>
    cases hp : d.ba.pend with
    | nil => refine ⟨?_, ?_⟩ <;> simp [Duplex.step, DOp.inAB, DOp.inBA, Sys.stepO, Sys.step, hp, ha, hb]
    | cons f fs => refine ⟨?_, ?_⟩ <;> simp [Duplex.step, DOp.inAB, DOp.inBA, Sys.stepO, Sys.step, hp, ha, hb]
  | beginA now data =>
    refine ⟨?_, ?_⟩ <;> (simp only [Duplex.step, DOp.inAB, DOp.inBA, Sys.stepO, Sys.step]; split <;> simp [ha, hb])
  | beginB now data =>
    refine ⟨?_, ?_⟩ <;> (simp only [Duplex.step, DOp.inAB, DOp.inBA, Sys.stepO, Sys.step]; split <;> simp [ha, hb])
  | fragA now =>
    cases hp : d.ab.pend with
    | nil => refine ⟨?_, ?_⟩ <;> simp [Duplex.step, DOp.inAB, DOp.inBA, Sys.stepO, Sys.step, hp, ha, hb]
    | cons f fs => refine ⟨?_, ?_⟩ <;> simp [Duplex.step, DOp.inAB, DOp.inBA, Sys.stepO, Sys.step, hp, ha, hb]
  | fragB now =>
    cases hp : d.ba.pend with
    | nil => refine ⟨?_, ?_⟩ <;> simp [Duplex.step, DOp.inAB, DOp.inBA, Sys.stepO, Sys.step, hp, ha, hb]
    | cons f fs => refine ⟨?_, ?_⟩ <;> simp [Duplex.step, DOp.inAB, DOp.inBA, Sys.stepO, Sys.step, hp, ha, hb]
  | pingA now => refine ⟨?_, ?_⟩ <;> simp only [Duplex.step, DOp.inAB, DOp.inBA, Sys.stepO, Sys.step, ha, hb]
  | pingB now => refine ⟨?_, ?_⟩ <;> simp only [Duplex.step, DOp.inAB, DOp.inBA, Sys.stepO, Sys.step, ha, hb]
  | toB now j =>
    cases hj : d.ab.net[j]? with
    | none => refine ⟨?_, ?_⟩ <;> simp only [Duplex.step, DOp.inAB, DOp.inBA, Sys.stepO, Sys.step, hj, Option.map, ha, hb]
    | some p => refine ⟨?_, ?_⟩ <;> simp only [Duplex.step, DOp.inAB, DOp.inBA, Sys.stepO, Sys.step, hj, Option.map, ha, hb]
  | toA now j =>
    cases hj : d.ba.net[j]? with
    | none => refine ⟨?_, ?_⟩ <;> simp only [Duplex.step, DOp.inAB, DOp.inBA, Sys.stepO, Sys.step, hj, Option.map, ha, hb]
    | some p => refine ⟨?_, ?_⟩ <;> simp only [Duplex.step, DOp.inAB, DOp.inBA, Sys.stepO, Sys.step, hj, Option.map, ha, hb]
  | ackToA now p => refine ⟨?_, ?_⟩ <;> simp only [Duplex.step, DOp.inAB, DOp.inBA, Sys.stepO, Sys.step, ha, hb]
  | ackToB now p => refine ⟨?_, ?_⟩ <;> simp only [Duplex.step, DOp.inAB, DOp.inBA, Sys.stepO, Sys.step, ha, hb]
  | resendA now p k => refine ⟨?_, ?_⟩ <;> simp only [Duplex.step, DOp.inAB, DOp.inBA, Sys.stepO, Sys.step, ha, hb]
  | resendB now p k => refine ⟨?_, ?_⟩ <;> simp only [Duplex.step, DOp.inAB, DOp.inBA, Sys.stepO, Sys.step, ha, hb]
  | injectA now p => refine ⟨?_, ?_⟩ <;> simp only [Duplex.step, DOp.inAB, DOp.inBA, Sys.stepO, Sys.step, ha, hb]
  | injectB now p => refine ⟨?_, ?_⟩ <;> simp only [Duplex.step, DOp.inAB, DOp.inBA, Sys.stepO, Sys.step, ha, hb]
  | disconnectA now =>
    have hd : d.ab.a.state ≠ STATE_CONNECTED → (d.ab.a.disconnect env now).c = d.ab.a := by
      intro h; unfold Conn.disconnect; rw [if_pos h]; rfl
    by_cases hst : d.ab.a.state ≠ STATE_CONNECTED
    · refine ⟨?_, ?_⟩ <;> simp only [Duplex.step, DOp.inAB, DOp.inBA, Sys.stepO, Sys.step, hst, ne_eq, not_false_eq_true, if_true, ← ha, hd hst, hb]
    · refine ⟨?_, ?_⟩ <;> simp only [Duplex.step, DOp.inAB, DOp.inBA, Sys.stepO, Sys.step, hst, if_false, ← ha, hb]
  | sendAOther now data s' => refine ⟨?_, ?_⟩ <;> simp only [Duplex.step, DOp.inAB, DOp.inBA, Sys.stepO, Sys.step, ha, hb]
  | sendBOther now data s' => refine ⟨?_, ?_⟩ <;> simp only [Duplex.step, DOp.inAB, DOp.inBA, Sys.stepO, Sys.step, ha, hb]
  | toBOther now p => refine ⟨?_, ?_⟩ <;> simp only [Duplex.step, DOp.inAB, DOp.inBA, Sys.stepO, Sys.step, ha, hb]
  | toAOther now p => refine ⟨?_, ?_⟩ <;> simp only [Duplex.step, DOp.inAB, DOp.inBA, Sys.stepO, Sys.step, ha, hb]
  | disconnectB now =>
    have hd : d.ba.a.state ≠ STATE_CONNECTED → (d.ba.a.disconnect env now).c = d.ba.a := by
      intro h; unfold Conn.disconnect; rw [if_pos h]; rfl
    by_cases hst : d.ba.a.state ≠ STATE_CONNECTED
    · refine ⟨?_, ?_⟩ <;> simp only [Duplex.step, DOp.inAB, DOp.inBA, Sys.stepO, Sys.step, hst, ne_eq, not_false_eq_true, if_true, hb, hd hst, ha]
    · refine ⟨?_, ?_⟩ <;> simp only [Duplex.step, DOp.inAB, DOp.inBA, Sys.stepO, Sys.step, hst, if_false, hb, ha]

/-- both directions coupled to their channels, over the same two endpoints -/
structure DGood (env : Env) (sub : Nat) (ciA ciB : Cipher) (sizeA sizeB startA startB : Nat) (d : Duplex) (chAB chBA : Chan) : Prop where
  ab : Good env sub ciA sizeA startA d.ab chAB
  ba : Good env sub ciB sizeB startB d.ba chBA
  same : d.Same

/-- **one step of the duplex system keeps both directions coupled** -/
theorem duplex_step (env : Env) (hl : EnvLaws env) (sub : Nat) (ciA ciB : Cipher) (sizeA sizeB : Nat) (hA : 1 ≤ sizeA) (hB : 1 ≤ sizeB)
    (startA startB : Nat) (d : Duplex) (chAB chBA : Chan) (op : DOp)
    (h : DGood env sub ciA ciB sizeA sizeB startA startB d chAB chBA) (hok : d.opOk env sub op = true) :
    DGood env sub ciA ciB sizeA sizeB startA startB (d.step env sub op)
      (stepOpt (wrap env ciA) sizeA chAB (d.ab.absOpO env sub (op.inAB sub d)))
      (stepOpt (wrap env ciB) sizeB chBA (d.ba.absOpO env sub (op.inBA sub d))) := by
  simp only [Duplex.opOk, Bool.and_eq_true] at hok
  exact ⟨(good_stepO env hl sub ciA sizeA hA startA d.ab chAB _ h.ab hok.1).1,
         (good_stepO env hl sub ciB sizeB hB startB d.ba chBA _ h.ba hok.2).1,
         same_step env sub d op h.same⟩

/-- the two channel runs a duplex run amounts to -/
def Duplex.chans (env : Env) (sub : Nat) (ciA ciB : Cipher) (sizeA sizeB : Nat) : Duplex → Chan → Chan → List DOp → Chan × Chan
  | _, x, y, [] => (x, y)
  | d, x, y, op :: ops =>
    Duplex.chans env sub ciA ciB sizeA sizeB (d.step env sub op)
      (stepOpt (wrap env ciA) sizeA x (d.ab.absOpO env sub (op.inAB sub d)))
      (stepOpt (wrap env ciB) sizeB y (d.ba.absOpO env sub (op.inBA sub d))) ops

/-- **every run of the duplex system keeps both directions coupled to their channels** -/
theorem duplex_run (env : Env) (hl : EnvLaws env) (sub : Nat) (ciA ciB : Cipher) (sizeA sizeB : Nat) (hA : 1 ≤ sizeA) (hB : 1 ≤ sizeB)
    (startA startB : Nat) : ∀ (ops : List DOp) (d : Duplex) (chAB chBA : Chan),
    DGood env sub ciA ciB sizeA sizeB startA startB d chAB chBA → Duplex.runOk env sub d ops = true →
    DGood env sub ciA ciB sizeA sizeB startA startB (Duplex.run env sub d ops)
      (Duplex.chans env sub ciA ciB sizeA sizeB d chAB chBA ops).1 (Duplex.chans env sub ciA ciB sizeA sizeB d chAB chBA ops).2 := by
  intro ops
  induction ops with
  | nil => intro d x y h _; exact h
  | cons op ops ih =>
    intro d x y h hok
    simp only [Duplex.runOk, Bool.and_eq_true] at hok
    have h1 := duplex_step env hl sub ciA ciB sizeA sizeB hA hB startA startB d x y op h hok.1
    exact ih _ _ _ h1 hok.2

/-- **safety in both directions at once** -/
theorem duplex_safe {env : Env} {sub : Nat} {ciA ciB : Cipher} {sizeA sizeB startA startB : Nat} {d : Duplex} {chAB chBA : Chan}
    (h : DGood env sub ciA ciB sizeA sizeB startA startB d chAB chBA) :
    (d.ab.b.queues[sub]?.getD []) <+: d.ab.accepted ∧ (d.ab.a.queues[sub]?.getD []) <+: d.ba.accepted := by
  refine ⟨good_safe h.ab, ?_⟩
  rw [h.same.a]
  exact good_safe h.ba

theorem ordinaryB_of (p : Packet) (h : Ordinary p) : ordinaryB p = true := by
  unfold ordinaryB
  simp [h.nsyn, h.ncon, h.nack, h.nmulti, h.need, h.rel]

/-- **for a delivery the only hypothesis is the half-window one** — that the packet is an ordinary one for the endpoint that
    receives it in its sender role follows from the coupling (everything in `net` is) -/
theorem toB_ok {env : Env} {sub : Nat} {ci : Cipher} {size start : Nat} {d : Duplex} {ch : Chan} (now : Time) (j : Nat)
    (h : Good env sub ci size start d.ab ch) : d.opOk env sub (.toB now j) = d.ab.opOk env sub (.deliverH now j) := by
  simp only [Duplex.opOk, DOp.inAB, DOp.inBA, Sys.opOkO]
  cases hj : d.ab.net[j]? with
  | none => simp [Sys.opOkO]
  | some p =>
    have := ordinaryB_of p (h.cpl.netord p (List.mem_of_getElem? hj))
    simp [Sys.opOkO, Sys.opOk, this]

theorem toA_ok {env : Env} {sub : Nat} {ci : Cipher} {size start : Nat} {d : Duplex} {ch : Chan} (now : Time) (j : Nat)
    (h : Good env sub ci size start d.ba ch) : d.opOk env sub (.toA now j) = d.ba.opOk env sub (.deliverH now j) := by
  simp only [Duplex.opOk, DOp.inAB, DOp.inBA, Sys.opOkO]
  cases hj : d.ba.net[j]? with
  | none => simp [Sys.opOkO]
  | some p =>
    have := ordinaryB_of p (h.cpl.netord p (List.mem_of_getElem? hj))
    simp [Sys.opOkO, Sys.opOk, this]

/-- **the hypotheses hold after a handshake**: two endpoints that are `Established` in both directions, with nothing on the
    wire yet, are coupled in both directions -/
theorem duplex_established (env : Env) (sub startA startB : Nat) (a b : Conn)
    (hab : Established sub startA a b) (hba : Established sub startB b a) :
    DGood env sub (cipherOf a sub) (cipherOf b sub) a.fragmentSize b.fragmentSize startA startB
      { ab := Sys.fresh a b, ba := Sys.fresh b a } (Chan.init startA) (Chan.init startB) :=
  ⟨good_of_established sub startA a b hab, good_of_established sub startB b a hba, ⟨rfl, rfl⟩⟩

/-- completeness in both directions: once everything either end emitted has been released at the other, each application
    has exactly what the other one sent -/
theorem duplex_complete {env : Env} {sub : Nat} {ciA ciB : Cipher} {sizeA sizeB startA startB : Nat} {d : Duplex} {chAB chBA : Chan}
    (h : DGood env sub ciA ciB sizeA sizeB startA startB d chAB chBA)
    (hallA : d.ab.nrel = d.ab.net.length) (hallB : d.ba.nrel = d.ba.net.length)
    (hidleA : d.ab.pend = []) (hidleB : d.ba.pend = [])
    (hopenA : d.ab.a.state = STATE_CONNECTED) (hopenB : d.ba.a.state = STATE_CONNECTED) :
    (d.ab.b.queues[sub]?.getD []) = d.ab.accepted ∧ (d.ab.a.queues[sub]?.getD []) = d.ba.accepted := by
  refine ⟨(good_complete h.ab hallA hidleA (Or.inl hopenA)).1, ?_⟩
  rw [h.same.a]
  exact (good_complete h.ba hallB hidleB (Or.inl hopenB)).1

/-- **graceful close in the duplex system**: if B has reached end-of-stream — which here can only happen through A's DISCONNECT
    being released by B's window — and A's `disconnect()` was called while no `send` of A was between its fragments, B's
    application had everything A's application sent before; and symmetrically -/
theorem duplex_closed {env : Env} {sub : Nat} {ciA ciB : Cipher} {sizeA sizeB startA startB : Nat} {d : Duplex} {chAB chBA : Chan}
    (h : DGood env sub ciA ciB sizeA sizeB startA startB d chAB chBA) :
    (d.ab.b.eof = true → d.ab.clean = true → (d.ab.b.queues[sub]?.getD []) = d.ab.accepted) ∧
    (d.ab.a.eof = true → d.ba.clean = true → (d.ab.a.queues[sub]?.getD []) = d.ba.accepted) := by
  refine ⟨fun he hc => good_closed h.ab he hc, fun he hc => ?_⟩
  rw [h.same.a] at he ⊢
  exact good_closed h.ba he hc

/-! ## the channel runs of the two directions, as lists of channel operations (for the liveness theorem) -/

def Duplex.absAB (env : Env) (sub : Nat) : Duplex → List DOp → List Op
  | _, [] => []
  | d, op :: ops => (d.ab.absOpO env sub (op.inAB sub d)).toList ++ Duplex.absAB env sub (d.step env sub op) ops

def Duplex.absBA (env : Env) (sub : Nat) : Duplex → List DOp → List Op
  | _, [] => []
  | d, op :: ops => (d.ba.absOpO env sub (op.inBA sub d)).toList ++ Duplex.absBA env sub (d.step env sub op) ops

theorem chans_eq_runs (env : Env) (sub : Nat) (ciA ciB : Cipher) (sizeA sizeB : Nat) : ∀ (ops : List DOp) (d : Duplex) (x y : Chan),
    Duplex.chans env sub ciA ciB sizeA sizeB d x y ops =
      (Chan.run (wrap env ciA) sizeA x (Duplex.absAB env sub d ops), Chan.run (wrap env ciB) sizeB y (Duplex.absBA env sub d ops)) := by
  intro ops
  induction ops with
  | nil => intro d x y; rfl
  | cons op ops ih =>
    intro d x y
    simp only [Duplex.chans, Duplex.absAB, Duplex.absBA]
    rw [ih, run_append, run_append, run_toList, run_toList]

/-- both channel runs satisfy the channel's half-window hypothesis -/
theorem duplex_runOk (env : Env) (hl : EnvLaws env) (sub : Nat) (ciA ciB : Cipher) (sizeA sizeB : Nat) (hA : 1 ≤ sizeA) (hB : 1 ≤ sizeB)
    (startA startB : Nat) : ∀ (ops : List DOp) (d : Duplex) (chAB chBA : Chan),
    DGood env sub ciA ciB sizeA sizeB startA startB d chAB chBA → Duplex.runOk env sub d ops = true →
    Chan.runOk (wrap env ciA) sizeA chAB (Duplex.absAB env sub d ops) = true ∧
    Chan.runOk (wrap env ciB) sizeB chBA (Duplex.absBA env sub d ops) = true := by
  intro ops
  induction ops with
  | nil => intro d x y _ _; exact ⟨rfl, rfl⟩
  | cons op ops ih =>
    intro d x y h hok
    simp only [Duplex.runOk, Bool.and_eq_true] at hok
    have hok1 := hok.1
    simp only [Duplex.opOk, Bool.and_eq_true] at hok1
    have g1 := good_stepO env hl sub ciA sizeA hA startA d.ab x _ h.ab hok1.1
    have g2 := good_stepO env hl sub ciB sizeB hB startB d.ba y _ h.ba hok1.2
    have h1 := duplex_step env hl sub ciA ciB sizeA sizeB hA hB startA startB d x y op h hok.1
    have := ih _ _ _ h1 hok.2
    simp only [Duplex.absAB, Duplex.absBA]
    rw [runOk_append, runOk_append, run_toList, run_toList, g1.2, g2.2, Bool.true_and, Bool.true_and]
    exact this

/-- **liveness in both directions**: starting from the initial channels — if both ends are still open and connected and every
    packet either end handed to its transport has been delivered to the other end at least once (as seen in the corresponding
    channel runs), each application has exactly what the other one sent -/
theorem duplex_liveness (env : Env) (hl : EnvLaws env) (sub : Nat) (ciA ciB : Cipher) (sizeA sizeB : Nat) (hA : 1 ≤ sizeA) (hB : 1 ≤ sizeB)
    (startA startB : Nat) (hsA : startA < 65536) (hsB : startB < 65536) (ops : List DOp) (d : Duplex)
    (h0 : DGood env sub ciA ciB sizeA sizeB startA startB d (Chan.init startA) (Chan.init startB))
    (hok : Duplex.runOk env sub d ops = true)
    (hopenB : (Duplex.run env sub d ops).ab.b.eof = false) (hopenA : (Duplex.run env sub d ops).ba.b.eof = false)
    (hconA : (Duplex.run env sub d ops).ab.a.state = STATE_CONNECTED) (hconB : (Duplex.run env sub d ops).ba.a.state = STATE_CONNECTED)
    (hidleA : (Duplex.run env sub d ops).ab.pend = []) (hidleB : (Duplex.run env sub d ops).ba.pend = [])
    (hallA : ∀ j, j < (Duplex.run env sub d ops).ab.net.length →
      j ∈ arrived (wrap env ciA) sizeA (Chan.init startA) (Duplex.absAB env sub d ops))
    (hallB : ∀ j, j < (Duplex.run env sub d ops).ba.net.length →
      j ∈ arrived (wrap env ciB) sizeB (Chan.init startB) (Duplex.absBA env sub d ops)) :
    ((Duplex.run env sub d ops).ab.b.queues[sub]?.getD []) = (Duplex.run env sub d ops).ab.accepted ∧
    ((Duplex.run env sub d ops).ab.a.queues[sub]?.getD []) = (Duplex.run env sub d ops).ba.accepted := by
  have hg := duplex_run env hl sub ciA ciB sizeA sizeB hA hB startA startB ops d _ _ h0 hok
  have hr := duplex_runOk env hl sub ciA ciB sizeA sizeB hA hB startA startB ops d _ _ h0 hok
  rw [chans_eq_runs] at hg
  simp only [] at hg
  have one : ∀ (ci : Cipher) (size start : Nat) (hsz : 1 ≤ size) (hs : start < 65536) (s : Sys) (l : List Op)
      (g : Good env sub ci size start s (Chan.run (wrap env ci) size (Chan.init start) l))
      (hrok : Chan.runOk (wrap env ci) size (Chan.init start) l = true) (hopen : s.b.eof = false) (hidle : s.pend = [])
      (hcon : s.a.state = STATE_CONNECTED)
      (hall : ∀ j, j < s.net.length → j ∈ arrived (wrap env ci) size (Chan.init start) l),
      (s.b.queues[sub]?.getD []) = s.accepted := by
    intro ci size start hsz hs s l g hrok hopen hidle hcon hall
    have hcl : (Chan.run (wrap env ci) size (Chan.init start) l).r.core.closed = false := by
      rw [g.cpl.rrel.closed]; exact hopen
    have hlen : (Chan.run (wrap env ci) size (Chan.init start) l).s.log.length = s.net.length := by
      rw [← g.cpl.log, List.length_map]
    have hrel := all_arrived_all_released (wrap env ci) (good_cipher hl g) size hsz start hs _ hrok hcl
      (fun j hj => hall j (by rw [← hlen]; exact hj))
    exact (good_complete g (by rw [g.cpl.nrel, hrel, hlen]) hidle (Or.inl hcon)).1
  refine ⟨one ciA sizeA startA hA hsA _ _ hg.ab hr.1 hopenB hidleA hconA hallA, ?_⟩
  rw [hg.same.a]
  exact one ciB sizeB startB hB hsB _ _ hg.ba hr.2 hopenA hidleB hconB hallB

end Nx.L1
