import NxProofs.Backend
import NxProofs.BackendServe
import NxProofs.BackendConnAck
/-!
# C17 — back-end login yields a secure connection authenticated as the issued user

Model: `NxModel/Nex/Backend.lean` — `plan cfg args script` mirrors `BackEndClient.login*` (backend.py): which
authentication method is called with what, which Kerberos key decrypts (real HMAC-MD5/RC4 on the real ticket
bytes), whether `request_ticket` is issued, where the client connects with which credentials, or which
exception ends the attempt. Statements only; proofs in `NxProofs/Backend.lean`.

Proved here: the client-side decision logic, for every configuration, argument and server script.
NOT proved here (full statement kept visible): **`C17_pid`** — "the secure server's handlers observe exactly the
pid the authentication server issued". On the model this needs the server-side admission of C05
(`process_login_request`: accepted ⇒ the pid inside the Kerberos-encrypted connect request equals
`ServerTicket.source`, and that is the pid handlers see) composed with `connect_credentials` below (the request
carries `credentials.pid = response.pid`) and C16's `kerb_roundtrip`. Those live in other owners' modules; here
the end-to-end statement is established by the exhaustive simulation matrix in harness/corr_C17.py
(real backend.connect → real generated Authentication(NX)Server → real keyed rmc.serve), not by a theorem.
-/
namespace Nx.C17
open Nx Nx.Backend

/-! ## version dispatch -/

/-- nex.version < 40000: `login(username)`, or `login_ex(username, auth_info)` when extra data is given -/
theorem dispatch_old (cfg : Cfg) (a : Args) (h : cfg.nexVersion < 40000) :
    firstCall cfg a = if a.authInfo then .loginEx a.username else .login a.username := firstCall_old cfg a h

/-- 40000 ≤ nex.version < 40400: `validate_and_request_ticket`, `…_with_custom_data` with extra data -/
theorem dispatch_switch (cfg : Cfg) (a : Args) (h1 : 40000 ≤ cfg.nexVersion) (h2 : cfg.nexVersion < 40400) :
    firstCall cfg a = if a.authInfo then .validateAndRequestTicketWithCustomData a.username
                      else .validateAndRequestTicket a.username := firstCall_switch cfg a h1 h2

/-- nex.version ≥ 40400: `validate_and_request_ticket_with_param` carrying the user name, the extra data
    (or NullData), `nex.version` and `nex.client_version` -/
theorem dispatch_param (cfg : Cfg) (a : Args) (h : 40400 ≤ cfg.nexVersion) :
    firstCall cfg a = .validateAndRequestTicketWithParam a.username a.authInfo cfg.nexVersion cfg.clientVersion :=
  firstCall_param cfg a h

/-- that method is always the first (and, on failure, the only) call -/
theorem first_call_is_dispatch (cfg : Cfg) (a : Args) (s : Script) :
    (plan cfg a s).calls.head? = some (firstCall cfg a) := plan_calls_head cfg a s

/-! ## which key decrypts -/

/-- a non-empty source key in the response is the Kerberos key (password irrelevant) -/
theorem key_source (cfg : Cfg) (a : Args) (r : AuthResp) (sk : Bytes)
    (h : sourceKeyOf cfg a r = some sk) (hne : sk ≠ []) : chooseKey cfg a r = .ok (.source sk, sk) :=
  chooseKey_source cfg a r sk h hne

/-- no (or an empty) source key: the password is required and the key is derived from it and the *issued* pid
    with the derivation `kerberos.key_derivation` selects -/
theorem key_derived (cfg : Cfg) (a : Args) (r : AuthResp) (h : sourceKeyOf cfg a r = some []) :
    chooseKey cfg a r =
      match a.password with
      | none => .error (.exc .value)
      | some pw =>
        match deriveKey cfg.keyDerivation pw r.pid with
        | .ok k => .ok (.derived cfg.keyDerivation r.pid k, k)
        | .error e => .error (.exc e) := chooseKey_derive cfg a r h

/-- there is no third way to obtain a key -/
theorem key_cases (cfg : Cfg) (a : Args) (r : AuthResp) (ku : KeyUse) (key : Bytes)
    (h : chooseKey cfg a r = .ok (ku, key)) :
    (∃ sk, sourceKeyOf cfg a r = some sk ∧ sk ≠ [] ∧ ku = .source sk ∧ key = sk) ∨
    (∃ pw, sourceKeyOf cfg a r = some [] ∧ a.password = some pw ∧
       deriveKey cfg.keyDerivation pw r.pid = .ok key ∧ ku = .derived cfg.keyDerivation r.pid key) :=
  chooseKey_ok_inv cfg a r ku key h

/-! ## the second ticket -/

/-- `request_ticket(pid, station.PID)` is issued precisely when the first ticket is not for the secure server -/
theorem second_ticket_iff (cfg : Cfg) (r : AuthResp) (second : Reply TicketResp) (c1 : Call) (ku : KeyUse)
    (key : Bytes) (t : ClientTicket) :
    (afterTicket cfg r second c1 ku key t).calls =
      if t.target ≠ r.station.pid then [c1, .requestTicket r.pid r.station.pid] else [c1] :=
  afterTicket_calls cfg r second c1 ku key t

/-! ## where the client connects -/

/-- the placeholder `0.0.0.1` means "same host and port as the authentication server" -/
theorem placeholder (cfg : Cfg) (st : Station) (h : st.address = "0.0.0.1") :
    target cfg st = (cfg.authHost, cfg.authPort) := target_placeholder cfg st h

/-- any other advertised address is honoured as is -/
theorem advertised_address_honoured (cfg : Cfg) (st : Station) (h : st.address ≠ "0.0.0.1") :
    target cfg st = (st.address, st.port) := target_real cfg st h

/-! ## failures never yield a connection -/

/-- an RMC error from the first authentication method -/
theorem error_no_connection_first_fail (cfg : Cfg) (a : Args) (s : Script) (code : Nat) (h : s.first = .fail code) :
    plan cfg a s = ⟨[firstCall cfg a], .none, .error (.rmc code)⟩ := plan_first_fail cfg a s code h

/-- an error result in the first response (methods that carry a result) -/
theorem error_no_connection_error_result (cfg : Cfg) (a : Args) (s : Script) (r : AuthResp)
    (h : s.first = .resp r) (hc : checksResult cfg = true) (he : isError r.result = true) :
    plan cfg a s = ⟨[firstCall cfg a], .none, .error (.rmc r.result)⟩ := plan_error_result cfg a s r h hc he

/-- no usable key (bad hex, or no password when one is needed) -/
theorem error_no_connection_no_key (cfg : Cfg) (a : Args) (s : Script) (r : AuthResp) (f : Fail)
    (h : s.first = .resp r) (hc : ¬ (checksResult cfg = true ∧ isError r.result = true))
    (hk : chooseKey cfg a r = .error f) :
    plan cfg a s = ⟨[firstCall cfg a], .none, .error f⟩ := plan_key_fail cfg a s r f h hc hk

/-- the ticket does not decrypt under the chosen key (wrong password / garbled ticket): no further call, no connection -/
theorem error_no_connection_wrong_key (cfg : Cfg) (a : Args) (s : Script) (r : AuthResp) (ku : KeyUse) (key : Bytes)
    (e : Err) (h : s.first = .resp r) (hc : ¬ (checksResult cfg = true ∧ isError r.result = true))
    (hk : chooseKey cfg a r = .ok (ku, key))
    (hd : clientTicketDecrypt cfg.keySize cfg.pidSize r.ticket key = .error e) :
    plan cfg a s = ⟨[firstCall cfg a], ku, .error (.exc e)⟩ := plan_decrypt_fail cfg a s r ku key e h hc hk hd

/-- **the only way to a connection**: every gate passed — successful first response, a key from the source key or
    the password, the first ticket decrypts, and either it is for the secure server or a second ticket was
    requested, came back without error and decrypts under the same key. The connection then goes to the resolved
    address with stream id `sid` and the credentials (final ticket, the pid the authentication server issued,
    the station's CID). -/
theorem connect_credentials (cfg : Cfg) (a : Args) (s : Script) (c : Connect) (h : (plan cfg a s).outcome = .ok c) :
    ∃ r ku key t tf, s.first = .resp r ∧ ¬ (checksResult cfg = true ∧ isError r.result = true) ∧
      chooseKey cfg a r = .ok (ku, key) ∧ (plan cfg a s).key = ku ∧
      clientTicketDecrypt cfg.keySize cfg.pidSize r.ticket key = .ok t ∧
      c = ⟨(target cfg r.station).1, (target cfg r.station).2, r.station.sid, r.pid, r.station.cid, tf⟩ ∧
      (plan cfg a s).calls = (if t.target ≠ r.station.pid then [firstCall cfg a, .requestTicket r.pid r.station.pid]
                              else [firstCall cfg a]) ∧
      ((t.target = r.station.pid ∧ tf = t) ∨
       (t.target ≠ r.station.pid ∧ ∃ r2, s.second = .resp r2 ∧ isError r2.result = false ∧
          clientTicketDecrypt cfg.keySize cfg.pidSize r2.ticket key = .ok tf)) :=
  plan_connect_inv cfg a s c h

/-! non-vacuity: each band and both address forms at concrete points -/
example : firstCall ⟨39999, 0, 0, 32, 4, "h", 1⟩ ⟨"u", none, true⟩ = .loginEx "u" := by decide
example : firstCall ⟨40000, 0, 0, 32, 4, "h", 1⟩ ⟨"u", none, false⟩ = .validateAndRequestTicket "u" := by decide
example : firstCall ⟨40399, 0, 0, 32, 4, "h", 1⟩ ⟨"u", none, true⟩ = .validateAndRequestTicketWithCustomData "u" := by decide
example : firstCall ⟨40400, 7, 0, 32, 4, "h", 1⟩ ⟨"u", none, false⟩ = .validateAndRequestTicketWithParam "u" false 40400 7 := by decide
example : target ⟨0, 0, 0, 32, 4, "auth", 60000⟩ ⟨"0.0.0.1", 5, 2, 0, 2⟩ = ("auth", 60000) := by decide
example : target ⟨0, 0, 0, 32, 4, "auth", 60000⟩ ⟨"10.0.0.9", 5, 2, 0, 1⟩ = ("10.0.0.9", 5) := by decide
example : (plan ⟨30000, 0, 0, 32, 4, "auth", 1⟩ ⟨"u", none, false⟩ ⟨.fail 0x80010002, .fail 0⟩).outcome = .error (.rmc 0x80010002) := by decide

/-! ## sequences of logins through one client (and one Settings object)

The property speaks about every login, not about the first login of every client object. A `BackEndClient`
carries only what its constructor stored; `session` threads that object through a list of logins. -/

/-- a login leaves the client object as it found it -/
theorem login_leaves_client (c : Client) (st : Step) : (c.login st).1 = c := login_client_unchanged c st

/-- **history independence**: the k-th login of a session — after other accounts, guest logins, failed attempts,
    logins with or without extra data — is planned exactly as the same login alone through a fresh client -/
theorem login_history_independent (cfg : Cfg) (steps : List Step) (k : Nat) :
    ((session ⟨cfg⟩ steps)[k]?).map (fun p => [p]) = steps[k]?.map (fun st => session ⟨cfg⟩ [st]) :=
  session_step_alone ⟨cfg⟩ steps k

/-- in particular whatever came before (`pre`) does not matter for the login that follows -/
theorem login_after_any_prefix (cfg : Cfg) (pre pre' : List Step) (st : Step) :
    (session ⟨cfg⟩ (pre ++ [st]))[pre.length]? = (session ⟨cfg⟩ (pre' ++ [st]))[pre'.length]? := by
  rw [session_after_prefix, session_after_prefix]

/-- so all the single-login theorems above apply to every step of a session, e.g.: a step whose first call fails
    yields no connection whatever the earlier steps achieved -/
theorem session_step_first_fail (cfg : Cfg) (pre : List Step) (st : Step) (code : Nat) (h : st.script.first = .fail code) :
    (session ⟨cfg⟩ (pre ++ [st]))[pre.length]? = some ⟨[firstCall cfg st.args], .none, .error (.rmc code)⟩ := by
  rw [session_after_prefix, plan_first_fail cfg st.args st.script code h]

/-- and a step that ends in a connection passed every gate *itself*: it is the plan of its own arguments against its own
    script, and the credentials carry the pid issued in *its* response (not an earlier step's) -/
theorem session_step_connect (cfg : Cfg) (steps : List Step) (k : Nat) (p : Plan) (c : Connect)
    (hp : (session ⟨cfg⟩ steps)[k]? = some p) (h : p.outcome = .ok c) :
    ∃ st r, steps[k]? = some st ∧ p = plan cfg st.args st.script ∧ st.script.first = .resp r ∧ c.pid = r.pid :=
  session_connect_own ⟨cfg⟩ steps k p c hp h

example : (session ⟨⟨30000, 0, 0, 32, 4, "auth", 1⟩⟩
    [⟨⟨"u", none, false⟩, ⟨.fail 0x80010002, .fail 0⟩⟩, ⟨guestArgs, ⟨.fail 0x80030065, .fail 0⟩⟩]).map (·.outcome) =
    [.error (.rmc 0x80010002), .error (.rmc 0x80030065)] := by decide

/-! ## the secure server over time: the same ticket shown again, stale tickets

"A stale ticket never yields a connection" is a statement about every CONNECT that reaches a secure server object during
its whole life, not about the first time the object sees a ticket. `Backend.serve` threads the server object
(`SecureServer`: what `process_login_request` reads — key and settings, nothing about earlier tickets) through a list of
CONNECT payloads at their instants (ticks of 2^-30 s); each verdict is `L1.loginRequestFn`, the C05 admission function, on
the real bytes. Tied to the code in harness/corr_C17.py by timed login sessions: the authentication server hands out the
byte-identical ticket at several logins while virtual time advances (fresh … just below / above 120 s … a day later), one
long-lived secure server; every recorded call of `process_login_request` is compared with `serve`. -/

/-- a presentation leaves the server object as it found it: there is no memory of tickets -/
theorem present_leaves_server (s : SecureServer) (p : Presentation) : (s.present p).1 = s := present_server_unchanged s p

/-- **history independence of admission**: the verdict on the k-th CONNECT of a server's life is the verdict a server that
    has never seen anything gives on that payload at that instant — whether or not the ticket was presented (and
    admitted) before -/
theorem admission_history_independent (s : SecureServer) (ps : List Presentation) (k : Nat) :
    ((serve s ps)[k]?).map (fun v => [v]) = ps[k]?.map (fun p => serve s [p]) := serve_step_alone s ps k

theorem admission_after_any_prefix (s : SecureServer) (pre pre' : List Presentation) (p : Presentation) :
    (serve s (pre ++ [p]))[pre.length]? = (serve s (pre' ++ [p]))[pre'.length]? := by
  rw [serve_after_prefix, serve_after_prefix]

/-- **a stale ticket is refused whatever the server has seen before** — in particular when `pre` contains the very same
    payload at an instant at which it was admitted: a ticket whose time stamp lies more than 120 s before `now`
    (`timestamp < time.time() - 120`) raises `ValueError` -/
theorem stale_ticket_refused_after_any_history (s : SecureServer) (pre : List Presentation) (p : Presentation)
    (td r1 rd r2 : Bytes) (ticket : Nex.Kerberos.ServerTicket) (ts : Int)
    (h1 : Nex.rBuffer p.data = .ok (td, r1)) (h2 : Nex.rBuffer r1 = .ok (rd, r2))
    (h3 : Nex.Kerberos.ServerTicket.decrypt s.kc s.key td = .ok ticket)
    (h4 : Nex.DateTime.timestamp s.tz ticket.timestamp = .ok ts)
    (h5 : (ts + 120 - (s.epoch : Int)) * 1073741824 < (p.now : Int)) :
    (serve s (pre ++ [p]))[pre.length]? = some (.refuse .value) := by
  rw [serve_after_prefix, present_stale s p td r1 rd r2 ticket ts h1 h2 h3 h4 h5]

/-- conversely every admission — the first or the hundredth of a ticket — proves the ticket at most 120 s old at that
    instant, and admits the identity and session key inside the ticket -/
theorem admitted_ticket_is_young (s : SecureServer) (ps : List Presentation) (k : Nat) (p : Presentation)
    (pid cid : Nat) (sk resp : Bytes) (hp : ps[k]? = some p) (h : (serve s ps)[k]? = some (.accepted pid cid sk resp)) :
    ∃ td r1 ticket ts, Nex.rBuffer p.data = .ok (td, r1) ∧
      Nex.Kerberos.ServerTicket.decrypt s.kc s.key td = .ok ticket ∧
      Nex.DateTime.timestamp s.tz ticket.timestamp = .ok ts ∧
      ¬ ((ts + 120 - (s.epoch : Int)) * 1073741824 < (p.now : Int)) ∧
      pid = ticket.source ∧ sk = ticket.sessionKey := by
  rw [serve_getElem?, hp] at h
  exact present_admit_inv s p pid cid sk resp (by simpa using h)

/-- **`C17_pid` on the model (client and server composed)**: the CONNECT payload built from the credentials a plan ends in
    (`connect_credentials`: pid = the pid the authentication server issued), when admitted by the secure server under a
    ticket carrying the credentials' session key, is admitted as exactly that pid and cid and answered with `check + 1`
    (which is what `check_connection_response` demands), for every connection check the endpoint may have drawn. -/
theorem connect_admitted_as_issued (s : SecureServer) (c : Connect) (check : Nat) (data : Bytes) (now : Nat)
    (pid cid : Nat) (sk resp : Bytes)
    (hreq : connectRequest s.kc.pidSize c check = .ok data)
    (h : (s.present ⟨data, now⟩).2 = .accepted pid cid sk resp) (hsk : sk = c.ticket.sessionKey) :
    pid = c.pid ∧ cid = c.cid ∧ resp = u32le 4 ++ u32le ((check + 1) % 4294967296) :=
  connect_request_admitted s c check data now pid cid sk resp hreq h hsk

/-! non-vacuity. The hypotheses of `stale_ticket_refused_after_any_history` at a concrete point: a ticket stamped
    2023-11-14 22:13:20 UTC (epoch second 1700000000 — the simulation's epoch) is not stale 120 s later and is stale one tick
    (2^-30 s) after that. Concrete tickets under real keys are evaluated by the compiled driver on every run (`serve` lines of
    harness/corr_C17.py: every recorded `process_login_request`, e.g. the same CONNECT payload accepted at 119.75 s and refused at
    120.25 s and a day later); in the kernel the two HMAC-MD5 + RC4 of one admission take minutes, so no `decide` example here. -/
example : Nex.DateTime.timestamp 0 (Nex.DateTime.make ⟨2023, 11, 14, 22, 13, 20⟩) = .ok 1700000000 := by decide
example : ¬ (((1700000000 : Int) + 120 - ((1700000000 : Nat) : Int)) * 1073741824 < ((120 * 1073741824 : Nat) : Int)) := by decide
example : ((1700000000 : Int) + 120 - ((1700000000 : Nat) : Int)) * 1073741824 < ((120 * 1073741824 + 1 : Nat) : Int) := by decide
/-- `serve` computes: payloads that are not two buffers are refused with the stream's own exception, at any instant, in any order -/
example : serve ⟨⟨16, 4, 0⟩, 1700000000, 0, [107]⟩ [⟨[], 5⟩, ⟨[1, 0, 0, 0], 6⟩, ⟨[], 7⟩] =
    [.refuse .overflow, .refuse .overflow, .refuse .overflow] := by decide

/-! ## the client's last gate: the answer to its CONNECT

The station the authentication server advertises may be answered by somebody else than the secure server: a server
without any Kerberos key (the library's own keyless server acknowledges with an empty payload), one with another key,
one that echoes a wrong check value. `Backend.checkResponse` mirrors `PRUDPClient.check_connection_response`; the
handshake (hence `rmc.connect`, hence the login) completes only on a payload it accepts. That the real handshake really
waits for this verdict is NOT a theorem (it is the order of statements in `PRUDPClient.process_connect`): it is
established by running the real login against such servers (harness/corr_C17.py, family `fail:station:*`). -/

/-- a client with credentials accepts exactly one CONNECT/ACK payload: (4, check + 1 mod 2^32) as two little-endian u32 -/
theorem connect_answer_gate (check : Nat) (data : Bytes) :
    checkResponse true check data = .ok () ↔ data = u32le 4 ++ u32le ((check + 1) % 4294967296) :=
  checkResponse_ok_iff check data

/-- every other payload — empty (a keyless server), wrong length, wrong length field, wrong check value — raises ValueError -/
theorem wrong_station_answer_refused (check : Nat) (data : Bytes)
    (h : data ≠ u32le 4 ++ u32le ((check + 1) % 4294967296)) : checkResponse true check data = .error .value :=
  checkResponse_wrong check data h

/-- in particular the empty acknowledgement of a server that holds no Kerberos key -/
theorem keyless_station_refused (check : Nat) : checkResponse true check [] = .error .value := rfl

/-- composed with the server side: the answer of a secure server that admitted the request built from the plan's
    credentials (`connect_admitted_as_issued`) passes the gate of the client that drew `check` -/
theorem admitted_answer_accepted (s : SecureServer) (c : Connect) (check : Nat) (data : Bytes) (now : Nat)
    (pid cid : Nat) (sk resp : Bytes)
    (hreq : connectRequest s.kc.pidSize c check = .ok data)
    (h : (s.present ⟨data, now⟩).2 = .accepted pid cid sk resp) (hsk : sk = c.ticket.sessionKey) :
    checkResponse true check resp = .ok () :=
  (connect_answer_gate check resp).mpr (connect_admitted_as_issued s c check data now pid cid sk resp hreq h hsk).2.2

example : checkResponse true 0xFFFFFFFF [4, 0, 0, 0, 0, 0, 0, 0] = .ok () := by decide
example : checkResponse true 0xFFFFFFFF [4, 0, 0, 0, 0xFF, 0xFF, 0xFF, 0xFF] = .error .value := by decide
example : checkResponse true 5 [4, 0, 0, 0, 6, 0, 0, 0] = .ok () ∧ checkResponse true 5 [4, 0, 0, 0, 5, 0, 0, 0] = .error .value ∧
    checkResponse true 5 [8, 0, 0, 0, 6, 0, 0, 0] = .error .value ∧ checkResponse true 5 [6, 0, 0, 0] = .error .value ∧
    checkResponse true 5 [4, 0, 0, 0, 6, 0, 0, 0, 0] = .error .value ∧ checkResponse false 5 [] = .ok () ∧
    checkResponse false 5 [4, 0, 0, 0, 6, 0, 0, 0] = .error .value := by decide

end Nx.C17
