import NxModel.Nex.SchemaDriver
/-! driver for C14: same line protocol as C13 (schema interpreter + `rmccfg`) -/
def main : IO Unit := Nx.runState Nx.Schema.Drv.initEnv Nx.Schema.Drv.step
