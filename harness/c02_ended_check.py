"""C02: job lists, property oracles and L1 replay for the two families of harness/c02_ended.py
(big transfers in flight when the peer dies; one side's connection ended without the other learning of it)."""
import struct, traceback
import prudp_session as ps
import c02_ended as ce
import l1_corr

MARGIN = 0.06      # two one-way delays + slack (the same as corr_C02)
HOW = ("harness/c02_ended.py: run_big(prudp_session.Cfg(**cfg), seed, spec) / run_unlearned(prudp_session.Cfg(**cfg), seed, spec); "
       "oracle: harness/c02_ended_check.py judge_big / judge_unlearned")


def _l1(exe, se):
    if se is None or getattr(se, "skip_l1", False):
        return {"ok": True, "skipped": True, "diffs": []}
    import vf
    r = l1_corr.compare(vf.Driver("C02", exe), se, "x")
    return {"ok": r["ok"], "skipped": bool(r.get("skipped")), "diffs": r["diffs"][:1], "lines": r.get("lines")}


def _ops(se):
    return [[o[0], o[1], o[2], o[3]] for o in se.ops]


# ---------------------------------------------------------------------------------------------------------------- family A

def judge_big(cfg, spec, se):
    bad = []
    kill, via, sender = spec.get("kill"), spec["via"], spec["sender"]
    rmc = via in ("call", "response")
    if se.crash:
        bad.append(("crash", "session ended abnormally: %s" % se.crash))
    if se.timed_out:
        bad.append(("hang", "the session did not finish: some operation blocked beyond every bound"))
    if se.errors:
        bad.append(("client-error", "the client's connection block ended with %r" % (se.errors[:2],)))
    dead, bound = se.dead_at, se.bound
    what = "a %d-fragment %s by %s (%d bytes)" % (spec["nfrag"], {"send": "message sent", "call": "remote call's request body sent", "response": "remote call's response body sent"}[via],
                                                   "the client" if sender == "c" else "the server", len(se.big))
    for name, t0, t1, outcome in se.ops:
        if t1 is None:
            bad.append(("hang", "%s started at %.3f never returned: %s was in flight when the link died at %s (kill=%s)" % (name, t0, what, dead, kill)))
            continue
        if outcome == "BLOCKED":
            bad.append(("hang", "%s started at %.3f was still blocked %.1f s later (behind the substream's send lock?): %s was in flight when the link died at %s"
                        % (name, t0, t1 - t0, what, dead)))
            continue
        if dead is not None and name != "reconnect":
            limit_t = max(dead + bound, t0) + MARGIN
            if t1 > limit_t:
                bad.append(("late", "%s started at %.3f returned at %.3f, later than silence(%.3f)+ping_timeout+(resend_limit+1)*resend_timeout=%.3f; %s was in flight"
                            % (name, t0, t1, dead, dead + bound, what)))
        if name.startswith(("bigsend@", "send2@", "send@", "sendu@")) and outcome not in ("ok", "closed"):
            bad.append(("send-error", "%s ended with %r: neither sent nor the closed-connection error" % (name, outcome)))
    ops = {}
    for o in se.ops:
        ops.setdefault(o[0], []).append(o)
    conn = ops["connect"][0]
    if conn[3] != "ok":
        bad.append(("reference", "the connection was not established: %r" % (se.connect_error,)))
    expect = {"call": "ok:" + struct.pack("<II", len(se.big), sum(se.big) & 0xFFFFFFFF).hex(),
              "response": "ok:%d:%08x" % (len(se.big), sum(se.big) & 0xFFFFFFFF)}
    if rmc:
        for name, olist in ops.items():
            if not name.startswith("call"):
                continue
            o = olist[-1]
            good = {"call-answered": ("ok:2a000000",), "call-second": ("ok:08000000", "closed"), "call-big": (expect[via], "closed"),
                    "call-after-close": ("closed",)}[name]
            if o[2] is not None and o[3] not in good:
                bad.append(("pending-call", "remote call %s ended with %r (expected one of %r)" % (name, o[3], good)))
        if kill is None and ops.get("call-big", [[0, 0, 0, None]])[-1][3] != expect[via]:
            bad.append(("control", "live peer: the remote call with %s did not return its answer: %r" % (what, ops.get("call-big"))))
    else:
        if kill is None:
            side = "s" if sender == "c" else "c"
            if se.big not in se.got[(side, 0)]:
                bad.append(("control", "live peer%s: %s was not delivered intact (got %r)" % (" (one fragment lost once)" if spec.get("lose") is not None else "", what,
                                                                                              [len(d) for d in se.got[(side, 0)]])))
            if ops.get("bigsend@" + sender, [[0, 0, 0, None]])[-1][3] != "ok" or ops.get("send2@" + sender, [[0, 0, 0, None]])[-1][3] != "ok":
                bad.append(("control", "live peer: the sends did not complete: %r %r" % (ops.get("bigsend@" + sender), ops.get("send2@" + sender))))
        if conn[3] == "ok" and se.handler_started:
            for side in "cs":
                for nm in ("send@", "sendu@"):
                    last = (ops.get(nm + side) or [[None, None, None, "missing"]])[-1]
                    if last[2] is not None and last[3] != "closed":
                        bad.append(("closed-send", "%s on the ended connection returned %r instead of raising the closed-connection error" % (nm + side, last[3])))
    if se.server_table != 0:
        bad.append(("server-forgets", "the server still holds %d client entries after the connection ended" % se.server_table))
    rec = ops.get("reconnect")
    if kill is not None and not se.timed_out and (not rec or rec[0][3] != "ok"):
        bad.append(("reconnect", "the same address could not connect again: %s" % (rec[0][3] if rec else None)))
    return bad


def work_big(args):
    idx, cfgd, seed, spec, exe = args
    try:
        cfg = ps.Cfg(**cfgd)
        se = ce.run_big(cfg, seed, spec)
        bad = judge_big(cfg, spec, se)
        r = _l1(exe, se)
        kill = spec.get("kill")
        tag = "big:%s@%s:v%d:%s:%s" % (spec["via"], spec["sender"], cfgd["version"], kill[1] if kill else ("control-lost-once" if spec.get("lose") is not None else "control"),
                                       "paced" if spec.get("pace") else "burst")
        return idx, "big", cfgd, seed, spec, bad, _ops(se), r, tag, None
    except Exception:
        return idx, "big", cfgd, seed, spec, [], None, {"ok": True, "skipped": True, "diffs": []}, None, traceback.format_exc()


# ---------------------------------------------------------------------------------------------------------------- family B

def judge_unlearned(cfg, spec, se):
    bad = []
    surv, ender = se.surv, se.ender
    if se.crash:
        bad.append(("crash", "session ended abnormally: %s" % se.crash))
    if se.timed_out:
        bad.append(("hang", "the session did not finish: some operation blocked beyond every bound"))
    if se.errors:
        bad.append(("client-error", "the client's connection block ended with %r" % (se.errors[:2],)))
    names = {"c": "the client", "s": "the server side"}
    story = ("%s's connection ended at %s (%s) without the peer being told, the ended connection object stayed registered (%s) and the link worked again"
             % (names[ender], "%.3f" % se.ended_at if se.ended_at is not None else None,
                "local close(), its three DISCONNECT datagrams lost in a burst" if spec["how"] == "close-lost" else
                "gave up during an outage %s of %s" % (spec["loss"], "%.3f..%.3f" % se.outage if se.outage else None),
                "the application stayed inside its `async with` block" if ender == "c" else "its handler was still busy"))
    ops = {}
    for o in se.ops:
        ops.setdefault(o[0], []).append(o)
    for name, t0, t1, outcome in se.ops:
        if t1 is None:
            bad.append(("hang", "%s started at %.3f never returned; %s" % (name, t0, story)))
        elif outcome == "BLOCKED":
            bad.append(("hang", "%s on the ended connection blocked instead of raising; %s" % (name, story)))
    if se.ended_at is None:
        bad.append(("reference", "the scripted end of %s's connection was never reached" % names[ender]))
        return bad
    limit_t = se.ended_at + se.bound_surv + MARGIN
    watched = [("recv@" + surv, "eof"), ("recv_unreliable@" + surv, "eof")]
    if surv == "c" and spec.get("rmc"):
        watched = [("call-pending", "closed"), ("recv_unreliable@c", "eof")]
    if surv == "s":
        watched.append(("handler", "returned"))
    for name, want in watched:
        last = (ops.get(name) or [[name, None, None, "missing"]])[-1]
        if last[2] is None:
            continue        # reported as a hang above
        if last[3] != want or last[2] > limit_t:
            bad.append(("unlearned-end", "%s: %s was %r at %.3f; it must be %s within ping_timeout+(resend_limit+1)*resend_timeout = %.3f of that instant (by %.3f)"
                        % (story, name, last[3], last[2], {"eof": "released with end-of-stream", "closed": "released with the closed-connection error", "returned": "over"}[want],
                           se.bound_surv, se.ended_at + se.bound_surv)))
    if surv == "s" and se.table_at_bound != 0:
        bad.append(("server-forgets", "%s: %.3f s later (bound %.3f) the server still remembers the peer (%r entries)" % (story, se.bound_surv + MARGIN, se.bound_surv, se.table_at_bound)))
    for nm in ("recv@" + ender, "recv_unreliable@" + ender):
        last = (ops.get(nm) or [[nm, None, None, "missing"]])[-1]
        if last[2] is not None and (last[3] != "eof" or last[2] > se.ended_at + 1e-6):
            bad.append(("close-releases", "%s was %r at %s although this side's connection ended at %.3f" % (nm, last[3], last[2], se.ended_at)))
    for side in "cs":
        last = (ops.get("send@" + side) or [[None, None, None, "missing"]])[-1]
        if last[2] is not None and last[3] != "closed":
            bad.append(("closed-send", "send@%s on the ended connection returned %r instead of raising the closed-connection error" % (side, last[3])))
        last = (ops.get("late-recv@" + side) or [[None, None, None, "eof"]])[-1]
        if last[2] is not None and last[3] not in ("eof",):
            bad.append(("closed-recv", "recv@%s on the ended connection was %r instead of raising end-of-stream" % (side, last[3])))
    if spec.get("rmc"):
        last = (ops.get("call-after-close") or [[None, None, None, "missing"]])[-1]
        if last[2] is not None and last[3] != "closed":
            bad.append(("pending-call", "a remote call on the ended connection ended with %r" % (last[3],)))
    if se.server_table != 0:
        bad.append(("server-forgets", "the server still holds %d client entries after both applications were done with the connection" % se.server_table))
    rec = ops.get("reconnect")
    if not se.timed_out and (not rec or rec[0][3] != "ok"):
        bad.append(("reconnect", "the same address could not establish a working connection again: %s" % (rec[0][3] if rec else None)))
    return bad


def work_unlearned(args):
    idx, cfgd, seed, spec, exe = args
    try:
        cfg = ps.Cfg(**cfgd)
        se = ce.run_unlearned(cfg, seed, spec)
        bad = judge_unlearned(cfg, spec, se)
        r = _l1(exe, se)
        tag = "unlearned:%s:%s-ends:%s%s:v%d" % (spec["how"], spec["ender"], spec["loss"], ":rmc" if spec.get("rmc") else "", cfgd["version"])
        return idx, "unlearned", cfgd, seed, spec, bad, _ops(se), r, tag, None
    except Exception:
        return idx, "unlearned", cfgd, seed, spec, [], None, {"ok": True, "skipped": True, "diffs": []}, None, traceback.format_exc()


# ---------------------------------------------------------------------------------------------------------------- job lists

def jobs(ctx, exe):
    """(big jobs, unlearned jobs); every job = (idx, cfg dict, seed, spec, driver exe)"""
    quick = ctx.tier == "quick"
    rng = ctx.rng
    base = dict(fragment_size=16, resend_timeout=0.5, ping_timeout=1.0)
    PACE = 0.0015           # 255 paced writes take 0.38 s: well inside every bound
    kinds = (("c", "send"), ("s", "send"), ("c", "call"), ("s", "response"))
    big, n = [], 0

    def add_big(cfgd, spec):
        nonlocal n
        big.append((n, cfgd, 1, spec, exe)); n += 1

    def ks_for(N, count):
        # k counted from the first datagram of the transfer: in flight (k < N), acknowledgements coming back (N..2N), just after
        forced = {0, 1, 2, 31, 32, 63, 64, 65, 127, 128, 129, N - 1, N, N + 1, N + 64, 2 * N - 1, 2 * N, 2 * N + 2}
        forced = sorted(k for k in forced if 0 <= k <= 2 * N + 2)
        if count >= len(forced):
            return sorted(set(forced) | set(rng.sample(range(0, 2 * N + 3), min(2 * N + 3, count - len(forced)))))
        return sorted(set(rng.sample(forced, count)) | {0})

    if quick:
        plan = [(dict(base, version=1, credentials=False, resend_limit=2), 255, 10, kinds),
                (dict(base, version=0, credentials=True, resend_limit=0), 255, 5, kinds[:2]),
                (dict(base, version=1, credentials=False, resend_limit=4), rng.choice((65, 66, 97, 129, 130, 200)), 4, kinds)]
    else:
        plan = []
        for version in (1, 0):
            for lim in range(5):
                for creds in (False, True):
                    N = 255 if (lim == 2 and not creds) else rng.choice((65, 66, 100, 129, 130, 200, 254, 255))
                    plan.append((dict(base, version=version, credentials=creds, resend_limit=lim), N, None if (version == 1 and lim == 2 and not creds) else 12, kinds))
    for cfgd, N, count, kk in plan:
        for sender, via in kk:
            spec0 = dict(nfrag=N, sender=sender, via=via, pace=0, kill=None)
            add_big(cfgd, spec0)
            add_big(cfgd, dict(spec0, pace=PACE))
            if cfgd["resend_limit"] >= 1:       # with resend_limit 0 nothing is ever retransmitted: one loss ends the connection
                add_big(cfgd, dict(spec0, nfrag=min(N, 100), lose=rng.randrange(0, min(N, 100))))
            ks = range(0, 2 * N + 3) if count is None else ks_for(N, count)
            for k in ks:
                for mode in ("both", "c2s", "s2c"):
                    add_big(cfgd, dict(spec0, kill=(k, mode)))
                    if count is None and k % 7 == 3 or count is not None and (k in (0, 64, N) or rng.random() < 0.2):
                        add_big(cfgd, dict(spec0, kill=(k, mode), pace=PACE))
    unl = []

    def add_unl(cfgd, spec):
        nonlocal n
        unl.append((n, cfgd, 1, spec, exe)); n += 1

    cfgs = [dict(base, version=version, credentials=False, resend_limit=lim) for version in (1, 0) for lim in range(5)]
    cfgs += [dict(base, version=1, credentials=True, resend_limit=1), dict(base, version=0, credentials=True, resend_limit=3)]
    if not quick:
        cfgs += [dict(base, version=version, credentials=True, resend_limit=lim) for version in (1, 0) for lim in (0, 2, 4)]
    for cfgd in cfgs:
        pt = cfgd["ping_timeout"]
        ats = (0.2617, 0.93 * pt, 1.2531 * pt, 2.02 * pt)
        if not quick:
            ats += tuple(round(rng.uniform(0.05, 3.0 * pt), 4) for _ in range(4))
        for ender in "cs":
            for at in ats:
                for loss in ("to-peer", "both"):
                    add_unl(cfgd, dict(how="close-lost", ender=ender, at=at, loss=loss))
                if ender == "s":
                    add_unl(cfgd, dict(how="close-lost", ender="s", at=at, loss="to-peer", rmc=True))
            oats = (0.3, 0.77, 1.31) + (() if quick else tuple(round(rng.uniform(0.05, 2.5 * pt), 4) for _ in range(3)))
            for at in oats:
                for loss in ("to-ender", "from-ender", "both"):
                    add_unl(cfgd, dict(how="outage", ender=ender, at=at, loss=loss))
                    if not quick:
                        add_unl(cfgd, dict(how="outage", ender=ender, at=at, loss=loss, ender_cfg=dict(ping_timeout=0.5, resend_timeout=0.125, resend_limit=1)))
                if ender == "s":
                    add_unl(cfgd, dict(how="outage", ender="s", at=at, loss=rng.choice(("to-ender", "from-ender", "both")), rmc=True))
    return big, unl


def run_families(ctx, pool, exe):
    """runs both families in the pool; reports violations / cases to ctx; returns (number of sessions whose L1 replay differs, first diff)"""
    import itertools
    big, unl = jobs(ctx, exe)
    ndiff, first = 0, None
    counts = {"big": 0, "unlearned": 0}
    for idx, fam, cfgd, seed, spec, bad, ops, r, tag, err in itertools.chain(pool.imap_unordered(work_big, big, chunksize=2), pool.imap_unordered(work_unlearned, unl, chunksize=4)):
        if err:
            ctx.corr_break("c02-session-harness", "session crashed in the harness", {"traceback": err, "family": fam, "cfg": cfgd, "spec": spec})
            continue
        counts[fam] += 1
        for key, what in bad:
            ctx.violation("c02:%s:%s:v%d" % (fam, key, cfgd["version"]), what, {"family": fam, "cfg": cfgd, "spec": spec, "seed": seed, "ops": ops, "how": HOW})
        if not r["ok"]:
            ndiff += 1
            if first is None:
                first = {"family": fam, "cfg": cfgd, "spec": spec, "diff": r["diffs"][0] if r["diffs"] else None}
        ctx.traces_validated += 0 if r.get("skipped") else 1
        ctx.case(key=(fam, str(cfgd), str(sorted(spec.items()))), nontrivial=True, tag=tag,
                 sample={"family": fam, "cfg": cfgd, "spec": spec, "ops": [[o[0], round(o[1], 3), None if o[2] is None else round(o[2], 3), o[3]] for o in ops][:14],
                         "model_lines": r.get("lines")} if idx % 211 == 0 else None)
    ctx.extra["c02_big_sessions"] = counts["big"]
    ctx.extra["c02_unlearned_sessions"] = counts["unlearned"]
    return ndiff, first
