import NxModel.Bytes
/-! driver stub for C10 (replaced when the property's model lands) -/
def main : IO Unit := IO.println "stub C10"
