import NxModel.Nex.RmcClient
namespace Nx.RmcClient
open Nx Nx.Rmc

theorem step_unknown_response (s : State) (m : Msg) (h : dlookup m.callId s.requests = none) :
    step s (.recvResponse m) = (s, [.warnInvalidCallId m.callId]) := by
  simp [step, h]

end Nx.RmcClient
