import NxModel.Nex.RmcClient
/-!
# RMC client with protocol servers registered — `RMCClient.cleanup()` in full

```
async def cleanup(self):
    if not self.closed:
        self.closed = True
        for event in self.requests.values(): event.set()     -- one atomic section (`doCleanup`)
        for server in self.servers.values():
            await server.logout(self)                          -- may suspend, may raise, may never return
```
`RMCClient.start(servers)` registers the servers (dict by protocol id, insertion order). The body of
`cleanup()` runs at most once per client (`closed` guards it), so at most one sequence of logout hooks is
ever in progress: `pending` = the hooks of that sequence that have not completed yet, the head being the one
currently executing (it was entered in the same atomic section in which the previous one returned; the
first one in the atomic section that set `closed` and the events).

The extension wraps the core machine unchanged: `XOp.core op` is `step` on the core state; `hookReturn` /
`hookRaise` are the two ways the executing hook can end. A hook that blocks for ever is the absence of
either op. The hooks never touch the client's call-matching state (they get the client object, and anything
they do with it goes through the core ops: a `request()` they make is a `call`).

## Traffic in both directions: the peer's own requests (`handle_request`)

```
message = RMCMessage.parse(self.settings, data)
if message.mode == RMCMessage.REQUEST:
    await self.handle_request(message)        -- never looks at `requests` / `responses`, whatever `message.call_id` is
else: ... (core `recvResponse`)
```
`handle_request`: `if request.protocol in self.servers: await self.servers[request.protocol].handle(...)` (may
suspend: the receive loop is suspended with it; may return or raise `RMCError` / any exception), then ONE response
message carrying `request.call_id` (success, or the error of the exception) is sent; an unregistered protocol is
answered at once with the error `Core::NotImplemented`. `peerRequest r` = the loop iteration from `recv()` returning a
REQUEST up to entering `server.handle` (or up to sending the NotImplemented answer); `handlerEnd ok` = the executing
`handle` returned (`ok`) / raised, the answer is encoded and sent. On the core machine a `peerRequest` is the core op
`recvRequest` (state unchanged, no output): the peer's call ids live in a name space of their own, a request whose call
id equals the id of one of our outstanding calls is still a request. (Servers with `NORESPONSE = True` are not modelled.)
-/
namespace Nx.RmcClient
open Nx Nx.Rmc

/-- a REQUEST message received from the peer (the fields `handle_request` uses) -/
structure PeerReq where
  protocol : Nat
  method : Nat
  callId : Nat
  deriving DecidableEq, Repr

inductive XOp where
  | core (op : Op)
  | hookReturn          -- the executing `server.logout(self)` returned
  | hookRaise           -- the executing `server.logout(self)` raised
  | peerRequest (r : PeerReq)   -- the loop received a REQUEST message (any call id) and ran `handle_request` up to its first await
  | handlerEnd (ok : Bool)      -- the executing `server.handle(...)` returned (`ok`) / raised: the answer is sent
  deriving DecidableEq, Repr

inductive XOut where
  | core (o : Out)
  | logout (srv : Nat)      -- `server.logout(self)` of the `srv`-th registered server was entered
  | cleanupReturned         -- `cleanup()` ran to its end (then `close()`/`disconnect()` close the transport, `start()` returns)
  | cleanupRaised           -- `cleanup()` was left by the exception of a hook (remaining hooks are not called)
  | noHook                  -- (never happens at run time) no hook is executing
  | dispatch (srv method callId : Nat)          -- `self.servers[protocol].handle(self, method, ...)` of the `srv`-th server was entered
  | notImplemented (protocol callId : Nat)      -- unregistered protocol: the error answer `Core::NotImplemented` carrying `callId` was sent
  | answer (protocol callId : Nat) (ok : Bool)  -- the answer to the handled request was sent: success / error, carrying `callId`
  | noHandler               -- (never happens at run time) no `handle` is executing
  deriving DecidableEq, Repr

/-- 0 = `cleanup()` body never entered, 1 = running its hooks, 2 = returned, 3 = raised -/
structure XState where
  core : State
  servers : List Nat
  pending : List Nat
  status : Nat
  handling : Option PeerReq   -- the peer request whose `server.handle` is executing (the receive loop is suspended in it)
  deriving DecidableEq, Repr

def xinit (n nservers : Nat) : XState :=
  { core := { init with nextId := n }, servers := List.range nservers, pending := [], status := 0, handling := none }

/-- `PROTOCOL_ID` of the `srv`-th server handed to `start(servers)` (the convention of the scenario runner,
    `rmc_client_sim.FakeServer`: 0x50 + index) -/
def protoOf (srv : Nat) : Nat := 80 + srv

/-- `self.servers.get(protocol)` -/
def serverFor (x : XState) (protocol : Nat) : Option Nat := x.servers.find? fun srv => protoOf srv = protocol

/-- does this core op execute the body of `cleanup()` in state `s`? -/
def runsCleanup (s : State) : Op → Bool
  | .eof | .cleanup => !s.closed
  | _ => false

/-- entering the next hook, or finishing `cleanup()` -/
def nextHook (x : XState) (rest : List Nat) : XState × List XOut :=
  match rest with
  | [] => ({ x with pending := [], status := 2 }, [.cleanupReturned])
  | srv :: _ => ({ x with pending := rest, status := 1 }, [.logout srv])

def xstep (x : XState) : XOp → XState × List XOut
  | .core op =>
    let (s', o) := step x.core op
    let x1 := { x with core := s' }
    if runsCleanup x.core op then
      let (x2, o2) := nextHook x1 x.servers
      (x2, o.map .core ++ o2)
    else (x1, o.map .core)
  | .hookReturn =>
    match x.pending with
    | [] => (x, [.noHook])
    | _ :: rest => nextHook x rest
  | .hookRaise =>
    match x.pending with
    | [] => (x, [.noHook])
    | _ :: _ => ({ x with pending := [], status := 3 }, [.cleanupRaised])
  | .peerRequest r =>
    let (s', o) := step x.core .recvRequest
    let x1 := { x with core := s' }
    match serverFor x r.protocol with
    | some srv => ({ x1 with handling := some r }, o.map .core ++ [.dispatch srv r.method r.callId])
    | none => (x1, o.map .core ++ [.notImplemented r.protocol r.callId])
  | .handlerEnd ok =>
    match x.handling with
    | none => (x, [.noHandler])
    | some r => ({ x with handling := none }, [.answer r.protocol r.callId ok])

/-- what the `start()` loop does with one datagram (extends `opOfData`): `RMCMessage.parse`, then the mode test —
    the ONLY thing that decides between `handle_request` and the call-id lookup. `none` = `parse` raised. -/
def xopOfData (data : Bytes) : Option XOp :=
  match decode data with
  | .error _ => none
  | .ok m =>
    if m.mode = 0 then some (.peerRequest { protocol := m.protocol, method := m.method.getD 0, callId := m.callId })
    else some (.core (.recvResponse m))

def xrun (x : XState) : List XOp → XState × List XOut
  | [] => (x, [])
  | op :: ops =>
    let (x1, o1) := xstep x op
    let (x2, o2) := xrun x1 ops
    (x2, o1 ++ o2)

/-- the core ops of an extended op sequence, in order -/
def coreOps : List XOp → List Op
  | [] => []
  | .core op :: r => op :: coreOps r
  | .peerRequest _ :: r => .recvRequest :: coreOps r
  | .hookReturn :: r | .hookRaise :: r | .handlerEnd _ :: r => coreOps r

/-- the peer's requests of an extended op sequence, in order -/
def peerReqs : List XOp → List PeerReq
  | [] => []
  | .peerRequest q :: r => q :: peerReqs r
  | _ :: r => peerReqs r

/-- the call ids of the peer requests an output sequence says were served (handed to a server's `handle`, or refused
    with the NotImplemented answer), in order -/
def servedIds : List XOut → List Nat
  | [] => []
  | .dispatch _ _ id :: r => id :: servedIds r
  | .notImplemented _ id :: r => id :: servedIds r
  | _ :: r => servedIds r

/-- the call ids carried by the answers sent for handled requests, in order -/
def answeredIds : List XOut → List Nat
  | [] => []
  | .answer _ id _ :: r => id :: answeredIds r
  | _ :: r => answeredIds r

/-- the core outputs of an extended output sequence, in order -/
def coreOuts : List XOut → List Out
  | [] => []
  | .core o :: r => o :: coreOuts r
  | _ :: r => coreOuts r

end Nx.RmcClient
