import NxProofs.PrudpV1
import NxProofs.PrudpPayload
import NxModel.Prudp.Sig
/-! C04: the v1 packet MAC covers every field the receiver acts on. The MAC input omits the two length fields of the
header and concatenates options and payload without a separator; it is nevertheless injective on decodable packets
because the packet type (which is covered) fixes the option set, hence the length of the option block. -/
namespace Nx.Prudp
open Nx Nx.Crypto

/-- what `calc_packet_signature` (v1) feeds into HMAC-MD5 -/
def v1MacInput (accessKey : Bytes) (p : Packet) (sessionKey connSig : Bytes) : Bytes :=
  (v1EncodeHeader p (v1EncodeOptions p).length).drop 4 ++ sessionKey ++ u32le (sumBytes accessKey) ++ connSig ++
    v1EncodeOptions p ++ p.payload

theorem v1PacketSignature_eq (accessKey : Bytes) (p : Packet) (sessionKey connSig : Bytes) :
    v1PacketSignature accessKey p sessionKey connSig = hmacMd5 (md5 accessKey) (v1MacInput accessKey p sessionKey connSig) := by
  simp [v1PacketSignature, v1MacInput, List.append_assoc]

/-- the option block of a well-formed packet has a length fixed by its type -/
def v1OptBlockLen (t : Nat) : Nat := if t = 0 then 27 else if t = 1 then 31 else if t = 2 then 3 else 0

theorem pad16_length (b : Bytes) : (pad16 b).length = 16 := by
  simp [pad16]

theorem v1EncodeOptions_length_eq (p : Packet) (h : V1WF p) : (v1EncodeOptions p).length = v1OptBlockLen p.type := by
  obtain ⟨-, -, -, -, -, -, -, -, -, -, -, -, hsc, hc, hd⟩ := h
  unfold v1EncodeOptions v1OptBlockLen
  rcases v1_type_cases p.type with ht | ht | ht | ⟨h0, h1, h2⟩
  · simp only [ht, isSynOrConnect] at hsc
    simp at hsc
    obtain ⟨x, hx, hxl⟩ := optLen_some hsc.2.2.1
    simp [v1Options, ht, isSynOrConnect, encodeOptions, encodeOption, OPTION_SUPPORT, OPTION_CONNECTION_SIG,
      OPTION_MAX_SUBSTREAM_ID, optInfo, hx, optBytesVal, pad16_of_length hxl, hxl, u8, u32le]
  · simp only [ht, isSynOrConnect] at hsc
    simp at hsc
    obtain ⟨x, hx, hxl⟩ := optLen_some hsc.2.2.1
    simp [v1Options, ht, isSynOrConnect, encodeOptions, encodeOption, OPTION_SUPPORT, OPTION_CONNECTION_SIG,
      OPTION_MAX_SUBSTREAM_ID, OPTION_UNRELIABLE_SEQ_ID, optInfo, hx, optBytesVal, pad16_of_length hxl, hxl, u8, u32le, u16le]
  · simp [v1Options, ht, isSynOrConnect, encodeOptions, encodeOption, OPTION_FRAGMENT_ID, optInfo, u8]
  · simp [v1Options, h0, h1, h2, isSynOrConnect, encodeOptions]

theorem b8_inj {a b : Nat} (ha : a < 256) (hb : b < 256) (h : b8 a = b8 b) : a = b := by
  have := congrArg UInt8.toNat h
  simp only [b8_toNat] at this
  omega

theorem u16_inj {a b : Nat} (ha : a < 65536) (hb : b < 65536) (h0 : b8 a = b8 b) (h1 : b8 (a / 256) = b8 (b / 256)) : a = b := by
  have e0 := congrArg UInt8.toNat h0
  have e1 := congrArg UInt8.toNat h1
  simp only [b8_toNat] at e0 e1
  omega

/-- the eight header bytes the MAC covers -/
theorem header_drop4 (p : Packet) (n : Nat) : (v1EncodeHeader p n).drop 4 =
    [b8 (pyOr p.sourcePort p.sourceType 4), b8 (pyOr p.destPort p.destType 4),
     b8 (pyOr p.type p.flags 4), b8 (pyOr p.type p.flags 4 / 256), b8 p.sessionId, b8 p.substreamId,
     b8 p.packetId, b8 (p.packetId / 256)] := by
  simp [v1EncodeHeader, u8, u16le]

theorem append_inj_of_length {α : Type} {a b c d : List α} (hl : a.length = c.length) (h : a ++ b = c ++ d) : a = c ∧ b = d :=
  List.append_inj h hl

/-- **injectivity**: two well-formed v1 packets whose MAC inputs coincide (same keys) are the same packet up to the
    signature field itself -/
theorem v1MacInput_injective (accessKey : Bytes) (p q : Packet) (K C : Bytes) (hp : V1WF p) (hq : V1WF q)
    (h : v1MacInput accessKey p K C = v1MacInput accessKey q K C) :
    { p with signature := q.signature } = q := by
  have hp0 := hp
  have hq0 := hq
  obtain ⟨hver, hst, hsp, hdt, hdp, hty, hfl, hse, hsub, hpid, hsig, hpl, hsc, hc, hd⟩ := hp
  obtain ⟨hver', hst', hsp', hdt', hdp', hty', hfl', hse', hsub', hpid', hsig', hpl', hsc', hc', hd'⟩ := hq
  unfold v1MacInput at h
  rw [header_drop4, header_drop4] at h
  simp only [List.append_assoc] at h
  obtain ⟨hh, ht⟩ := append_inj_of_length (by simp) h
  -- the type is covered
  have htf : pyOr p.type p.flags 4 = pyOr q.type q.flags 4 := by
    have e := hh
    simp only [List.cons.injEq] at e
    have lp : pyOr p.type p.flags 4 < 65536 := by rw [pyOr4 _ hty]; omega
    have lq : pyOr q.type q.flags 4 < 65536 := by rw [pyOr4 _ hty']; omega
    exact u16_inj lp lq e.2.2.1 e.2.2.2.1
  have htype : p.type = q.type := by
    rw [pyOr4 _ hty, pyOr4 _ hty'] at htf; omega
  -- hence the option blocks have the same length
  have hol : (v1EncodeOptions p).length = (v1EncodeOptions q).length := by
    rw [v1EncodeOptions_length_eq p hp0, v1EncodeOptions_length_eq q hq0, htype]
  obtain ⟨_, ht⟩ := append_inj_of_length rfl ht
  obtain ⟨_, ht⟩ := append_inj_of_length rfl ht
  obtain ⟨_, ht⟩ := append_inj_of_length rfl ht
  obtain ⟨hopts, hpay⟩ := append_inj_of_length hol ht
  -- the two encodings coincide once the signatures do
  have henc : v1Encode { p with signature := q.signature } = v1Encode q := by
    have e1 : v1EncodeOptions { p with signature := q.signature } = v1EncodeOptions p := rfl
    have hd4 : ∀ (x : Packet) (n : Nat), v1EncodeHeader x n = u8 1 ++ u8 n ++ u16le x.payload.length ++ (v1EncodeHeader x n).drop 4 := by
      intro x n; simp [v1EncodeHeader, u8, u16le]
    unfold v1Encode
    simp only []
    rw [e1, hopts]
    have : v1EncodeHeader { p with signature := q.signature } (v1EncodeOptions q).length = v1EncodeHeader q (v1EncodeOptions q).length := by
      rw [hd4 { p with signature := q.signature }, hd4 q, header_drop4, header_drop4]
      simp only [] at hh ⊢
      rw [hh, hpay]
    rw [this, hpay]
  have hwf : V1WF { p with signature := q.signature } :=
    ⟨hver, hst, hsp, hdt, hdp, hty, hfl, hse, hsub, hpid, hsig', hpl, hsc, hc, hd⟩
  have d1 := v1Decode_encode _ hwf
  have d2 := v1Decode_encode q hq0
  rw [henc, d2] at d1
  simpa using d1.symm

end Nx.Prudp
