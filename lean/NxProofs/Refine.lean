import NxProofs.Window
import NxProofs.Rc4At
import NxProofs.ChannelWell
import NxProofs.KeepAlive
/-! C01: the receive path of the L1 endpoint refines the L2 channel receiver. `Window.update` does not look at what it
stores (naturality), the release loop of `process_reliable` is `Core.consume` on the projected packets, so the deliveries
of a real endpoint are those the L2 theorems (`C01_safety`, …) speak about. -/
namespace Nx.Chan

variable {α β : Type}

def Window.map (f : α → β) (w : Window α) : Window β := { next := w.next, packets := w.packets.map (fun kv => (kv.1, f kv.2)) }

theorem lookup_map (f : α → β) (k : Nat) (l : List (Nat × α)) :
    lookup k (l.map (fun kv => (kv.1, f kv.2))) = (lookup k l).map f := by
  induction l with
  | nil => rfl
  | cons x t ih =>
    obtain ⟨k', v⟩ := x
    simp only [List.map_cons, lookup]
    split
    · rfl
    · exact ih

theorem erase_map (f : α → β) (k : Nat) (l : List (Nat × α)) :
    erase k (l.map (fun kv => (kv.1, f kv.2))) = (erase k l).map (fun kv => (kv.1, f kv.2)) := by
  induction l with
  | nil => rfl
  | cons x t ih =>
    obtain ⟨k', v⟩ := x
    simp only [List.map_cons, erase]
    split
    · exact ih
    · simp only [List.map_cons]; rw [ih]

theorem drain_map (f : α → β) : ∀ (fuel : Nat) (w : Window α) (acc : List α),
    Window.drain fuel (w.map f) (acc.map f) = ((Window.drain fuel w acc).1.map f, (Window.drain fuel w acc).2.map f) := by
  intro fuel
  induction fuel with
  | zero => intro w acc; rfl
  | succ n ih =>
    intro w acc
    simp only [Window.drain]
    have hl : lookup (w.map f).next (w.map f).packets = (lookup w.next w.packets).map f := lookup_map f _ _
    rw [hl]
    cases h : lookup w.next w.packets with
    | none => rfl
    | some p =>
      simp only [Option.map]
      have := ih { next := seqNext w.next, packets := erase w.next w.packets } (acc ++ [p])
      simp only [Window.map, List.map_append, List.map_cons, List.map_nil] at this ⊢
      rw [erase_map]
      exact this

/-- naturality of `SlidingWindow.update` -/
theorem update_map (f : α → β) (w : Window α) (id : Nat) (p : α) :
    (w.map f).update id (f p) = ((w.update id p).1.map f, (w.update id p).2.map f) := by
  unfold Window.update
  have hl : lookup id (w.map f).packets = (lookup id w.packets).map f := lookup_map f _ _
  have hn : (w.map f).next = w.next := rfl
  rw [hl, hn]
  have hs : ((lookup id w.packets).map f).isSome = (lookup id w.packets).isSome := by cases lookup id w.packets <;> rfl
  rw [hs]
  split
  · rfl
  · simp only []
    have := drain_map f (w.packets ++ [(id, p)]).length { w with packets := w.packets ++ [(id, p)] } []
    simp only [Window.map, List.map_append, List.map_cons, List.map_nil, List.length_append, List.length_map, List.length_cons, List.length_nil] at this ⊢
    exact this

/-- everything the window releases was stored in it or is the packet just handed in -/
theorem drain_mem : ∀ (fuel : Nat) (w : Window α) (acc : List α) (x : α),
    x ∈ (Window.drain fuel w acc).2 → x ∈ acc ∨ ∃ k, (k, x) ∈ w.packets := by
  intro fuel
  induction fuel with
  | zero => intro w acc x h; exact Or.inl h
  | succ n ih =>
    intro w acc x h
    simp only [Window.drain] at h
    cases hl : lookup w.next w.packets with
    | none => rw [hl] at h; exact Or.inl h
    | some p =>
      rw [hl] at h
      cases ih _ _ _ h with
      | inl h1 =>
        cases List.mem_append.mp h1 with
        | inl h2 => exact Or.inl h2
        | inr h2 => simp at h2; subst h2; exact Or.inr ⟨_, mem_of_lookup hl⟩
      | inr h1 =>
        obtain ⟨k, hk⟩ := h1
        exact Or.inr ⟨k, (mem_erase.mp hk).1⟩

theorem drain_packets_mem : ∀ (fuel : Nat) (w : Window α) (acc : List α) (kx : Nat × α),
    kx ∈ (Window.drain fuel w acc).1.packets → kx ∈ w.packets := by
  intro fuel
  induction fuel with
  | zero => intro w acc kx h; exact h
  | succ n ih =>
    intro w acc kx h
    simp only [Window.drain] at h
    cases hl : lookup w.next w.packets with
    | none => rw [hl] at h; exact h
    | some p =>
      rw [hl] at h
      exact (mem_erase.mp (ih _ _ _ h)).1

theorem update_mem (w : Window α) (id : Nat) (p : α) (x : α) (h : x ∈ (w.update id p).2) : x = p ∨ ∃ k, (k, x) ∈ w.packets := by
  unfold Window.update at h
  split at h
  · cases h
  · cases drain_mem _ _ _ _ h with
    | inl h1 => cases h1
    | inr h1 =>
      obtain ⟨k, hk⟩ := h1
      cases List.mem_append.mp hk with
      | inl h2 => exact Or.inr ⟨k, h2⟩
      | inr h2 => simp at h2; exact Or.inl h2.2

theorem update_packets_mem (w : Window α) (id : Nat) (p : α) (kx : Nat × α) (h : kx ∈ (w.update id p).1.packets) :
    kx = (id, p) ∨ kx ∈ w.packets := by
  unfold Window.update at h
  split at h
  · exact Or.inr h
  · cases List.mem_append.mp (drain_packets_mem _ _ _ _ h) with
    | inl h2 => exact Or.inr h2
    | inr h2 => simp at h2; exact Or.inl h2

end Nx.Chan

namespace Nx.L1
open Nx Nx.Prudp Nx.Chan

def kindOf (p : Packet) : Kind :=
  if p.type = TYPE_DATA then .data p.fragmentId else if p.type = TYPE_DISCONNECT then .disconnect else .ping

/-- a reliable packet as the L2 channel sees it -/
def wireOf (p : Packet) : Wire := ⟨p.packetId, kindOf p, p.payload⟩

/-- the L2 cipher of substream `sub` of a connection: RC4 at a position on UDP transports, the identity on stream transports -/
def cipherOf (c : Conn) (sub : Nat) : Cipher :=
  let key := (c.relCiphers[sub]?.map StreamCipher.key).getD []
  { enc := fun pos d => if c.cipherOn then rc4At key pos d else d,
    dec := fun pos d => if c.cipherOn then rc4At key pos d else d }

/-- the L2 cipher with the connection's compression around it: encode = cipher after `compress`, decode = `decompress` after
    cipher (a failing `decompress` raises in the code; in the channel it yields the empty string — the refinement theorems are
    stated for runs in which `process_reliable` raises nothing) -/
def wrap (env : Env) (ci : Cipher) : Cipher :=
  { enc := fun pos d => ci.enc pos (env.compress d),
    dec := fun pos y => match env.decompress (ci.dec pos y) with
      | .ok d => d
      | .error _ => [] }

/-- the cipher of a substream of an endpoint meets the channel's cipher hypothesis, whatever the key -/
theorem cipherOf_ok (c : Conn) (sub : Nat) : CipherOk (cipherOf c sub) := by
  unfold cipherOf
  cases c.cipherOn with
  | false => exact ⟨fun _ _ => rfl, fun _ _ h => h⟩
  | true =>
    simp only [if_true]
    have h := xorCipher_ok (rc4Ks ((c.relCiphers[sub]?.map StreamCipher.key).getD []))
    refine ⟨fun p x => ?_, fun p x hx => ?_⟩
    · simp only [rc4At_eq_xorAt]; exact h.dec_enc p x
    · simp only [rc4At_eq_xorAt]; exact h.enc_ne p x hx

def SubWF (c : Conn) (sub : Nat) : Prop :=
  sub < c.relCiphers.length ∧ sub < c.fragBufs.length ∧ sub < c.queues.length

/-- abstraction relation between the application side of substream `sub` and an L2 `Core` -/
structure RRel (c : Conn) (sub : Nat) (core : Core) : Prop where
  closed : core.closed = c.eof
  out : core.reasm.out = (c.queues[sub]?.getD [])
  live : c.eof = false → core.reasm.buf = (c.fragBufs[sub]?.getD []) ∧
    (c.cipherOn = true → ∃ sc, c.relCiphers[sub]? = some sc ∧ core.decPos = sc.decPos)

theorem getD_set_self {α : Type} (l : List α) (i : Nat) (x : α) (h : i < l.length) : ((setAt l i x)[i]?).getD x = x := by
  simp [setAt, h]

theorem get_set_self {α : Type} (l : List α) (i : Nat) (x : α) (h : i < l.length) : (setAt l i x)[i]? = some x := by
  simp [setAt, h]

theorem set_key_same (l : List StreamCipher) (i j : Nat) (sc : StreamCipher) (n : Nat) (h : l[i]? = some sc) :
    ((setAt l i { sc with decPos := n })[j]?).map StreamCipher.key = (l[j]?).map StreamCipher.key := by
  simp only [setAt, List.getElem?_set]
  by_cases hij : i = j
  · subst hij
    have hlt : i < l.length := by
      cases hl : l[i]? with
      | none => rw [hl] at h; cases h
      | some x => exact (List.getElem?_eq_some_iff.mp hl).1
    rw [if_pos rfl, if_pos hlt, h]; rfl
  · rw [if_neg hij]

/-- `PayloadEncoder.decode`, case by case -/
theorem decodePayload_plain (env : Env) (c : Conn) (p : Packet) (h : ¬ (p.type = TYPE_DATA ∧ (!p.payload.isEmpty) = true)) :
    c.decodePayload env p = .ok (p.payload, c) := by
  unfold Conn.decodePayload; rw [if_neg h]

theorem decodePayload_rel_on (env : Env) (c : Conn) (p : Packet) (sc : StreamCipher)
    (h1 : p.type = TYPE_DATA ∧ (!p.payload.isEmpty) = true) (h2 : hasReliable p.flags = true)
    (h3 : c.relCiphers[p.substreamId]? = some sc) (h4 : c.cipherOn = true) :
    c.decodePayload env p =
      match env.decompress (rc4At sc.key sc.decPos p.payload) with
      | .ok d => .ok (d, { c with relCiphers := setAt c.relCiphers p.substreamId { sc with decPos := sc.decPos + p.payload.length } })
      | .error e => .error e := by
  unfold Conn.decodePayload; rw [if_pos h1, if_pos h2, h3]; simp only [h4, if_true]; rfl

theorem decodePayload_rel_off (env : Env) (c : Conn) (p : Packet) (sc : StreamCipher)
    (h1 : p.type = TYPE_DATA ∧ (!p.payload.isEmpty) = true) (h2 : hasReliable p.flags = true)
    (h3 : c.relCiphers[p.substreamId]? = some sc) (h4 : c.cipherOn = false) :
    c.decodePayload env p =
      match env.decompress p.payload with
      | .ok d => .ok (d, c)
      | .error e => .error e := by
  unfold Conn.decodePayload; rw [if_pos h1, if_pos h2, h3]; simp only [h4, Bool.false_eq_true, if_false]; rfl

theorem decodePayload_rel_none (env : Env) (c : Conn) (p : Packet)
    (h1 : p.type = TYPE_DATA ∧ (!p.payload.isEmpty) = true) (h2 : hasReliable p.flags = true)
    (h3 : c.relCiphers[p.substreamId]? = none) : c.decodePayload env p = .error .index := by
  unfold Conn.decodePayload; rw [if_pos h1, if_pos h2, h3]

theorem decodePayload_unrel (env : Env) (c : Conn) (p : Packet)
    (h1 : p.type = TYPE_DATA ∧ (!p.payload.isEmpty) = true) (h2 : ¬ hasReliable p.flags = true) :
    c.decodePayload env p =
      match env.decompress (if c.cipherOn then rc4At (makeUnreliableKey c.unrelKey p.packetId p.sessionId) 0 p.payload else p.payload) with
      | .ok d => .ok (d, c)
      | .error e => .error e := by
  unfold Conn.decodePayload; rw [if_pos h1, if_neg h2]; rfl

/-- what `PayloadEncoder.decode` may change: the decryption position of one stream cipher -/
theorem decodePayload_frame (env : Env) (c c1 : Conn) (p : Packet) (d : Bytes) (h : c.decodePayload env p = .ok (d, c1)) :
    c1.eof = c.eof ∧ c1.queues = c.queues ∧ c1.fragBufs = c.fragBufs ∧ c1.relCiphers.length = c.relCiphers.length ∧
    c1.cipherOn = c.cipherOn ∧ (∀ i : Nat, (c1.relCiphers[i]?).map StreamCipher.key = (c.relCiphers[i]?).map StreamCipher.key) := by
  by_cases h1 : p.type = TYPE_DATA ∧ (!p.payload.isEmpty) = true
  · by_cases h2 : hasReliable p.flags = true
    · cases h3 : c.relCiphers[p.substreamId]? with
      | none => rw [decodePayload_rel_none env c p h1 h2 h3] at h; cases h
      | some sc =>
        cases h4 : c.cipherOn with
        | true =>
          rw [decodePayload_rel_on env c p sc h1 h2 h3 h4] at h
          cases hd : env.decompress (rc4At sc.key sc.decPos p.payload) with
          | error e => rw [hd] at h; cases h
          | ok x =>
            rw [hd] at h; cases h
            exact ⟨rfl, rfl, rfl, by simp [setAt], h4, fun i => set_key_same _ _ _ _ _ h3⟩
        | false =>
          rw [decodePayload_rel_off env c p sc h1 h2 h3 h4] at h
          cases hd : env.decompress p.payload with
          | error e => rw [hd] at h; cases h
          | ok x => rw [hd] at h; cases h; exact ⟨rfl, rfl, rfl, rfl, h4, fun _ => rfl⟩
    · rw [decodePayload_unrel env c p h1 h2] at h
      generalize env.decompress _ = r at h
      cases r with
      | error e => cases h
      | ok x => cases h; exact ⟨rfl, rfl, rfl, rfl, rfl, fun _ => rfl⟩
  · rw [decodePayload_plain env c p h1] at h; cases h; exact ⟨rfl, rfl, rfl, rfl, rfl, fun _ => rfl⟩

/-- once the connection is closed the release loop delivers nothing more -/
theorem consume_closed (env : Env) (sub : Nat) : ∀ (rel : List Packet) (c : Conn), c.eof = true → SubWF c sub →
    (Conn.consume env sub rel c).c.eof = true ∧ (Conn.consume env sub rel c).c.queues[sub]? = c.queues[sub]? ∧
    SubWF (Conn.consume env sub rel c).c sub ∧ cipherOf (Conn.consume env sub rel c).c sub = cipherOf c sub := by
  intro rel
  induction rel with
  | nil => intro c h hw; exact ⟨h, rfl, hw, rfl⟩
  | cons p ps ih =>
    intro c h hw
    simp only [Conn.consume]
    split
    · generalize hd : c.decodePayload env p = r
      cases r with
      | error e => exact ⟨h, rfl, hw, rfl⟩
      | ok v =>
        obtain ⟨data, c1⟩ := v
        have hs := decodePayload_frame env c c1 p data hd
        simp only []
        have he1 : c1.eof = true := by rw [hs.1]; exact h
        by_cases hf : p.fragmentId = 0
        · rw [if_pos hf, if_pos he1]
          refine ⟨he1, ?_, ?_, ?_⟩
          · show c1.queues[sub]? = c.queues[sub]?
            rw [hs.2.1]
          · refine ⟨?_, ?_, ?_⟩
            · show sub < c1.relCiphers.length
              rw [hs.2.2.2.1]; exact hw.1
            · show sub < (setAt c1.fragBufs sub _).length
              simp only [setAt, List.length_set]; rw [hs.2.2.1]; exact hw.2.1
            · show sub < c1.queues.length
              rw [hs.2.1]; exact hw.2.2
          · show cipherOf { c1 with fragBufs := _ } sub = cipherOf c sub
            simp only [cipherOf]; rw [hs.2.2.2.2.1, hs.2.2.2.2.2]
        · rw [if_neg hf]
          have := ih { c1 with fragBufs := setAt c1.fragBufs sub ((c1.fragBufs[sub]?.getD []) ++ data) } he1
            ⟨by show sub < c1.relCiphers.length; rw [hs.2.2.2.1]; exact hw.1,
             by show sub < (setAt c1.fragBufs sub _).length; simp only [setAt, List.length_set]; rw [hs.2.2.1]; exact hw.2.1,
             by show sub < c1.queues.length; rw [hs.2.1]; exact hw.2.2⟩
          refine ⟨this.1, ?_, this.2.2.1, ?_⟩
          · rw [this.2.1]; show c1.queues[sub]? = c.queues[sub]?; rw [hs.2.1]
          · rw [this.2.2.2]; simp only [cipherOf]; rw [hs.2.2.2.2.1, hs.2.2.2.2.2]
    · split
      · -- DISCONNECT: cleanup again, then the rest
        have hc : c.cleanup.c.eof = true := rfl
        have hwc : SubWF c.cleanup.c sub := hw
        have := ih c.cleanup.c hc hwc
        simp only [R.bind, cleanup_no_error]
        exact ⟨this.1, this.2.1, this.2.2.1, this.2.2.2⟩
      · exact ih c h hw

/-- the exceptions `PayloadEncoder.decode` can raise: an IndexError (no cipher for the substream) or whatever `decompress` raised -/
theorem decodePayload_err_kind (env : Env) (c : Conn) (p : Packet) (e : Err) (h : c.decodePayload env p = .error e) :
    e = .index ∨ ∃ b, env.decompress b = .error e := by
  by_cases h1 : p.type = TYPE_DATA ∧ (!p.payload.isEmpty) = true
  · by_cases h2 : hasReliable p.flags = true
    · cases h3 : c.relCiphers[p.substreamId]? with
      | none => rw [decodePayload_rel_none env c p h1 h2 h3] at h; cases h; exact Or.inl rfl
      | some sc =>
        cases h4 : c.cipherOn with
        | true =>
          rw [decodePayload_rel_on env c p sc h1 h2 h3 h4] at h
          cases hd : env.decompress (rc4At sc.key sc.decPos p.payload) with
          | error e' => rw [hd] at h; cases h; exact Or.inr ⟨_, hd⟩
          | ok x => rw [hd] at h; cases h
        | false =>
          rw [decodePayload_rel_off env c p sc h1 h2 h3 h4] at h
          cases hd : env.decompress p.payload with
          | error e' => rw [hd] at h; cases h; exact Or.inr ⟨_, hd⟩
          | ok x => rw [hd] at h; cases h
    · rw [decodePayload_unrel env c p h1 h2] at h
      generalize hg : env.decompress _ = r at h
      cases r with
      | error e' => cases h; exact Or.inr ⟨_, hg⟩
      | ok x => cases h
  · rw [decodePayload_plain env c p h1] at h; cases h

/-- one DATA packet through `PayloadEncoder.decode` = one application of the L2 cipher at the tracked position -/
theorem decode_step (env : Env) (sub : Nat) (c : Conn) (core : Core) (p : Packet)
    (hw : SubWF c sub) (hsub : p.substreamId = sub) (hrel : hasReliable p.flags = true) (ht : p.type = TYPE_DATA)
    (hpos : c.cipherOn = true → ∃ sc, c.relCiphers[sub]? = some sc ∧ core.decPos = sc.decPos)
    (hok : ∃ v, c.decodePayload env p = .ok v) :
    ∃ data c1, c.decodePayload env p = .ok (data, c1) ∧
      data = (if p.payload.isEmpty then p.payload else (wrap env (cipherOf c sub)).dec core.decPos p.payload) ∧
      c1.eof = c.eof ∧ c1.queues = c.queues ∧ c1.fragBufs = c.fragBufs ∧ SubWF c1 sub ∧ cipherOf c1 sub = cipherOf c sub ∧
      (c1.cipherOn = true → ∃ sc', c1.relCiphers[sub]? = some sc' ∧ core.decPos + p.payload.length = sc'.decPos) := by
  have hsc : ∃ sc, c.relCiphers[sub]? = some sc := ⟨c.relCiphers[sub]'hw.1, List.getElem?_eq_getElem hw.1⟩
  obtain ⟨sc, hsc⟩ := hsc
  by_cases h1 : p.payload.isEmpty = true
  · have hn : ¬ (p.type = TYPE_DATA ∧ (!p.payload.isEmpty) = true) := by simp [h1]
    refine ⟨p.payload, c, decodePayload_plain env c p hn, by rw [if_pos h1], rfl, rfl, rfl, hw, rfl, ?_⟩
    intro hon
    obtain ⟨sc', h', hp'⟩ := hpos hon
    have hl : p.payload.length = 0 := by simpa using h1
    exact ⟨sc', h', by rw [hl]; exact hp'⟩
  · have hy : p.type = TYPE_DATA ∧ (!p.payload.isEmpty) = true := ⟨ht, by simp [h1]⟩
    have hsc' : c.relCiphers[p.substreamId]? = some sc := by rw [hsub]; exact hsc
    cases h4 : c.cipherOn with
    | true =>
      obtain ⟨sc0, h0, hp0⟩ := hpos h4
      have : sc0 = sc := by rw [hsc] at h0; cases h0; rfl
      subst this
      obtain ⟨v, hv⟩ := hok
      rw [decodePayload_rel_on env c p sc0 hy hrel hsc' h4] at hv
      cases hdd : env.decompress (rc4At sc0.key sc0.decPos p.payload) with
      | error e => rw [hdd] at hv; cases hv
      | ok x =>
      refine ⟨x, { c with relCiphers := setAt c.relCiphers p.substreamId { sc0 with decPos := sc0.decPos + p.payload.length } }, ?_, ?_, rfl, rfl, rfl, ?_, ?_, ?_⟩
      · rw [decodePayload_rel_on env c p sc0 hy hrel hsc' h4, hdd]
      · rw [if_neg h1]; simp only [wrap, cipherOf, hsc, h4, if_true, Option.map, Option.getD]; rw [hp0, hdd]
      · exact ⟨by show sub < (setAt c.relCiphers _ _).length; simp only [setAt, List.length_set]; exact hw.1, hw.2.1, hw.2.2⟩
      · simp only [cipherOf]; rw [set_key_same _ _ _ _ _ hsc']
      · intro _
        refine ⟨{ sc0 with decPos := sc0.decPos + p.payload.length }, ?_, by rw [hp0]⟩
        show (setAt c.relCiphers p.substreamId _)[sub]? = _
        rw [hsub]; exact get_set_self _ _ _ hw.1
    | false =>
      obtain ⟨v, hv⟩ := hok
      rw [decodePayload_rel_off env c p sc hy hrel hsc' h4] at hv
      cases hdd : env.decompress p.payload with
      | error e => rw [hdd] at hv; cases hv
      | ok x =>
      refine ⟨x, c, ?_, ?_, rfl, rfl, rfl, hw, rfl, ?_⟩
      · rw [decodePayload_rel_off env c p sc hy hrel hsc' h4, hdd]
      · rw [if_neg h1]; simp [wrap, cipherOf, h4, hdd]
      · intro hon; rw [h4] at hon; cases hon

/-- a payload that is empty or an encoding made at the position where the substream's decryption stands decodes without an
    exception (given `decompress ∘ compress = id`) -/
theorem decode_ok_of_well (env : Env) (hround : ∀ b, env.decompress (env.compress b) = .ok b) (sub : Nat) (c : Conn) (core : Core)
    (p : Packet) (hw : SubWF c sub) (hsub : p.substreamId = sub) (hrel : hasReliable p.flags = true) (ht : p.type = TYPE_DATA)
    (hpos : c.cipherOn = true → ∃ sc, c.relCiphers[sub]? = some sc ∧ core.decPos = sc.decPos)
    (hwp : p.payload = [] ∨ ∃ x, p.payload = (wrap env (cipherOf c sub)).enc core.decPos x) :
    ∃ v, c.decodePayload env p = .ok v := by
  have hsc : ∃ sc, c.relCiphers[sub]? = some sc := ⟨c.relCiphers[sub]'hw.1, List.getElem?_eq_getElem hw.1⟩
  obtain ⟨sc, hsc⟩ := hsc
  by_cases h1 : p.payload.isEmpty = true
  · have hn : ¬ (p.type = TYPE_DATA ∧ (!p.payload.isEmpty) = true) := by simp [h1]
    exact ⟨_, decodePayload_plain env c p hn⟩
  · have hy : p.type = TYPE_DATA ∧ (!p.payload.isEmpty) = true := ⟨ht, by simp [h1]⟩
    have hsc' : c.relCiphers[p.substreamId]? = some sc := by rw [hsub]; exact hsc
    rcases hwp with he | ⟨x, hx⟩
    · rw [he] at h1; exact absurd rfl h1
    · cases h4 : c.cipherOn with
      | true =>
        obtain ⟨sc0, h0, hp0⟩ := hpos h4
        have : sc0 = sc := by rw [hsc] at h0; cases h0; rfl
        subst this
        simp only [wrap, cipherOf, hsc, h4, if_true, Option.map, Option.getD] at hx
        rw [decodePayload_rel_on env c p sc0 hy hrel hsc' h4, hx, hp0, rc4At_involutive, hround]
        exact ⟨_, rfl⟩
      | false =>
        simp only [wrap, cipherOf, h4, Bool.false_eq_true, if_false] at hx
        rw [decodePayload_rel_off env c p sc hy hrel hsc' h4, hx, hround]
        exact ⟨_, rfl⟩

theorem getD_getElem? {α : Type} (l : List α) (i : Nat) (d : α) : (l[i]?).getD d = l.getD i d := by
  simp [List.getD]

/-- **the release loop of `process_reliable` is `Core.consume`** on the projected packets -/
theorem consume_refines (env : Env) (hround : ∀ b, env.decompress (env.compress b) = .ok b) (sub : Nat) (ci : Cipher) :
    ∀ (rel : List Packet) (c : Conn) (core : Core), SubWF c sub → cipherOf c sub = ci →
      (∀ q ∈ rel, q.substreamId = sub ∧ hasReliable q.flags = true) →
      Core.wellAt (wrap env ci) core (rel.map wireOf) → RRel c sub core →
      RRel (Conn.consume env sub rel c).c sub (core.consume (wrap env ci) (rel.map wireOf)) ∧
      SubWF (Conn.consume env sub rel c).c sub ∧ cipherOf (Conn.consume env sub rel c).c sub = ci := by
  intro rel
  induction rel with
  | nil => intro c core hw hc _ _ hr; exact ⟨hr, hw, hc⟩
  | cons p ps ih =>
    intro c core hw hc hgood hwell hr
    have hp := hgood p (List.mem_cons_self)
    have hps : ∀ q ∈ ps, q.substreamId = sub ∧ hasReliable q.flags = true := fun q hq => hgood q (List.mem_cons_of_mem _ hq)
    cases he : c.eof with
    | true =>
      -- closed on both sides: nothing more is delivered
      have hcl : core.closed = true := by rw [hr.closed]; exact he
      have h2 : core.consume (wrap env ci) ((p :: ps).map wireOf) = core := by simp [Core.consume, hcl]
      have h1 := consume_closed env sub (p :: ps) c he hw
      rw [h2]
      refine ⟨⟨by rw [hcl, h1.1], ?_, fun hlive => by rw [h1.1] at hlive; cases hlive⟩, h1.2.2.1, by rw [h1.2.2.2]; exact hc⟩
      rw [hr.out, h1.2.1]
    | false =>
      have hcl : core.closed = false := by rw [hr.closed]; exact he
      have hlive := hr.live he
      simp only [List.map_cons, Core.consume, hcl, Bool.false_eq_true, if_false, Conn.consume]
      simp only [List.map_cons, Core.wellAt, hcl, Bool.false_eq_true, false_or] at hwell
      by_cases ht : p.type = TYPE_DATA
      · -- DATA
        have hk : (wireOf p).kind = .data p.fragmentId := by simp [wireOf, kindOf, ht]
        rw [hk, if_pos ht]
        rw [hk] at hwell
        simp only [] at hwell
        simp only []
        have hok : ∃ v, c.decodePayload env p = .ok v :=
          decode_ok_of_well env hround sub c core p hw hp.1 hp.2 ht hlive.2 (by rw [hc]; exact hwell.1)
        obtain ⟨data, c1, hdp, hdata, h_eof, h_q, h_fb, hw1, hc1, hpos1⟩ := decode_step env sub c core p hw hp.1 hp.2 ht hlive.2 hok
        rw [hdp]
        simp only []
        have hwire : (wireOf p).cipher = p.payload := rfl
        rw [hwire]
        have hci : (wrap env (cipherOf c sub)).dec = (wrap env ci).dec := by rw [hc]
        have hpt : data = (if p.payload.isEmpty then p.payload else (wrap env ci).dec core.decPos p.payload) := by rw [hdata, hci]
        have he1 : c1.eof = false := by rw [h_eof]; exact he
        by_cases hf : p.fragmentId = 0
        · rw [if_pos hf, if_neg (by rw [he1]; exact Bool.false_ne_true)]
          simp only [R.bind, R.ok]
          apply ih
          · exact ⟨hw1.1, by show sub < (setAt c1.fragBufs sub _).length; simp only [setAt, List.length_set]; exact hw1.2.1,
                   by show sub < (setAt c1.queues sub _).length; simp only [setAt, List.length_set]; exact hw1.2.2⟩
          · show cipherOf { c1 with fragBufs := _, queues := _ } sub = ci
            rw [← hc, ← hc1]; rfl
          · exact hps
          · exact hwell.2
          · refine ⟨by show false = c1.eof; exact he1.symm, ?_, fun _ => ⟨?_, ?_⟩⟩
            · show (Reasm.absorb core.reasm p.fragmentId _).out = ((setAt c1.queues sub _)[sub]?).getD []
              rw [get_set_self _ _ _ hw1.2.2]
              simp only [Reasm.absorb, hf, if_true, Option.getD]
              rw [hr.out, hlive.1, h_q, h_fb, hpt]
              cases c.queues[sub]? <;> cases c.fragBufs[sub]? <;> rfl
            · show (Reasm.absorb core.reasm p.fragmentId _).buf = ((setAt c1.fragBufs sub _)[sub]?).getD []
              rw [get_set_self _ _ _ hw1.2.1]
              simp [Reasm.absorb, hf]
            · exact hpos1
        · rw [if_neg hf]
          apply ih
          · exact ⟨hw1.1, by show sub < (setAt c1.fragBufs sub _).length; simp only [setAt, List.length_set]; exact hw1.2.1, hw1.2.2⟩
          · show cipherOf { c1 with fragBufs := _ } sub = ci
            rw [← hc, ← hc1]; rfl
          · exact hps
          · exact hwell.2
          · refine ⟨by show false = c1.eof; exact he1.symm, ?_, fun _ => ⟨?_, ?_⟩⟩
            · show (Reasm.absorb core.reasm p.fragmentId _).out = (c1.queues[sub]?).getD []
              simp only [Reasm.absorb, hf, if_false]
              rw [hr.out, h_q]
            · show (Reasm.absorb core.reasm p.fragmentId _).buf = ((setAt c1.fragBufs sub _)[sub]?).getD []
              rw [get_set_self _ _ _ hw1.2.1]
              simp only [Reasm.absorb, hf, if_false, Option.getD]
              rw [hlive.1, h_fb, hpt]
              cases c.fragBufs[sub]? <;> rfl
            · exact hpos1
      · rw [if_neg ht]
        by_cases hd : p.type = TYPE_DISCONNECT
        · -- DISCONNECT: `cleanup()`; the L2 core is closed
          have hk : (wireOf p).kind = .disconnect := by simp [wireOf, kindOf, hd]; decide
          rw [hk, if_pos hd]
          simp only [R.bind, cleanup_no_error]
          have h1 := consume_closed env sub ps c.cleanup.c rfl hw
          refine ⟨⟨by show true = _; rw [h1.1], ?_, fun hl => by rw [h1.1] at hl; cases hl⟩, h1.2.2.1, by rw [h1.2.2.2]; exact hc⟩
          show core.reasm.out = _
          rw [hr.out, h1.2.1]; rfl
        · have hk : (wireOf p).kind = .ping := by simp [wireOf, kindOf, ht, hd]
          rw [hk, if_neg hd]
          rw [hk] at hwell
          exact ih c core hw hc hps hwell hr

theorem decodePayload_windows (env : Env) (c c1 : Conn) (p : Packet) (d : Bytes) (h : c.decodePayload env p = .ok (d, c1)) :
    c1.windows = c.windows := by
  by_cases h1 : p.type = TYPE_DATA ∧ (!p.payload.isEmpty) = true
  · by_cases h2 : hasReliable p.flags = true
    · cases h3 : c.relCiphers[p.substreamId]? with
      | none => rw [decodePayload_rel_none env c p h1 h2 h3] at h; cases h
      | some sc =>
        cases h4 : c.cipherOn with
        | true =>
          rw [decodePayload_rel_on env c p sc h1 h2 h3 h4] at h
          cases hd : env.decompress (rc4At sc.key sc.decPos p.payload) with
          | error e => rw [hd] at h; cases h
          | ok x => rw [hd] at h; cases h; rfl
        | false =>
          rw [decodePayload_rel_off env c p sc h1 h2 h3 h4] at h
          cases hd : env.decompress p.payload with
          | error e => rw [hd] at h; cases h
          | ok x => rw [hd] at h; cases h; rfl
    · rw [decodePayload_unrel env c p h1 h2] at h
      generalize env.decompress _ = r at h
      cases r with
      | error e => cases h
      | ok x => cases h; rfl
  · rw [decodePayload_plain env c p h1] at h; cases h; rfl

theorem consume_windows (env : Env) (sub : Nat) : ∀ (rel : List Packet) (c : Conn), (Conn.consume env sub rel c).c.windows = c.windows := by
  intro rel
  induction rel with
  | nil => intro c; rfl
  | cons p ps ih =>
    intro c
    simp only [Conn.consume]
    split
    · generalize hd : c.decodePayload env p = r
      cases r with
      | error e => rfl
      | ok v =>
        obtain ⟨data, c1⟩ := v
        have hwn := decodePayload_windows env c c1 p data hd
        simp only []
        by_cases hf : p.fragmentId = 0
        · rw [if_pos hf]
          by_cases he : c1.eof = true
          · rw [if_pos he]; exact hwn
          · rw [if_neg he]; simp only [R.bind, R.ok]; rw [ih]; exact hwn
        · rw [if_neg hf, ih]; exact hwn
    · split
      · simp only [R.bind, cleanup_no_error]; rw [ih]; rfl
      · exact ih c

/-- the packets a substream's window holds: of that substream, reliable -/
def GoodWin (sub : Nat) (w : Window Packet) : Prop := ∀ kq ∈ w.packets, kq.2.substreamId = sub ∧ hasReliable kq.2.flags = true

/-- **`process_reliable` refines `Receiver.arrive`**: with the window projected by `wireOf` and the application side related by
    `RRel`, handing a reliable packet of substream `sub` to a live L1 connection is the L2 receiver step on the projected packet -/
theorem processReliable_refines (env : Env) (sub : Nat) (c : Conn) (w : Window Packet)
    (core : Core) (nrel : Nat) (p : Packet) (hw : SubWF c sub) (hwl : sub < c.windows.length) (hwin : c.windows[sub]? = some w)
    (hgw : GoodWin sub w) (hp : p.substreamId = sub ∧ hasReliable p.flags = true) (hr : RRel c sub core) (hlive : c.eof = false)
    (hround : ∀ b, env.decompress (env.compress b) = .ok b)
    (hwell : Core.wellAt (wrap env (cipherOf c sub)) core ((w.update p.packetId p).2.map wireOf)) :
    ∃ w', (c.processReliable env p).c.windows[sub]? = some w' ∧ GoodWin sub w' ∧
      Receiver.arrive (wrap env (cipherOf c sub)) ⟨w.map wireOf, nrel, core⟩ (wireOf p) =
        ⟨w'.map wireOf, nrel + (w.update p.packetId p).2.length, (Receiver.arrive (wrap env (cipherOf c sub)) ⟨w.map wireOf, nrel, core⟩ (wireOf p)).core⟩ ∧
      RRel (c.processReliable env p).c sub (Receiver.arrive (wrap env (cipherOf c sub)) ⟨w.map wireOf, nrel, core⟩ (wireOf p)).core ∧
      SubWF (c.processReliable env p).c sub ∧ cipherOf (c.processReliable env p).c sub = cipherOf c sub := by
  have hcl : core.closed = false := by rw [hr.closed]; exact hlive
  unfold Conn.processReliable
  rw [hp.1, hwin]
  simp only []
  have hum := update_map wireOf w p.packetId p
  have hid : (wireOf p).id = p.packetId := rfl
  generalize hu : w.update p.packetId p = u at hum
  obtain ⟨w', rel⟩ := u
  simp only [] at hum ⊢
  have hwell' : Core.wellAt (wrap env (cipherOf c sub)) core (rel.map wireOf) := by
    rw [hu] at hwell; exact hwell
  have hgood_rel : ∀ q ∈ rel, q.substreamId = sub ∧ hasReliable q.flags = true := by
    intro q hq
    have : q ∈ (w.update p.packetId p).2 := by rw [hu]; exact hq
    cases update_mem w _ _ _ this with
    | inl h => rw [h]; exact hp
    | inr h => obtain ⟨k, hk⟩ := h; exact hgw (k, q) hk
  have hgw' : GoodWin sub w' := by
    intro kq hkq
    have : kq ∈ (w.update p.packetId p).1.packets := by rw [hu]; exact hkq
    cases update_packets_mem w _ _ _ this with
    | inl h => rw [h]; exact hp
    | inr h => exact hgw kq h
  have h0 := consume_refines env hround sub (cipherOf c sub) rel { c with windows := setAt c.windows sub w' } core
    ⟨hw.1, hw.2.1, hw.2.2⟩ rfl hgood_rel hwell' ⟨hr.closed, hr.out, hr.live⟩
  have harr : Receiver.arrive (wrap env (cipherOf c sub)) ⟨w.map wireOf, nrel, core⟩ (wireOf p) =
      ⟨w'.map wireOf, nrel + rel.length, core.consume (wrap env (cipherOf c sub)) (rel.map wireOf)⟩ := by
    simp only [Receiver.arrive, hcl, Bool.false_eq_true, if_false, hid]
    rw [hum]; simp
  refine ⟨w', ?_, hgw', ?_, ?_, h0.2.1, h0.2.2⟩
  · rw [consume_windows]; exact get_set_self _ _ _ hwl
  · rw [harr]
  · rw [harr]; exact h0.1

end Nx.L1

namespace Nx.L1
open Nx Nx.Prudp Nx.Chan Nx.Crypto

/-- without compression (or whenever `decompress` cannot fail) decoding a reliable packet of a well-formed substream raises nothing -/
theorem decodePayload_ok_of_id (env : Env) (hdec : ∀ b, ∃ x, env.decompress b = .ok x) (sub : Nat) (c : Conn) (p : Packet)
    (hw : SubWF c sub) (hsub : p.substreamId = sub) (hrel : hasReliable p.flags = true) : ∃ v, c.decodePayload env p = .ok v := by
  by_cases h1 : p.type = TYPE_DATA ∧ (!p.payload.isEmpty) = true
  · cases h3 : c.relCiphers[p.substreamId]? with
    | none =>
      rw [hsub] at h3
      have := List.getElem?_eq_none_iff.mp h3
      exact absurd hw.1 (by omega)
    | some sc =>
      cases h4 : c.cipherOn with
      | true =>
        rw [decodePayload_rel_on env c p sc h1 hrel h3 h4]
        obtain ⟨x, hx⟩ := hdec (rc4At sc.key sc.decPos p.payload)
        rw [hx]; exact ⟨_, rfl⟩
      | false =>
        rw [decodePayload_rel_off env c p sc h1 hrel h3 h4]
        obtain ⟨x, hx⟩ := hdec p.payload
        rw [hx]; exact ⟨_, rfl⟩
  · rw [decodePayload_plain env c p h1]; exact ⟨_, rfl⟩

/-- … and then the only exception the release loop can raise is the closed-resource one (a completed message behind a released
    DISCONNECT) -/
theorem consume_closedOnly_of_id (env : Env) (hdec : ∀ b, ∃ x, env.decompress b = .ok x) (sub : Nat) :
    ∀ (rel : List Packet) (c : Conn), SubWF c sub → (∀ q ∈ rel, q.substreamId = sub ∧ hasReliable q.flags = true) →
      ∀ e, (Conn.consume env sub rel c).err = some e → e = .closed := by
  intro rel
  induction rel with
  | nil => intro c _ _ e h; cases h
  | cons p ps ih =>
    intro c hw hgood e h
    have hp := hgood p List.mem_cons_self
    have hps : ∀ q ∈ ps, q.substreamId = sub ∧ hasReliable q.flags = true := fun q hq => hgood q (List.mem_cons_of_mem _ hq)
    simp only [Conn.consume] at h
    split at h
    · obtain ⟨v, hv⟩ := decodePayload_ok_of_id env hdec sub c p hw hp.1 hp.2
      obtain ⟨data, c1⟩ := v
      have hs := decodePayload_frame env c c1 p data hv
      rw [hv] at h
      simp only [] at h
      have hw1 : SubWF { c1 with fragBufs := setAt c1.fragBufs sub ((c1.fragBufs[sub]?.getD []) ++ data) } sub :=
        ⟨by show sub < c1.relCiphers.length; rw [hs.2.2.2.1]; exact hw.1,
         by show sub < (setAt c1.fragBufs sub _).length; simp only [setAt, List.length_set]; rw [hs.2.2.1]; exact hw.2.1,
         by show sub < c1.queues.length; rw [hs.2.1]; exact hw.2.2⟩
      split at h
      · split at h
        · cases h; rfl
        · simp only [R.bind, R.ok] at h
          refine ih _ ⟨?_, ?_, ?_⟩ hps e h
          · show sub < c1.relCiphers.length; rw [hs.2.2.2.1]; exact hw.1
          · show sub < (setAt c1.fragBufs sub _).length; simp only [setAt, List.length_set]; rw [hs.2.2.1]; exact hw.2.1
          · show sub < (setAt c1.queues sub _).length; simp only [setAt, List.length_set]; rw [hs.2.1]; exact hw.2.2
      · exact ih _ hw1 hps e h
    · split at h
      · simp only [R.bind, cleanup_no_error] at h
        exact ih c.cleanup.c hw hps e h
      · exact ih c hw hps e h

theorem processReliable_closedOnly_of_id (env : Env) (hdec : ∀ b, ∃ x, env.decompress b = .ok x) (sub : Nat) (c : Conn)
    (w : Window Packet) (p : Packet) (hw : SubWF c sub) (hwin : c.windows[sub]? = some w) (hgw : GoodWin sub w)
    (hp : p.substreamId = sub ∧ hasReliable p.flags = true) :
    ∀ e, (c.processReliable env p).err = some e → e = .closed := by
  intro e h
  unfold Conn.processReliable at h
  rw [hp.1, hwin] at h
  simp only [] at h
  generalize hu : w.update p.packetId p = u at h
  obtain ⟨w', rel⟩ := u
  simp only [] at h
  refine consume_closedOnly_of_id env hdec sub rel { c with windows := setAt c.windows sub w' } ⟨hw.1, hw.2.1, hw.2.2⟩ ?_ e h
  intro q hq
  have : q ∈ (w.update p.packetId p).2 := by rw [hu]; exact hq
  cases update_mem w _ _ _ this with
  | inl h => rw [h]; exact hp
  | inr h => obtain ⟨k, hk⟩ := h; exact hgw (k, q) hk

end Nx.L1
