import NxModel.Prudp.Channel
import NxModel.Crypto.Md5
import NxModel.DriverUtil
import NxModel.Prudp.Payload
import NxModel.Crypto.Inflate
/-! driver for the L2 channel model (one instance per direction and substream)

  new <ch> <start> <size> none                 create a channel without cipher (lite / stream transports)
  new <ch> <start> <size> rc4 <keyhex> <n>     RC4 with the given key; key stream precomputed for n bytes
  send <ch> <hex> | ping <ch> | disc <ch>      sender ops; answer: the wires appended `id:kind:frag:cipherhex` space separated
  begin <ch> <hex>                             `send` up to its fragment loop; answer: `pending=<n>` (fragments still to be emitted)
  frag <ch>                                    one turn of the fragment loop; answer: the wire appended (empty if nothing is pending)
  arrive <ch> <j>                              receiver op; answer: `ok=<opOk> nrel=<n> out=<count>`
  zon <ch>                                     the channel compresses (prudp.compression = zlib): payloads are framed `ratio ++ deflate`
  z <ch> <fragment hex> <z hex>                deflate oracle for one fragment (= zlib.compress(fragment)); answer `ok` iff the model's own
                                               inflater turns z back into the fragment (the oracle is validated, not trusted), else `bad`
  state <ch>                                   `next=<id> buf=<ids> frag=<hex> closed=<0|1> decpos=<n> nrel=<n> sent=<count> out=<hex,..>`
-/
open Nx Nx.Chan

structure Inst where
  name : String
  ch : Chan
  size : Nat
  ks : Array UInt8      -- empty = no cipher
  zlib : Bool := false
  zmap : List (Bytes × Bytes) := []     -- validated deflate oracle: fragment ↦ zlib.compress(fragment)

def ksCipher (ks : Array UInt8) : Cipher :=
  if ks.size = 0 then ⟨fun _ x => x, fun _ x => x⟩
  else
    let f : Nat → Bytes → Bytes := fun p x => (List.range x.length).zipWith (fun i b => b ^^^ ks[p + i]!) x
    ⟨f, f⟩

/-- with compression: encode = stream cipher after `ZlibCompression.compress` (deflate output looked up in the validated oracle),
    decode = `ZlibCompression.decompress` (the model's own inflater) after the stream cipher -/
def instCipher (i : Inst) : Cipher :=
  let c := ksCipher i.ks
  if !i.zlib then c else
  { enc := fun p x =>
      let z := ((i.zmap.find? (fun e => e.1 == x)).map (·.2)).getD []
      match Nx.Prudp.compressFrame x z with
      | .ok f => c.enc p f
      | .error _ => [],
    dec := fun p y =>
      let f := c.dec p y
      match Nx.Prudp.decompressFrame f (Nx.Crypto.zlibDecompress (f.drop 1)) with
      | .ok d => d
      | .error _ => [] }

def keystream (key : Bytes) (n : Nat) : Array UInt8 :=
  let rec go (fuel : Nat) (st : Nx.Crypto.Rc4) (acc : Array UInt8) : Array UInt8 :=
    match fuel with
    | 0 => acc
    | fuel + 1 => let (k, st') := Nx.Crypto.rc4Next st; go fuel st' (acc.push k)
  go n (Nx.Crypto.rc4Ksa key) (Array.mkEmpty n)

def showWire (w : Wire) : String :=
  let (k, f) := match w.kind with
    | .data fid => ("data", fid)
    | .ping => ("ping", 0)
    | .disconnect => ("disc", 0)
  s!"{w.id}:{k}:{f}:{hexOut w.cipher}"

def findInst (name : String) : List Inst → Option Inst
  | [] => none
  | i :: r => if i.name = name then some i else findInst name r

def setInst (i : Inst) : List Inst → List Inst
  | [] => [i]
  | j :: r => if j.name = i.name then i :: r else j :: setInst i r

def step (st : List Inst) (line : String) : List Inst × String :=
  match words line with
  | ["new", name, start, size, "none"] =>
    match start.toNat?, size.toNat? with
    | some start, some size => (setInst { name := name, ch := init start, size := size, ks := #[] } st, "ok")
    | _, _ => (st, "bad-op")
  | ["new", name, start, size, "rc4", key, n] =>
    match start.toNat?, size.toNat?, fromHex key, n.toNat? with
    | some start, some size, some key, some n => (setInst { name := name, ch := init start, size := size, ks := keystream key n } st, "ok")
    | _, _, _, _ => (st, "bad-op")
  | [op, name] =>
    match findInst name st with
    | none => (st, "bad-op")
    | some i =>
      let c := instCipher i
      match op with
      | "ping" =>
        let ch' := Chan.step c i.size i.ch .ping
        (setInst { i with ch := ch' } st, " ".intercalate ((ch'.s.log.drop i.ch.s.log.length).map showWire))
      | "frag" =>
        let ch' := Chan.step c i.size i.ch .frag
        (setInst { i with ch := ch' } st, " ".intercalate ((ch'.s.log.drop i.ch.s.log.length).map showWire))
      | "zon" => (setInst { i with zlib := true } st, "ok")
      | "disc" =>
        let ch' := Chan.step c i.size i.ch .disconnect
        (setInst { i with ch := ch' } st, " ".intercalate ((ch'.s.log.drop i.ch.s.log.length).map showWire))
      | "state" =>
        let r := i.ch.r
        let ids := (r.win.packets.map (·.1)).toArray.qsort (· < ·) |>.toList
        (st, s!"next={r.win.next} buf={",".intercalate (ids.map toString)} frag={hexOut r.core.reasm.buf} closed={if r.core.closed then 1 else 0} decpos={r.core.decPos} nrel={r.nrel} sent={i.ch.s.sent.length} out={",".intercalate (r.core.reasm.out.map hexOut)}")
      | _ => (st, "bad-op")
  | ["send", name, msg] =>
    match findInst name st, fromHex msg with
    | some i, some m =>
      let c := instCipher i
      let ch' := Chan.step c i.size i.ch (.send m)
      (setInst { i with ch := ch' } st, " ".intercalate ((ch'.s.log.drop i.ch.s.log.length).map showWire))
    | _, _ => (st, "bad-op")
  | ["z", name, frag, z] =>
    match findInst name st, fromHex frag, fromHex z with
    | some i, some f, some z =>
      if Nx.Crypto.zlibDecompress z == some f then (setInst { i with zmap := (f, z) :: i.zmap } st, "ok") else (st, "bad")
    | _, _, _ => (st, "bad-op")
  | ["begin", name, msg] =>
    match findInst name st, fromHex msg with
    | some i, some m =>
      let c := instCipher i
      let ch' := Chan.step c i.size i.ch (.begin m)
      (setInst { i with ch := ch' } st, s!"pending={ch'.s.pending.length}")
    | _, _ => (st, "bad-op")
  | ["arrive", name, j] =>
    match findInst name st, j.toNat? with
    | some i, some j =>
      let c := instCipher i
      let ok := opOk i.ch (.arrive j)
      let ch' := Chan.step c i.size i.ch (.arrive j)
      (setInst { i with ch := ch' } st, s!"ok={if ok then 1 else 0} nrel={ch'.r.nrel} out={ch'.r.core.reasm.out.length}")
    | _, _ => (st, "bad-op")
  | _ => (st, "bad-op")

def main : IO Unit := runState ([] : List Inst) step
