import NxModel.Nex.StreamsGeneric
import NxModel.Nex.Common
import NxModel.Nex.Errors
import NxModel.Nex.DateTime
import NxModel.Nex.C15Zone
import NxModel.Nex.StationURL
import NxModel.Nex.ObjWalk
import NxModel.Nex.HolderPoly
import NxModel.DriverUtil
/-! line-protocol driver for the NEX value models (C15)

value syntax (prefix tokens):  nat `123` | int `-5` | bool `T`/`F` | string `N` / `s<hex of utf-8>` | bytes `x<hex>`
  | variant `V0` `Vi <int>` `Vd <bits>` `Vb T|F` `Vs s<hex>` `Vt <nat>` | list `L <n> v…` | map `M <n> k v …`
type syntax (prefix tokens): u8 … variant | `list T` | `map K V`

  w <pid> <type> | <value>            -> ok <hex> | err <Name>
  r <pid> <type> | <hex>              -> ok <value> | <resthex>  | err <Name>
  dt.fields v / dt.make y mo d h mi s / dt.ts off v / dt.from off t / dt.civil z / dt.days y m d
  dt.zts v o0 T1 o1 T2 o2 .. / dt.zfrom t o0 T1 o1 ..   (zone table: offset o0, then offset oi from instant Ti on)
  url.repr <scheme> <n> (<key> <val>)*          (strings as s<hex>, ints as i<int>)
  url.parse N|s<hex>     url.get <field> <scheme> <n> (<key> <val>)*    url.w … / url.r <hex>
  res <code>  -> isError isSuccess mkError mkSuccess ;  res.name <code> ; res.named s<hex> ; errtab.add <code> s<hex> ; errtab.check
  struct.w T|F <n> (<ver> x<hex>)* ;  struct.r T|F <n> <k1..kn> <hex>
  any.w N|s<hex> x<hex> ; any.r <hex> ; holder.null T|F <hex>
  poly.w <world> | <class index> (<version> x<body>)*   -> ok <hex>                                  (NxModel/Nex/HolderPoly.lean)
  poly.r <world> | <hex>                                -> ok <class index> (<version> x<body>)* | <resthex>
     world: T|F (struct header) <n> (<class name s-hex> <index of its base class | -> <bytes its load reads>)*n
            <m> (<registered name s-hex> <class index>)*m      (the DataHolder.register calls in order)
  seq.w <pid> (| <type> | <value>)*      -> ok <hex> <tell after each write, comma separated | ->     (one StreamOut, several values)
  seq.r <pid> <hex> (| <type>)*          -> ok <value> ; <value> … | <resthex>                        (one StreamIn, several values)
  url.walk <url> (| <op>)*               -> ok <obs> ; <obs> … | <final url>  (one StationURL object, see NxModel/Nex/ObjWalk.lean)
     op:  set <key> <val> | del <key> | scheme s<hex> | copy | reparse | str | get <field> | write
     obs: done | t<s-hex> | p<val> | b<hex> | err <Name>
-/
open Nx Nx.Nex

def parseStr (t : String) : Option (Option String) :=
  if t = "N" then some none
  else if t.startsWith "s" then
    match fromHex (if t.length = 1 then "-" else (t.drop 1).toString) with
    | some b => (utf8Dec b).map (fun cs => some (String.ofList cs))
    | none => none
  else none

def parseBytes (t : String) : Option Bytes :=
  if t.startsWith "x" then fromHex (if t.length = 1 then "-" else (t.drop 1).toString) else none

def showStr : Option String → String
  | none => "N"
  | some s => "s" ++ toHex (utf8Enc s.toList)

def showBytes (b : Bytes) : String := "x" ++ toHex b
def showBool (b : Bool) : String := if b then "T" else "F"

partial def parseTy : List String → Option (Ty × List String)
  | "list" :: r => do let (t, r) ← parseTy r; pure (.list t, r)
  | "map" :: r => do let (k, r) ← parseTy r; let (v, r) ← parseTy r; pure (.map k v, r)
  | t :: r =>
    let base : Option Ty := match t with
      | "u8" => some .u8 | "u16" => some .u16 | "u32" => some .u32 | "u64" => some .u64
      | "s8" => some .s8 | "s16" => some .s16 | "s32" => some .s32 | "s64" => some .s64
      | "bool" => some .bool | "double" => some .double | "float" => some .float
      | "string" => some .string | "buffer" => some .buffer | "qbuffer" => some .qbuffer
      | "pid" => some .pid | "result" => some .result | "datetime" => some .datetime | "variant" => some .variant
      | _ => none
    base.map (·, r)
  | [] => none

def parseVariant : List String → Option (Variant × List String)
  | "V0" :: r => some (.none, r)
  | "Vi" :: v :: r => v.toInt?.map (fun x => (.int x, r))
  | "Vd" :: v :: r => v.toNat?.map (fun x => (.double x, r))
  | "Vb" :: v :: r => if v = "T" then some (.bool true, r) else if v = "F" then some (.bool false, r) else none
  | "Vs" :: v :: r => match parseStr v with
    | some (some s) => some (.str s, r)
    | _ => none
  | "Vt" :: v :: r => v.toNat?.map (fun x => (.datetime x, r))
  | _ => none

partial def parseVal : Ty → List String → Option (Val × List String)
  | .list t, "L" :: n :: r => do
    let n ← n.toNat?
    let rec go (k : Nat) (acc : List Val) (r : List String) : Option (List Val × List String) :=
      if k = 0 then some (acc.reverse, r) else do
        let (v, r) ← parseVal t r
        go (k - 1) (v :: acc) r
    let (l, r) ← go n [] r
    pure (.list l, r)
  | .map kt vt, "M" :: n :: r => do
    let n ← n.toNat?
    let rec goM (k : Nat) (acc : List (Val × Val)) (r : List String) : Option (List (Val × Val) × List String) :=
      if k = 0 then some (acc.reverse, r) else do
        let (a, r) ← parseVal kt r
        let (b, r) ← parseVal vt r
        goM (k - 1) ((a, b) :: acc) r
    let (l, r) ← goM n [] r
    pure (.map l, r)
  | .variant, r => do let (v, r) ← parseVariant r; pure (.variant v, r)
  | .bool, t :: r => if t = "T" then some (.bool true, r) else if t = "F" then some (.bool false, r) else none
  | .string, t :: r => (parseStr t).map (fun s => (.str s, r))
  | .buffer, t :: r => (parseBytes t).map (fun s => (.bytes s, r))
  | .qbuffer, t :: r => (parseBytes t).map (fun s => (.bytes s, r))
  | .s8, t :: r => t.toInt?.map (fun x => (.int x, r))
  | .s16, t :: r => t.toInt?.map (fun x => (.int x, r))
  | .s32, t :: r => t.toInt?.map (fun x => (.int x, r))
  | .s64, t :: r => t.toInt?.map (fun x => (.int x, r))
  | _, t :: r => t.toNat?.map (fun x => (.nat x, r))
  | _, [] => none

def showVariant : Variant → String
  | .none => "V0"
  | .int v => s!"Vi {v}"
  | .double v => s!"Vd {v}"
  | .bool b => "Vb " ++ showBool b
  | .str s => "Vs " ++ showStr (some s)
  | .datetime v => s!"Vt {v}"

partial def showVal : Val → String
  | .nat n => toString n
  | .int v => toString v
  | .bool b => showBool b
  | .str s => showStr s
  | .bytes b => showBytes b
  | .variant v => showVariant v
  | .list l => " ".intercalate (s!"L {l.length}" :: l.map showVal)
  | .map m => " ".intercalate (s!"M {m.length}" :: m.map (fun p => showVal p.1 ++ " " ++ showVal p.2))

/-- `T1 o1 T2 o2 …` -/
def zoneTab : List String → Option (List (Int × Int))
  | [] => some []
  | T :: o :: rest => match T.toInt?, o.toInt?, zoneTab rest with
    | some T, some o, some r => some ((T, o) :: r)
    | _, _, _ => none
  | [_] => none

def showRes (r : Except Err String) : String :=
  match r with
  | .ok s => "ok " ++ s
  | .error e => "err " ++ e.name

open StationURL in
def parsePVal (t : String) : Option PVal :=
  if t.startsWith "i" then (t.drop 1).toString.toInt?.map PVal.i
  else match parseStr t with
    | some (some s) => some (.s s.toList)
    | _ => none

open StationURL in
def showPVal : PVal → String
  | .s v => showStr (some (String.ofList v))
  | .i v => s!"i{v}"

open StationURL in
def parseURL : List String → Option (URL × List String)
  | sch :: n :: r => do
    let some (some sch) := parseStr sch | none
    let n ← n.toNat?
    let rec go : Nat → List (Str × PVal) → List String → Option (List (Str × PVal) × List String)
      | 0, acc, r => some (acc.reverse, r)
      | k + 1, acc, kk :: vv :: r => do
        let some (some kk) := parseStr kk | none
        let vv ← parsePVal vv
        go k ((kk.toList, vv) :: acc) r
      | _, _, _ => none
    let (ps, r) ← go n [] r
    pure (⟨sch.toList, ps⟩, r)
  | _ => none

open StationURL in
def showURL (u : URL) : String :=
  " ".intercalate (showStr (some (String.ofList u.scheme)) :: toString u.params.length ::
    u.params.map (fun p => showStr (some (String.ofList p.1)) ++ " " ++ showPVal p.2))

def nameOfStr (s : String) : Name := strName s
def strOfName (n : Name) : String := String.ofList (n.map Char.ofNat)

def splitBar (ts : List String) : List String × List String :=
  (ts.takeWhile (· ≠ "|"), (ts.dropWhile (· ≠ "|")).drop 1)

/-- token groups separated by `|` -/
def splitBars (ts : List String) : List (List String) :=
  let rec go : List String → List String → List (List String) → List (List String)
    | [], cur, acc => (cur.reverse :: acc).reverse
    | t :: r, cur, acc => if t = "|" then go r [] (cur.reverse :: acc) else go r (t :: cur) acc
  go ts [] []

def parseSeqItems : List (List String) → Option (List (Ty × Val))
  | [] => some []
  | tyT :: valT :: r => do
    let (ty, []) ← parseTy tyT | none
    let (v, []) ← parseVal ty valT | none
    let rest ← parseSeqItems r
    pure ((ty, v) :: rest)
  | _ => none

def parseSeqTypes : List (List String) → Option (List Ty)
  | [] => some []
  | tyT :: r => do
    let (ty, []) ← parseTy tyT | none
    let rest ← parseSeqTypes r
    pure (ty :: rest)

open StationURL ObjWalk in
def parseUOp : List String → Option UOp
  | ["set", k, v] => do
    let some (some k) := parseStr k | none
    let v ← parsePVal v
    pure (.set k.toList v)
  | ["del", k] => do
    let some (some k) := parseStr k | none
    pure (.del k.toList)
  | ["scheme", k] => do
    let some (some k) := parseStr k | none
    pure (.scheme k.toList)
  | ["copy"] => some .copy
  | ["reparse"] => some .reparse
  | ["str"] => some .str
  | ["get", f] => do
    let some (some f) := parseStr f | none
    pure (.get f.toList)
  | ["write"] => some .write
  | _ => none

open StationURL ObjWalk in
def showObs : Obs → String
  | .done => "done"
  | .text s => "t" ++ showStr (some (String.ofList s))
  | .pval v => "p" ++ showPVal v
  | .bytes b => "b" ++ hexOut b
  | .err e => "err " ++ e.name

open HolderPoly in
def parseClasses : Nat → List String → Option (ClassTable × List String)
  | 0, r => some ([], r)
  | k + 1, nm :: par :: sz :: r =>
    (match parseStr nm, (if par = "-" then some none else par.toNat?.map some), sz.toNat? with
    | some (some nm), some par, some sz =>
      (parseClasses k r).map (fun (cs, r) => (({ name := nm, parent := par, size := sz } : ClassDef) :: cs, r))
    | _, _, _ => none)
  | _, _ => none

open HolderPoly in
def parseRegs : Nat → List String → Option (Registry × List String)
  | 0, r => some ([], r)
  | k + 1, nm :: c :: r =>
    (match parseStr nm, c.toNat? with
    | some (some nm), some c => (parseRegs k r).map (fun (rs, r) => ((nm, c) :: rs, r))
    | _, _ => none)
  | _, _ => none

open HolderPoly in
def parseWorld : List String → Option (Bool × ClassTable × Registry)
  | hdr :: n :: rest =>
    (match n.toNat? with
    | some n =>
      (match parseClasses n rest with
      | some (cs, m :: rest) =>
        (match m.toNat? with
        | some m =>
          (match parseRegs m rest with
          | some (rs, []) => some (hdr = "T", cs, rs)
          | _ => none)
        | none => none)
      | _ => none)
    | none => none)
  | _ => none

def parseLevels : List String → Option (List (Nat × Bytes))
  | [] => some []
  | v :: b :: r =>
    (match v.toNat?, parseBytes b with
    | some v, some b => (parseLevels r).map ((v, b) :: ·)
    | _, _ => none)
  | _ => none

def showLevels (lv : List (Nat × Bytes)) : String := " ".intercalate (lv.map (fun p => s!"{p.1} {showBytes p.2}"))

def step (tbl : ErrTable) (line : String) : ErrTable × String :=
  let ts := words line
  match ts with
  | "w" :: pid :: rest =>
    let (tyT, valT) := splitBar rest
    (tbl, match pid.toNat?, parseTy tyT with
    | some pid, some (ty, []) =>
      (match parseVal ty valT with
      | some (v, []) => showRes ((wVal pid ty v).map hexOut)
      | _ => "bad-op")
    | _, _ => "bad-op")
  | "r" :: pid :: rest =>
    let (tyT, valT) := splitBar rest
    (tbl, match pid.toNat?, parseTy tyT, valT with
    | some pid, some (ty, []), [h] =>
      (match fromHex h with
      | some b => showRes ((rVal pid ty b).map (fun (v, r) => showVal v ++ " | " ++ hexOut r))
      | none => "bad-op")
    | _, _, _ => "bad-op")
  | "seq.w" :: pid :: rest => (tbl, match pid.toNat?, splitBars rest with
    | some pid, [] :: groups => (match parseSeqItems groups with
      | some items => showRes ((ObjWalk.wSeq pid items).map (fun b =>
          let tells := ObjWalk.wSeqTells pid 0 items
          hexOut b ++ " " ++ (if tells.isEmpty then "-" else ",".intercalate (tells.map toString))))
      | none => "bad-op")
    | _, _ => "bad-op")
  | "seq.r" :: pid :: rest => (tbl, match pid.toNat?, splitBars rest with
    | some pid, [h] :: groups => (match fromHex h, parseSeqTypes groups with
      | some b, some tys => showRes ((ObjWalk.rSeq pid tys b).map (fun (vs, r) =>
          " ; ".intercalate (vs.map showVal) ++ " | " ++ hexOut r))
      | _, _ => "bad-op")
    | _, _ => "bad-op")
  | "url.walk" :: rest => (tbl, match splitBars rest with
    | urlT :: groups => (match parseURL urlT, groups.mapM parseUOp with
      | some (u, []), some ops =>
        let (obs, fin) := ObjWalk.run u ops
        "ok " ++ " ; ".intercalate (obs.map showObs) ++ " | " ++ showURL fin
      | _, _ => "bad-op")
    | [] => "bad-op")
  | ["dt.fields", v] => (tbl, match v.toNat? with
    | some v => let f := DateTime.fields v; s!"ok {f.year} {f.month} {f.day} {f.hour} {f.minute} {f.second}"
    | none => "bad-op")
  | ["dt.make", y, mo, d, h, mi, s] => (tbl, match y.toNat?, mo.toNat?, d.toNat?, h.toNat?, mi.toNat?, s.toNat? with
    | some y, some mo, some d, some h, some mi, some s => s!"ok {DateTime.make ⟨y, mo, d, h, mi, s⟩}"
    | _, _, _, _, _, _ => "bad-op")
  | ["dt.ts", off, v] => (tbl, match off.toInt?, v.toNat? with
    | some off, some v => showRes ((DateTime.timestamp off v).map toString)
    | _, _ => "bad-op")
  | ["dt.from", off, t] => (tbl, match off.toInt?, t.toInt? with
    | some off, some t => showRes ((DateTime.fromTimestamp off t).map toString)
    | _, _ => "bad-op")
  | "dt.zts" :: v :: o0 :: tab => (tbl, match v.toNat?, o0.toInt?, zoneTab tab with
    | some v, some o0, some tab => showRes ((Zone.timestampZ (Zone.zTab o0 tab) v).map toString)
    | _, _, _ => "bad-op")
  | "dt.zfrom" :: t :: o0 :: tab => (tbl, match t.toInt?, o0.toInt?, zoneTab tab with
    | some t, some o0, some tab => showRes ((Zone.fromTimestampZ (Zone.zTab o0 tab) t).map toString)
    | _, _, _ => "bad-op")
  | ["dt.civil", z] => (tbl, match z.toNat? with
    | some z => let (y, m, d) := DateTime.civilOfDays z; s!"ok {y} {m} {d}"
    | none => "bad-op")
  | ["dt.days", y, m, d] => (tbl, match y.toNat?, m.toNat?, d.toNat? with
    | some y, some m, some d => s!"ok {DateTime.daysOfCivil y m d}"
    | _, _, _ => "bad-op")
  | "url.repr" :: rest => (tbl, match parseURL rest with
    | some (u, []) => "ok " ++ showStr (some (String.ofList (StationURL.repr u)))
    | _ => "bad-op")
  | ["url.parse", s] => (tbl, match parseStr s with
    | some s => showRes ((StationURL.parse (s.map String.toList)).map showURL)
    | none => "bad-op")
  | "url.get" :: field :: rest => (tbl, match parseStr field, parseURL rest with
    | some (some f), some (u, []) => showRes ((StationURL.getitem u f.toList).map showPVal)
    | _, _ => "bad-op")
  | "url.w" :: rest => (tbl, match parseURL rest with
    | some (u, []) => showRes ((StationURL.wStationURL u).map hexOut)
    | _ => "bad-op")
  | ["url.r", h] => (tbl, match fromHex h with
    | some b => showRes ((StationURL.rStationURL b).map (fun (u, r) => showURL u ++ " | " ++ hexOut r))
    | none => "bad-op")
  | ["res", c] => (tbl, match c.toNat? with
    | some c => s!"ok {showBool (Result.isError c)} {showBool (Result.isSuccess c)} {Result.mkError c} {Result.mkSuccess c}"
    | none => "bad-op")
  | ["res.name", c] => (tbl, match c.toNat? with
    | some c => "ok " ++ showStr (some (strOfName (Result.name tbl c)))
    | none => "bad-op")
  | ["res.named", s] => (tbl, match parseStr s with
    | some (some s) => showRes ((Result.errorNamed tbl (nameOfStr s)).map toString)
    | _ => "bad-op")
  | ["errtab.add", c, s] => (match c.toNat?, parseStr s with
    | some c, some (some s) => (tbl ++ [(c, nameOfStr s)], "ok")
    | _, _ => (tbl, "bad-op"))
  | ["errtab.check"] => (tbl, s!"ok {showBool (checkTable tbl)} {tbl.length} {(firstDup (tbl.map (·.1))).map (fun p => s!"{p.1},{p.2}") |>.getD "-"} {(firstDup (tbl.map (·.2))).map (fun p => s!"{p.1},{p.2}") |>.getD "-"}")
  | "struct.w" :: hdr :: n :: rest => (tbl, match n.toNat? with
    | some n =>
      let rec go : Nat → List (Nat × Bytes) → List String → Option (List (Nat × Bytes))
        | 0, acc, [] => some acc.reverse
        | k + 1, acc, v :: b :: r => (match v.toNat?, parseBytes b with
          | some v, some b => go k ((v, b) :: acc) r
          | _, _ => none)
        | _, _, _ => none
      (match go n [] rest with
      | some lv => showRes ((wStruct (hdr = "T") lv).map hexOut)
      | none => "bad-op")
    | none => "bad-op")
  | "struct.r" :: hdr :: n :: rest => (tbl, match n.toNat? with
    | some n =>
      let ks := (rest.take n).filterMap String.toNat?
      (match rest.drop n with
      | [h] => (match fromHex h with
        | some b =>
          if ks.length ≠ n then "bad-op" else
          let loaders : List (Nat → Bytes → Except Err ((Nat × Bytes) × Bytes)) :=
            ks.map (fun k => fun ver bs => match rd k bs with
              | .ok (x, r) => .ok ((ver, x), r)
              | .error e => .error e)
          showRes ((rStruct (hdr = "T") loaders b).map (fun (l, r) =>
            " ".intercalate (l.map (fun p => s!"{p.1} {showBytes p.2}")) ++ " | " ++ hexOut r))
        | none => "bad-op")
      | _ => "bad-op")
    | none => "bad-op")
  | ["any.w", name, payload] => (tbl, match parseStr name, parseBytes payload with
    | some name, some p => showRes ((wAnyData name p).map hexOut)
    | _, _ => "bad-op")
  | ["any.r", h] => (tbl, match fromHex h with
    | some b => showRes ((rAnyData b).map (fun ((n, p), r) => showStr n ++ " " ++ showBytes p ++ " | " ++ hexOut r))
    | none => "bad-op")
  | ["holder.null", hdr, h] => (tbl, match fromHex h with
    | some b =>
      let reg : Option String → Option (Bytes → Except Err (Unit × Bytes)) := fun n =>
        if n = some "NullData" then some (rNullData (hdr = "T")) else none
      showRes ((rDataHolder reg b).map (fun ((n, _), r) => showStr n ++ " | " ++ hexOut r))
    | none => "bad-op")
  | "poly.w" :: rest =>
    let (worldT, objT) := splitBar rest
    (tbl, match parseWorld worldT, objT with
    | some (hdr, cs, _), c :: lv =>
      (match c.toNat?, parseLevels lv with
      | some c, some lv => showRes ((HolderPoly.wHolder cs hdr ⟨c, lv⟩).map hexOut)
      | _, _ => "bad-op")
    | _, _ => "bad-op")
  | "poly.r" :: rest =>
    let (worldT, hT) := splitBar rest
    (tbl, match parseWorld worldT, hT with
    | some (hdr, cs, rs), [h] =>
      (match fromHex h with
      | some b => showRes ((HolderPoly.rHolder cs rs hdr b).map (fun (o, r) => s!"{o.cls} {showLevels o.levels} | {hexOut r}"))
      | none => "bad-op")
    | _, _ => "bad-op")
  | _ => (tbl, "bad-op")

def main : IO Unit := runState ([] : ErrTable) step
