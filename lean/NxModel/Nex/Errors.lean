import NxModel.Nex.Common
/-!
# `nintendo/nex/errors.py` — the code ↔ name table, and `Result.name()` / `Result.error(name)`

The table is *data extracted from the source by the translator* (`tools/nexval_errors.py`, which
reads the dict literal with `ast`, so duplicate keys are still visible). Names are lists of code
points. `namesDict`/`codesDict` rebuild the two Python dicts with dict semantics (a repeated key
keeps its first position and the last value).
-/
namespace Nx.Nex
open Nx

abbrev Name := List Nat
/-- entries of the `error_names` literal in source order: (code, name) -/
abbrev ErrTable := List (Nat × Name)

def dictGet {κ ν : Type} [BEq κ] (k : κ) : List (κ × ν) → Option ν
  | [] => none
  | (k', v) :: r => if k' == k then some v else dictGet k r

/-- `error_names = { code: name, ... }` -/
def namesDict (t : ErrTable) : List (Nat × Name) := t.foldl (fun d e => dictInsert e.1 e.2 d) []
/-- `error_codes = {name: code for code, name in error_names.items()}` -/
def codesDict (t : ErrTable) : List (Name × Nat) := (namesDict t).foldl (fun d e => dictInsert e.2 e.1 d) []

def nameOf (t : ErrTable) (code : Nat) : Option Name := dictGet code (namesDict t)
def codeOf (t : ErrTable) (name : Name) : Option Nat := dictGet name (codesDict t)

def strName (s : String) : Name := s.toList.map Char.toNat

/-- `Result.name()` -/
def Result.name (t : ErrTable) (code : Nat) : Name :=
  if Result.isSuccess code then strName "success"
  else (nameOf t (Result.key code)).getD (strName "unknown error")

/-- `Result.error(name)`: `KeyError` for an unknown name -/
def Result.errorNamed (t : ErrTable) (name : Name) : Except Err Nat :=
  match codeOf t name with
  | some c => .ok (Result.mkError c)
  | none => .error .key

/-! ## the Bool checker discharged by `decide +kernel` on the generated table -/

def notIn {α : Type} [BEq α] (x : α) : List α → Bool
  | [] => true
  | y :: r => !(y == x) && notIn x r

def nodupB {α : Type} [BEq α] : List α → Bool
  | [] => true
  | x :: r => notIn x r && nodupB r

/-- no duplicate code, no duplicate name, every code below the error bit and non-zero, no name that
`Result.name()` also uses for something else -/
def checkTable (t : ErrTable) : Bool :=
  nodupB (t.map (·.1)) && nodupB (t.map (·.2)) && t.all (fun e => decide (e.1 < errorMask)) &&
  notIn (strName "success") (t.map (·.2)) && notIn (strName "unknown error") (t.map (·.2))

/-- first pair of entries (indices) sharing a code or a name — failing-input search -/
def firstDup {α : Type} [BEq α] (l : List α) : Option (Nat × Nat) :=
  let rec go (i : Nat) : List α → Option (Nat × Nat)
    | [] => none
    | x :: r => match r.findIdx? (· == x) with
      | some j => some (i, i + 1 + j)
      | none => go (i + 1) r
  go 0 l

end Nx.Nex
