import NxModel.Crypto.Base64
import NxModel.Misc.Auth
import NxProofs.Bytes
/-! base64 as CPython does it: the lenient decoder inverts the encoder; the `-_` and nasc `.-*` variants too -/
namespace Nx.Crypto
open Nx

theorem b64Val_b64Char : ∀ s < 64, b64Val (b64Char s) = some s := by decide +kernel
theorem b64Char_ne_pad : ∀ s < 64, b64Char s ≠ b64Pad := by decide +kernel

theorem b8_toNat_self (a : UInt8) : b8 a.toNat = a := by
  simp [b8]

theorem go0 (s : Nat) (hs : s < 64) (r : Bytes) (left pads : Nat) (acc : Bytes) :
    a2bGo (b64Char s :: r) 0 left pads acc = a2bGo r 1 s 0 acc := by
  rw [a2bGo, if_neg (b64Char_ne_pad s hs), b64Val_b64Char s hs]; rfl

theorem go1 (s : Nat) (hs : s < 64) (r : Bytes) (left pads : Nat) (acc : Bytes) :
    a2bGo (b64Char s :: r) 1 left pads acc = a2bGo r 2 (s % 16) 0 (b8 (left * 4 + s / 16) :: acc) := by
  rw [a2bGo, if_neg (b64Char_ne_pad s hs), b64Val_b64Char s hs]; rfl

theorem go2 (s : Nat) (hs : s < 64) (r : Bytes) (left pads : Nat) (acc : Bytes) :
    a2bGo (b64Char s :: r) 2 left pads acc = a2bGo r 3 (s % 4) 0 (b8 (left * 16 + s / 4) :: acc) := by
  rw [a2bGo, if_neg (b64Char_ne_pad s hs), b64Val_b64Char s hs]; rfl

theorem go3 (s : Nat) (hs : s < 64) (r : Bytes) (left pads : Nat) (acc : Bytes) :
    a2bGo (b64Char s :: r) 3 left pads acc = a2bGo r 0 0 0 (b8 (left * 64 + s) :: acc) := by
  rw [a2bGo, if_neg (b64Char_ne_pad s hs), b64Val_b64Char s hs]; rfl

/-- **decode ∘ encode = id**, from any state the decoder can be in at a quad boundary -/
theorem a2bGo_b2a (d : Bytes) (left pads : Nat) (acc : Bytes) :
    a2bGo (b2a d) 0 left pads acc = .ok (acc.reverse ++ d) := by
  fun_induction b2a d generalizing left pads acc with
  | case1 a b c r ih =>
    have ha := a.toNat_lt; have hb := b.toNat_lt; have hc := c.toNat_lt
    rw [go0 _ (by omega), go1 _ (by omega), go2 _ (by omega), go3 _ (by omega), ih]
    have e1 : a.toNat / 4 * 4 + (a.toNat % 4 * 16 + b.toNat / 16) / 16 = a.toNat := by omega
    have e2 : (a.toNat % 4 * 16 + b.toNat / 16) % 16 * 16 + (b.toNat % 16 * 4 + c.toNat / 64) / 4 = b.toNat := by omega
    have e3 : (b.toNat % 16 * 4 + c.toNat / 64) % 4 * 64 + c.toNat % 64 = c.toNat := by omega
    rw [e1, e2, e3, b8_toNat_self, b8_toNat_self, b8_toNat_self]
    simp
  | case2 a b =>
    have ha := a.toNat_lt; have hb := b.toNat_lt
    rw [go0 _ (by omega), go1 _ (by omega), go2 _ (by omega)]
    have e1 : a.toNat / 4 * 4 + (a.toNat % 4 * 16 + b.toNat / 16) / 16 = a.toNat := by omega
    have e2 : (a.toNat % 4 * 16 + b.toNat / 16) % 16 * 16 + (b.toNat % 16 * 4) / 4 = b.toNat := by omega
    rw [e1, e2, b8_toNat_self, b8_toNat_self]
    simp [a2bGo]
  | case3 a =>
    have ha := a.toNat_lt
    rw [go0 _ (by omega), go1 _ (by omega)]
    have e1 : a.toNat / 4 * 4 + (a.toNat % 4 * 16) / 16 = a.toNat := by omega
    rw [e1, b8_toNat_self]
    simp [a2bGo]
  | case4 => simp [a2bGo]

/-- `base64.b64decode(base64.b64encode(d)) == d` -/
theorem a2b_b2a (d : Bytes) : a2b (b2a d) = .ok d := by
  unfold a2b; rw [a2bGo_b2a]; rfl

/-- characters the encoder can emit -/
def isB64 (c : UInt8) : Bool := (b64Val c).isSome || c == b64Pad

theorem isB64_b64Char : ∀ s < 64, isB64 (b64Char s) = true := by decide +kernel

theorem b2a_chars (d : Bytes) : ∀ c ∈ b2a d, isB64 c = true := by
  fun_induction b2a d with
  | case1 a b c r ih =>
    have ha := a.toNat_lt; have hb := b.toNat_lt; have hc := c.toNat_lt
    intro x hx
    simp only [List.mem_cons] at hx
    rcases hx with rfl | rfl | rfl | rfl | hx
    · exact isB64_b64Char _ (by omega)
    · exact isB64_b64Char _ (by omega)
    · exact isB64_b64Char _ (by omega)
    · exact isB64_b64Char _ (by omega)
    · exact ih x hx
  | case2 a b =>
    have ha := a.toNat_lt; have hb := b.toNat_lt
    intro x hx
    simp only [List.mem_cons, List.not_mem_nil, or_false] at hx
    rcases hx with rfl | rfl | rfl | rfl
    · exact isB64_b64Char _ (by omega)
    · exact isB64_b64Char _ (by omega)
    · exact isB64_b64Char _ (by omega)
    · decide
  | case3 a =>
    have ha := a.toNat_lt
    intro x hx
    simp only [List.mem_cons, List.not_mem_nil, or_false] at hx
    rcases hx with rfl | rfl | rfl | rfl
    · exact isB64_b64Char _ (by omega)
    · exact isB64_b64Char _ (by omega)
    · decide
    · decide
  | case4 => intro x hx; cases hx

theorem map_map_id_of (f g : UInt8 → UInt8) (l : Bytes) (h : ∀ c ∈ l, g (f c) = c) : (l.map f).map g = l := by
  induction l with
  | nil => rfl
  | cons x r ih =>
    simp only [List.map_cons, h x List.mem_cons_self, ih (fun c hc => h c (List.mem_cons_of_mem _ hc))]

theorem url_inv : ∀ n < 256, isB64 (b8 n) = true → urlToStd (stdToUrl (b8 n)) = b8 n := by decide +kernel

/-- `base64.b64decode(base64.b64encode(d, b"-_"), "-_") == d` -/
theorem b64url_roundtrip (d : Bytes) : b64urlDecode (b64urlEncode d) = .ok d := by
  unfold b64urlDecode b64urlEncode
  rw [map_map_id_of _ _ _ (fun c hc => by
    have := url_inv c.toNat c.toNat_lt; rw [b8_toNat_self] at this; exact this (b2a_chars d c hc)), a2b_b2a]

/-! ### the unpadded form (`.rstrip("=")`) and dauth's re-padding -/

theorem url_ne_pad : ∀ s < 64, stdToUrl (b64Char s) ≠ b64Pad := by decide +kernel

/-- the encoder's output is a pad-free body followed by 0..2 pads, total length a multiple of 4 -/
theorem b2a_split (d : Bytes) : ∃ body k, b2a d = body ++ List.replicate k b64Pad ∧
    (∀ c ∈ body, stdToUrl c ≠ b64Pad) ∧ (body.length + k) % 4 = 0 ∧ k ≤ 2 := by
  fun_induction b2a d with
  | case1 a b c r ih =>
    have ha := a.toNat_lt; have hb := b.toNat_lt; have hc := c.toNat_lt
    obtain ⟨body, k, h1, h2, h3, h4⟩ := ih
    refine ⟨_ :: _ :: _ :: _ :: body, k, by rw [h1]; rfl, ?_, by simp only [List.length_cons]; omega, h4⟩
    intro x hx
    simp only [List.mem_cons] at hx
    rcases hx with rfl | rfl | rfl | rfl | hx
    · exact url_ne_pad _ (by omega)
    · exact url_ne_pad _ (by omega)
    · exact url_ne_pad _ (by omega)
    · exact url_ne_pad _ (by omega)
    · exact h2 x hx
  | case2 a b =>
    have ha := a.toNat_lt; have hb := b.toNat_lt
    refine ⟨[_, _, _], 1, rfl, ?_, by simp, by decide⟩
    intro x hx
    simp only [List.mem_cons, List.not_mem_nil, or_false] at hx
    rcases hx with rfl | rfl | rfl
    · exact url_ne_pad _ (by omega)
    · exact url_ne_pad _ (by omega)
    · exact url_ne_pad _ (by omega)
  | case3 a =>
    have ha := a.toNat_lt
    refine ⟨[_, _], 2, rfl, ?_, by simp, by decide⟩
    intro x hx
    simp only [List.mem_cons, List.not_mem_nil, or_false] at hx
    rcases hx with rfl | rfl
    · exact url_ne_pad _ (by omega)
    · exact url_ne_pad _ (by omega)
  | case4 =>
    refine ⟨[], 0, rfl, ?_, by simp, by decide⟩
    intro x hx; cases hx

theorem dropWhile_pads (k : Nat) (l : Bytes) :
    (List.replicate k b64Pad ++ l).dropWhile (· = b64Pad) = l.dropWhile (· = b64Pad) := by
  induction k with
  | zero => rfl
  | succ n ih => simp [List.replicate_succ, List.dropWhile_cons, ih]

theorem rstripPad_append_pads (l : Bytes) (k : Nat) (h : ∀ c ∈ l, c ≠ b64Pad) :
    rstripPad (l ++ List.replicate k b64Pad) = l := by
  unfold rstripPad
  rw [List.reverse_append, List.reverse_replicate, dropWhile_pads]
  have : l.reverse.dropWhile (· = b64Pad) = l.reverse := by
    cases hl : l.reverse with
    | nil => rfl
    | cons x xs =>
      have hx : x ≠ b64Pad := h x (by rw [← List.mem_reverse, hl]; exact List.mem_cons_self)
      simp [List.dropWhile_cons, hx]
  rw [this, List.reverse_reverse]

/-- **dauth/aauth**: strip the padding, put it back as `device_token` does, decode with the `-_` alphabet -/
theorem b64url_nopad_roundtrip (d : Bytes) : b64urlDecodeRepad (b64urlEncodeNoPad d) = .ok d := by
  obtain ⟨body, k, h1, h2, h3, h4⟩ := b2a_split d
  have hfp : stdToUrl b64Pad = b64Pad := by decide
  have henc : b64urlEncode d = body.map stdToUrl ++ List.replicate k b64Pad := by
    unfold b64urlEncode; rw [h1, List.map_append, List.map_replicate, hfp]
  have hstrip : b64urlEncodeNoPad d = body.map stdToUrl := by
    unfold b64urlEncodeNoPad
    rw [henc, rstripPad_append_pads _ _ (fun c hc => by
      obtain ⟨x, hx, rfl⟩ := List.mem_map.mp hc; exact h2 x hx)]
  unfold b64urlDecodeRepad
  rw [hstrip, List.length_map]
  have hre : (if body.length % 4 ≠ 0 then body.map stdToUrl ++ List.replicate (4 - body.length % 4) b64Pad
      else body.map stdToUrl) = b64urlEncode d := by
    rw [henc]
    split
    · have : 4 - body.length % 4 = k := by omega
      rw [this]
    · have : k = 0 := by omega
      subst this; simp
  rw [hre, b64url_roundtrip]

end Nx.Crypto

namespace Nx.Misc
open Nx Nx.Crypto

theorem nasc_inv : ∀ n < 256, isB64 (b8 n) = true → nascBack (nascFwd (b8 n)) = b8 n := by decide +kernel

/-- `nasc.b64decode(nasc.b64encode(d)) == d` -/
theorem nascDecode_nascEncode (d : Bytes) : nascDecode (nascEncode d) = .ok d := by
  unfold nascDecode nascEncode
  rw [map_map_id_of _ _ _ (fun c hc => by
    have := nasc_inv c.toNat c.toNat_lt; rw [b8_toNat_self] at this; exact this (b2a_chars d c hc)), a2b_b2a]

/-- `nasc.decode_form(nasc.encode_form(f)) == f` -/
theorem nascForm_roundtrip (f : List (Bytes × Bytes)) : nascDecodeForm (nascEncodeForm f) = .ok f := by
  induction f with
  | nil => rfl
  | cons kv r ih =>
    obtain ⟨k, v⟩ := kv
    unfold nascEncodeForm at ih ⊢
    simp only [List.map_cons, nascDecodeForm, nascDecode_nascEncode, ih]

/-- the nasc alphabet never emits `+`, `/` or `=` (they are what the form transport would mangle) -/
theorem nascEncode_safe (d : Bytes) : ∀ c ∈ nascEncode d, c ≠ 43 ∧ c ≠ 47 ∧ c ≠ 61 := by
  intro c hc
  unfold nascEncode at hc
  obtain ⟨x, _, rfl⟩ := List.mem_map.mp hc
  unfold nascFwd
  split
  · decide
  · split
    · decide
    · split
      · decide
      · rename_i h1 h2 h3; exact ⟨h1, h2, h3⟩

end Nx.Misc
