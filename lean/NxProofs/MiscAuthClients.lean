import NxModel.Misc.AuthClients
/-! facts about the client objects: operation sequences compose, a request is authenticated with the
    values the knobs have when it is issued, whatever happened on the object before -/
namespace Nx.Misc
open Nx Nx.Crypto

/-! ## HppClient -/

theorem hppRun_append (c : HppClient) (a b : List HppOp) :
    hppRun c (a ++ b) = ((hppRun (hppRun c a).1 b).1, (hppRun c a).2 ++ (hppRun (hppRun c a).1 b).2) := by
  induction a generalizing c with
  | nil => simp [hppRun]
  | cons op r ih => simp [hppRun, ih, List.append_assoc]

/-- the request issued after ANY history is the last thing sent, it carries the signatures for the CURRENT
    access key / password / pid, and the call-id counter advances modulo 2^32 -/
theorem hppRun_then_request (c : HppClient) (ops : List HppOp) (data : Bytes) :
    hppRun c (ops ++ [.request data]) =
      ({ (hppRun c ops).1 with callId := ((hppRun c ops).1.callId + 1) % 2 ^ 32 },
       (hppRun c ops).2 ++ [hppSend (hppRun c ops).1 data]) := by
  rw [hppRun_append]; simp [hppRun, hppStep]

/-- what a request sends depends on the current knob values only: a reused client and a freshly constructed
    one (same access key, password, pid; call-id counter put to the same value) send the same -/
theorem hppSend_eq_fresh (c : HppClient) (data : Bytes) :
    hppSend c data = hppSend { HppClient.fresh c.accessKey c.password c.pid with callId := c.callId } data := rfl

theorem hppRun_setAccessKey (c : HppClient) (ops : List HppOp) (k : Bytes) :
    (hppRun c (ops ++ [.setAccessKey k])).1 = { (hppRun c ops).1 with accessKey := k } := by
  rw [hppRun_append]; simp [hppRun, hppStep]

theorem hppRun_setPassword (c : HppClient) (ops : List HppOp) (p : Bytes) :
    (hppRun c (ops ++ [.setPassword p])).1 = { (hppRun c ops).1 with password := p } := by
  rw [hppRun_append]; simp [hppRun, hppStep]

theorem hppRun_setPid (c : HppClient) (ops : List HppOp) (n : Nat) :
    (hppRun c (ops ++ [.setPid n])).1 = { (hppRun c ops).1 with pid := n } := by
  rw [hppRun_append]; simp [hppRun, hppStep]

/-! ## dict -/

theorem dictGet_dictSet_same (d : Dict) (k v : Bytes) : dictGet (dictSet d k v) k = .ok v := by
  unfold dictSet
  by_cases h : d.any (fun e => e.1 = k) = true
  · rw [if_pos h]
    induction d with
    | nil => simp at h
    | cons e r ih =>
      by_cases he : e.1 = k
      · simp [dictGet, he]
      · have hr : r.any (fun e => e.1 = k) = true := by simpa [he] using h
        have := ih hr
        simp only [dictGet, List.map, if_neg he, List.find?, decide_eq_false he] at this ⊢
        exact this
  · rw [if_neg h]
    have hn : d.find? (fun e => decide (e.1 = k)) = none := by
      rw [List.find?_eq_none]; intro e he
      simp only [List.any_eq_true, not_exists, not_and] at h
      simpa using h e he
    simp [dictGet, List.find?_append, hn]

theorem dictGet_dictSet_other (d : Dict) (k k' v : Bytes) (hk : k' ≠ k) :
    dictGet (dictSet d k v) k' = dictGet d k' := by
  unfold dictSet
  by_cases h : d.any (fun e => e.1 = k) = true
  · rw [if_pos h]
    clear h
    induction d with
    | nil => rfl
    | cons e r ih =>
      by_cases he : e.1 = k
      · have hne : ¬ e.1 = k' := fun hh => hk (hh.symm.trans he)
        simp only [dictGet, List.map, if_pos he, List.find?, decide_eq_false (Ne.symm hk), decide_eq_false hne] at ih ⊢
        exact ih
      · by_cases he' : e.1 = k'
        · simp only [dictGet, List.map, if_neg he, List.find?, decide_eq_true he']
        · simp only [dictGet, List.map, if_neg he, List.find?, decide_eq_false he'] at ih ⊢
          exact ih
  · rw [if_neg h]
    unfold dictGet
    rw [List.find?_append]
    cases hf : d.find? (fun e => decide (e.1 = k')) with
    | some e => simp
    | none => simp [List.find?, Ne.symm hk]

/-! ## DAuthClient -/

theorem dauthRun_append (c : DAuthClient) (a b : List DAuthOp) :
    dauthRun c (a ++ b) = ((dauthRun (dauthRun c a).1 b).1, (dauthRun c a).2 ++ (dauthRun (dauthRun c a).1 b).2) := by
  induction a generalizing c with
  | nil => simp [dauthRun]
  | cons op r ih => simp [dauthRun, ih, List.append_assoc]

/-- a token request after ANY history is answered from the current state of the object and leaves it unchanged -/
theorem dauthRun_then_token (c : DAuthClient) (ops : List DAuthOp) (e : Bool) (ch : Bytes) (dt : List Nat)
    (cid : Nat) (v : Bytes) :
    dauthRun c (ops ++ [.token e ch dt cid v]) =
      ((dauthRun c ops).1, (dauthRun c ops).2 ++ [.token ((dauthRun c ops).1.token e ch dt cid v)]) := by
  rw [dauthRun_append]; simp [dauthRun, dauthStep]

/-- the MAC of the object is the stateless key ladder applied to the two keys found in the dict NOW -/
theorem DAuthClient.mac_eq (c : DAuthClient) (form data kek mk : Bytes)
    (h1 : dictGet c.keys (ascii "aes_kek_generation_source") = .ok kek)
    (h2 : dictGet c.keys (masterKeyName c.keygen) = .ok mk) :
    c.mac form data = dauthMac kek mk data form := by
  simp [DAuthClient.mac, h1, h2, bind, Except.bind]

/-- switching the system version makes the next MAC use the master key of the NEW key generation -/
theorem dauth_mac_after_setVersion (c : DAuthClient) (g : Nat) (d : Bytes) (a : Bool) (form data kek mk : Bytes)
    (h1 : dictGet c.keys (ascii "aes_kek_generation_source") = .ok kek)
    (h2 : dictGet c.keys (masterKeyName g) = .ok mk) :
    (dauthRun c [.setVersion g d a, .mac form data]).2 = [.mac (dauthMac kek mk data form)] := by
  simp [dauthRun, dauthStep, DAuthClient.mac, h1, h2, bind, Except.bind]

theorem kekName_head : (ascii "aes_kek_generation_source").head? = some 97 := by decide +kernel

theorem masterKeyName_head (g : Nat) : (masterKeyName g).head? = some 109 := by
  have h : (ascii "master_key_").head? = some 109 := by decide +kernel
  unfold masterKeyName
  simp only []
  cases hh : ascii "master_key_" with
  | nil => rw [hh] at h; simp at h
  | cons a r => rw [hh] at h; simpa using h

/-- the kek source is never mistaken for a master key: the two dict keys differ for every key generation -/
theorem kekName_ne_masterKeyName (g : Nat) : ascii "aes_kek_generation_source" ≠ masterKeyName g := by
  intro h
  have := congrArg List.head? h
  rw [kekName_head, masterKeyName_head] at this
  simp at this

/-- replacing a key in the dict makes the next MAC use the NEW key -/
theorem dauth_mac_after_setKey_master (c : DAuthClient) (mk form data kek : Bytes)
    (h1 : dictGet c.keys (ascii "aes_kek_generation_source") = .ok kek) :
    (dauthRun c [.setKey (masterKeyName c.keygen) mk, .mac form data]).2 = [.mac (dauthMac kek mk data form)] := by
  simp [dauthRun, dauthStep, DAuthClient.mac, dictGet_dictSet_same, dictGet_dictSet_other _ _ _ _ (kekName_ne_masterKeyName c.keygen), h1,
    bind, Except.bind]

end Nx.Misc
