"""C20 helper: sequences that create, mutate, copy, load and reset SEVERAL Settings objects in mixed order inside
one process.  Each scenario runs on the real class in a *fresh interpreter* (so that "the first object ever created
in the process" is under the scenario's control), on an independent dict-based reference with its own parser of the
shipped .cfg files, and on the compiled Lean model (`objseq`).

ops:  ("new", name|"-")  ("set", k, key, value)  ("copy", k)  ("load", k, name)  ("reset", k)
      ("configure", k, access_key, nex_version, client_version)   -- expanded to sets for the model
"""
import json, os, subprocess, sys

PY = "/venv/bin/python"

RUNNER = r'''
import sys, json
sys.path.insert(0, sys.argv[1])
from nintendo.nex import settings
names = json.loads(sys.argv[2]); ops = json.loads(sys.argv[3])
def hx(s): return s.encode().hex() if s else "-"
def dump(s):
    out = []
    for n in names:
        try: v = s[n]
        except KeyError: out.append("unset"); continue
        if isinstance(v, bool): out.append("bool:%r" % v)
        elif isinstance(v, int): out.append("int:%d" % v)
        elif isinstance(v, float): out.append("float:%r" % v)
        elif isinstance(v, str): out.append("str:" + hx(v))
        else: out.append("other:%r" % (v,))
    return ",".join(out)
def en(e):
    for c in (KeyError, ValueError, TypeError):
        if isinstance(e, c): return c.__name__
    return "Other"
objs, res = [], []
for op in ops:
    try:
        if op[0] == "new": objs.append(settings.Settings() if op[1] == "-" else settings.load(op[1]))
        elif op[0] == "default": objs.append(settings.default())
        elif op[0] == "set": objs[op[1]][op[2]] = op[3]
        elif op[0] == "copy": objs.append(objs[op[1]].copy())
        elif op[0] == "load": objs[op[1]].load(op[2])
        elif op[0] == "reset": objs[op[1]].reset()
        elif op[0] == "configure": objs[op[1]].configure(op[2], op[3], op[4])
        st = "ok"
    except Exception as e:
        st = "err " + en(e)
    res.append([st, [dump(o) for o in objs]])
print(json.dumps(res))
'''


def run_real(repo, names, ops, timeout=120):
    p = subprocess.run([PY, "-c", RUNNER, repo, json.dumps(names), json.dumps(ops)], stdout=subprocess.PIPE, stderr=subprocess.PIPE, text=True, timeout=timeout)
    if p.returncode != 0:
        return None, p.stderr[-800:]
    return json.loads(p.stdout.strip().splitlines()[-1]), None


# ---------------------------------------------------------------- independent reference
def parse_cfg(text_lines, types):
    out = []
    for line in text_lines:
        line = line.strip()
        if line:
            k, v = line.split("=", 1)
            out.append((k.strip(), v.strip()))
    return out


def hx(s): return s.encode().hex() if s else "-"


def ref_dump(d, names):
    out = []
    for n in names:
        if n not in d: out.append("unset"); continue
        v = d[n]
        if isinstance(v, bool): out.append("bool:%r" % v)
        elif isinstance(v, int): out.append("int:%d" % v)
        elif isinstance(v, float): out.append("float:%r" % v)
        else: out.append("str:" + hx(v))
    return ",".join(out)


def reference(ops, cfgs, fields):
    """what the documented semantics give: every object owns its dict; defaults always come from default.cfg"""
    types = {k: {"int": int, "str": str, "float": float}[t] for k, t in fields}
    names = [k for k, _ in fields]
    parsed = {n: parse_cfg(l, types) for n, l in cfgs.items()}

    def apply(d, pairs):
        for k, v in pairs:
            d[k] = types[k](v)
    objs, res = [], []
    for op in ops:
        st = "ok"
        try:
            if op[0] in ("new", "default"):
                d = {}; apply(d, parsed["default"])
                if op[0] == "new" and op[1] != "-": apply(d, parsed[op[1]])
                objs.append(d)
            elif op[0] == "set":
                if op[2] not in types: raise KeyError(op[2])
                objs[op[1]][op[2]] = types[op[2]](op[3])
            elif op[0] == "copy": objs.append(dict(objs[op[1]]))
            elif op[0] == "load": apply(objs[op[1]], parsed[op[2]])
            elif op[0] == "reset": apply(objs[op[1]], parsed["default"])
            elif op[0] == "configure":
                d = objs[op[1]]
                d["prudp.access_key"] = str(op[2]); d["nex.version"] = int(op[3])
                if op[3] >= 40400:
                    if op[4] is None: raise ValueError("client version")
                    d["nex.client_version"] = int(op[4])
        except (KeyError, ValueError, TypeError) as e:
            st = "err " + type(e).__name__
        res.append([st, [ref_dump(o, names) for o in objs]])
    return res


# ---------------------------------------------------------------- model line
def pyval_tok(v):
    if v is None: return "N"
    if v is True: return "T"
    if v is False: return "F"
    if isinstance(v, int): return "i%d" % v
    return "s" + hx(v)


def model_ops(ops):
    """the same sequence for the Lean driver; `configure` is its assignments (it stops at the first failing one),
    returns (tokens, index map: for each real op the index of the last model op belonging to it)"""
    toks, last = [], []
    for op in ops:
        if op[0] == "new": toks.append("new:" + op[1])
        elif op[0] == "default": toks.append("new:-")
        elif op[0] == "set": toks.append("set:%d:%s=%s" % (op[1], hx(op[2]), pyval_tok(op[3])))
        elif op[0] == "copy": toks.append("copy:%d" % op[1])
        elif op[0] == "load": toks.append("load:%d:%s" % (op[1], op[2]))
        elif op[0] == "reset": toks.append("reset:%d" % op[1])
        elif op[0] == "configure":
            toks.append("set:%d:%s=%s" % (op[1], hx("prudp.access_key"), pyval_tok(op[2])))
            toks.append("set:%d:%s=%s" % (op[1], hx("nex.version"), pyval_tok(op[3])))
            if op[3] >= 40400 and op[4] is not None:
                toks.append("set:%d:%s=%s" % (op[1], hx("nex.client_version"), pyval_tok(op[4])))
        last.append(len(toks) - 1)
    return toks, last


# ---------------------------------------------------------------- scenarios
def scenarios(rng, names, n_random):
    S = []
    # the first object of the process is written to, then others are created / reset / loaded
    S.append([("new", "switch"), ("configure", 0, "0123abcd", 40500, 7), ("set", 0, "prudp.fragment_size", 1000), ("default",), ("new", "3ds"),
              ("new", "friends"), ("new", "switch"), ("copy", 0), ("reset", 1), ("new", "-")])
    S.append([("default",), ("set", 0, "nex.pid_size", 8), ("set", 0, "prudp.access_key", "cafe"), ("new", "-"), ("default",), ("new", "3ds"), ("reset", 0), ("new", "-")])
    S.append([("new", "-"), ("load", 0, "switch"), ("new", "-"), ("new", "friends"), ("reset", 0), ("load", 0, "3ds"), ("new", "switch"), ("copy", 3)])
    S.append([("new", "3ds"), ("copy", 0), ("set", 1, "prudp.version", 1), ("set", 0, "kerberos.key_size", 16), ("new", "-"), ("new", "3ds"), ("reset", 1), ("reset", 0), ("new", "friends")])
    S.append([("new", "friends"), ("reset", 0), ("set", 0, "prudp.resend_timeout", "2.5"), ("new", "friends"), ("default",), ("copy", 1), ("set", 3, "nex.version", 30500), ("new", "-")])
    S.append([("default",), ("copy", 0), ("set", 1, "prudp.transport", 2), ("new", "-"), ("set", 0, "prudp.transport", 1), ("new", "-"), ("copy", 0), ("reset", 1), ("new", "switch")])
    S.append([("default",), ("new", "switch"), ("set", 1, "nex.pid_size", 4), ("new", "switch"), ("reset", 1), ("set", 1, "prudp.bogus", 1), ("set", 1, "prudp.version", "x"), ("new", "-")])
    cfgs = ["-", "default", "3ds", "friends", "switch"]
    vals = [0, 1, 2, 8, 16, 1300, "7", "abc", "0.5", True]
    for _ in range(n_random):
        ops = [rng.choice([("new", rng.choice(cfgs)), ("default",)])]
        n = 1
        for _ in range(rng.randint(5, 12)):
            r = rng.random()
            k = rng.randrange(n)
            if r < 0.35: ops.append(("set", k if rng.random() < 0.5 else 0, rng.choice(names), rng.choice(vals)))
            elif r < 0.5: ops.append(("new", rng.choice(cfgs))); n += 1
            elif r < 0.6: ops.append(("default",)); n += 1
            elif r < 0.72: ops.append(("copy", k)); n += 1
            elif r < 0.84: ops.append(("load", k, rng.choice(cfgs[1:])))
            elif r < 0.94: ops.append(("reset", k))
            else: ops.append(("configure", k, "ab12", rng.choice([30000, 40400]), rng.choice([None, 3])))
        ops.append(("new", rng.choice(cfgs)))
        S.append(ops)
    return [[list(o) for o in ops] for ops in S]
