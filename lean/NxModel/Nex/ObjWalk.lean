import NxModel.Nex.StreamsGeneric
import NxModel.Nex.StationURL
/-!
# State carried on ONE value object across a sequence of operations (C15)

The value types of the property that have mutators are modelled as *walks*: a starting value, a list of
operations applied to the one object, and the list of everything an observer sees on the way.

* `StationURL`: `url[k] = v` / `url.params[k] = v` (`set`), `url.params.pop(k, None)` (`del`),
  `url.urlscheme = s` (`scheme`), `url = url.copy()` (`copy`), `url = StationURL.parse(str(url))`
  (`reparse`) and the observers `str(url)`, `url[f]`, `StreamOut.stationurl(url)`.
  The object has no state besides scheme and parameter dict, so every observation is a function of the
  *logical content* (`content`) — that is theorem `run_obs` in `NxProofs/NexObjWalk.lean`; the code is tied
  to `run` by the correspondence (`url.walk` lines of the driver).
* one `StreamOut` receiving several typed values / one `StreamIn` yielding them (`wSeq`/`rSeq`).
-/
namespace Nx.Nex.ObjWalk
open Nx Nx.Nex Nx.Nex.StationURL

/-! ## several values through one stream -/

/-- one `StreamOut`, values written one after the other -/
def wSeq (pidSize : Nat) : List (Ty × Val) → Except Err Bytes
  | [] => .ok []
  | (t, v) :: r => do let a ← wVal pidSize t v; let b ← wSeq pidSize r; pure (a ++ b)

/-- `tell()` after every write of the sequence (only meaningful when `wSeq` succeeds) -/
def wSeqTells (pidSize : Nat) : Nat → List (Ty × Val) → List Nat
  | _, [] => []
  | pos, (t, v) :: r =>
    match wVal pidSize t v with
    | .ok a => (pos + a.length) :: wSeqTells pidSize (pos + a.length) r
    | .error _ => []

/-- one `StreamIn`, values read one after the other; returns the values and the unread rest -/
def rSeq (pidSize : Nat) : List Ty → Bytes → Except Err (List Val × Bytes)
  | [], b => .ok ([], b)
  | t :: r, b => do
    let (v, b1) ← rVal pidSize t b
    let (vs, b2) ← rSeq pidSize r b1
    pure (v :: vs, b2)

/-! ## StationURL walks -/

inductive UOp where
  | set (k : Str) (v : PVal)
  | del (k : Str)
  | scheme (s : Str)
  | copy
  | reparse
  | str
  | get (f : Str)
  | write
  deriving DecidableEq, Repr

inductive Obs where
  | done                      -- a mutator that returned normally
  | text (s : Str)
  | pval (v : PVal)
  | bytes (b : Bytes)
  | err (e : Err)
  deriving DecidableEq, Repr

/-- `url[k] = v` -/
def setitem (u : URL) (k : Str) (v : PVal) : URL := ⟨u.scheme, dictInsert k v u.params⟩

/-- `url.params.pop(k, None)` -/
def delitem (u : URL) (k : Str) : URL := ⟨u.scheme, u.params.filter (fun p => !(p.1 == k))⟩

/-- `url.copy()` = `StationURL(self.urlscheme, **self.params)`: a parameter named like a positional argument is a TypeError -/
def copy (u : URL) : Except Err URL :=
  if u.params.any (fun p => p.1 = "scheme".toList ∨ p.1 = "self".toList) then .error .type else .ok u

/-- the mutating part of an operation: the object after it (unchanged when the operation raises) -/
def content1 (u : URL) : UOp → URL
  | .set k v => setitem u k v
  | .del k => delitem u k
  | .scheme s => ⟨s, u.params⟩
  | .copy => u
  | .reparse => match parse (some (repr u)) with
    | .ok u' => u'
    | .error _ => u
  | .str => u
  | .get _ => u
  | .write => u

/-- the logical content after a sequence of operations -/
def content (u : URL) (ops : List UOp) : URL := ops.foldl content1 u

/-- what the operation shows when applied to an object with logical content `u` -/
def observe (u : URL) : UOp → Obs
  | .set _ _ => .done
  | .del _ => .done
  | .scheme _ => .done
  | .copy => match copy u with
    | .ok _ => .done
    | .error e => .err e
  | .reparse => match parse (some (repr u)) with
    | .ok _ => .done
    | .error e => .err e
  | .str => .text (repr u)
  | .get f => match getitem u f with
    | .ok v => .pval v
    | .error e => .err e
  | .write => match wStationURL u with
    | .ok b => .bytes b
    | .error e => .err e

/-- the walk: the observation of every operation in order, and the final object -/
def run (u : URL) : List UOp → List Obs × URL
  | [] => ([], u)
  | op :: r =>
    let o := observe u op
    let (os, u') := run (content1 u op) r
    (o :: os, u')

end Nx.Nex.ObjWalk
