import NxProofs.RmcClient
namespace Nx.C10
open Nx Nx.Rmc Nx.RmcClient

theorem dup_unknown_inert_raw (s : State) (m : Msg) (h : dlookup m.callId s.requests = none) :
    step s (.recvResponse m) = (s, [.warnInvalidCallId m.callId]) :=
  step_unknown_response s m h

end Nx.C10
