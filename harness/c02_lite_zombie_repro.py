"""Observation on the UNCHANGED tree (found while building harness/c02_return.py, not judged by the check):

PRUDP lite (WebSocket / TCP) carries no session id (`PRUDPLiteMessage.decode` sets session_id = 0). ONE long-lived client transport:
the application gives up a connection WITHOUT a DISCONNECT reaching the server (its `transport.connect()` block is cancelled, or left
by an exception) and connects again at once - the port table hands out the same local port. The server still holds the OLD
connection, alive and CONNECTED: `process_connect` finds the record, acknowledges the CONNECT from it and starts nothing. Because
no session id distinguishes them, every packet of the new client is accepted by the OLD server connection: its DATA (sequence ids
start again at 2) is ACKNOWLEDGED as a duplicate and delivered to nobody, its keep-alives are acknowledged, and it acknowledges the
old connection's keep-alives. Neither side ever times out: the client's recv() blocks for as long as one cares to wait, the server
never forgets the peer, the old handler is never released. (On UDP the random session id rejects the packets - 255 times out of 256 -
and the new connection dies within (resend_limit+1)*resend_timeout.)

    cd /verif/harness && /venv/bin/python c02_lite_zombie_repro.py          # exit 1 if the zombie session is observed

Related to C02 ("after a connection has ended for any reason ... the server forgets the peer ... the same address can connect
again") and to C01 (acknowledged data that is never delivered); reported to the lead, not entered as a finding by the builder."""
import sys
import anyio
sys.path.insert(0, "/verif/harness")
import prudp_session as ps
from sim import Sim, quant
from nintendo.nex import prudp


def main(wait=60.0):
    cfg = ps.Cfg(transport="lite", version=1, fragment_size=16, resend_timeout=0.5, resend_limit=1, ping_timeout=1.0)
    res = {}
    with Sim(1) as sim:
        s = cfg.settings()
        sim.install_factories(fixed_client_addr=True)
        handlers = []

        async def handler(client):
            rec = {"t0": sim.now(), "got": [], "t1": None}
            handlers.append(rec)
            try:
                while True:
                    d = await client.recv()
                    rec["got"].append(d)
                    await client.send(b"echo:" + d)
            except anyio.EndOfStream:
                pass
            rec["t1"] = sim.now()

        async def run():
            async with prudp.serve_transport(s, ps.SERVER[0], ps.SERVER[1]) as st:
                async with st.serve(handler, 1, 10, None):
                    stream = st.ports.get(1, 10)
                    async with prudp.connect_transport(s, ps.SERVER[0], ps.SERVER[1]) as t:
                        with anyio.move_on_after(quant(0.2)):
                            async with t.connect(1, 10) as c:
                                await c.send(b"hello")
                                assert await c.recv() == b"echo:hello"
                                await anyio.sleep(1000)              # the block is left by cancellation: nothing is sent
                        res["cancelled_at"] = sim.now()
                        async with t.connect(1, 10) as c:            # same transport, same local port, at once
                            res["connected_at"] = sim.now()
                            await c.send(b"are you there")
                            with anyio.move_on_after(quant(wait)) as scope:
                                try:
                                    res["answer"] = await c.recv()
                                except anyio.EndOfStream:
                                    res["answer"] = "end-of-stream"
                            res["recv_blocked"] = scope.cancelled_caught
                            res["recv_until"] = sim.now()
                            res["server_table"] = len(stream.clients)
                            res["handlers"] = [(h["t0"], h["got"], h["t1"]) for h in handlers]
        sim.run(run())
    return res


if __name__ == "__main__":
    r = main()
    print(r)
    bound = 1.0 + 2 * 0.5
    if r.get("recv_blocked"):
        print("ZOMBIE: the new session's recv() neither returned nor raised for %.1f s (bound %.1f s); the server started %d handler(s), "
              "still holds %d record(s), and the message was acknowledged but delivered to nobody" % (r["recv_until"] - r["connected_at"], bound, len(r["handlers"]), r["server_table"]))
        sys.exit(1)
    sys.exit(0)
