import NxModel.Bytes
/-! driver stub for C19 (replaced when the property's model lands) -/
def main : IO Unit := IO.println "stub C19"
