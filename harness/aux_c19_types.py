"""C19 — the TYPE of a byte-string argument as an axis of the input space.

"Every input" of the property ranges over byte strings; in Python a byte string reaches a decoder / parser / hash /
MAC routine as `bytes`, as a `bytearray` (what socket / file APIs that fill buffers hand out), as a `memoryview`
(read-only over bytes, writable over a bytearray, a window into a larger buffer) or as a subclass of either. The
other families only ever pass `bytes`. Here EVERY entry point of the anchored modules that takes a byte string is
called with the same VALUE carried by each of these types:

  * the result must be the one for `bytes` (same value, same exception class), which in turn is compared with the
    Lean reference / model on the same line as in the other families;
  * the caller's buffer (bytearray; the whole backing buffer of a writable view, including the bytes around a window)
    is inspected afterwards and must be unchanged;
  * a type the library does not take at all (TypeError / AttributeError for EVERY value of that entry point whose
    `bytes` call succeeds) is recorded as coverage, not judged; a type that is taken for some values and refused
    for others is a failure.

A failure is reported with the entry point, the carrier type, how to construct the argument, and the value.
Nothing here re-implements the library: each entry is a call of the real function.
"""
import base64, hashlib, struct, datetime
import aux_c19_real as R
import aux_c19_walks as W
import aux_c19_bounds as B
from aux_c19_real import hx, cps


class _BytesSub(bytes): pass
class _BytearraySub(bytearray): pass


def _probe(buf, want):
    def probe():
        now = bytes(buf)
        if now == want: return None
        if len(now) != len(want): return {"length_before": len(want), "length_after": len(now), "after": now.hex()}
        i = next(k for k in range(len(want)) if now[k] != want[k])
        return {"first_changed_offset_in_buffer": i, "buffer_before": want.hex(), "buffer_after": now.hex()}
    return probe

_none = lambda: None

def carriers(rng):
    """[(label, python expression that builds it from `v = bytes.fromhex(value)`, make)], make(v) -> (argument, probe)"""
    def window(v):
        pre, post = rng.randbytes(rng.randint(1, 9)), rng.randbytes(rng.randint(1, 9))
        whole = pre + v + post
        ba = bytearray(whole)
        return memoryview(ba)[len(pre):len(pre) + len(v)], _probe(ba, whole)
    def ba(v):
        b = bytearray(v); return b, _probe(b, v)
    def bas(v):
        b = _BytearraySub(v); return b, _probe(b, v)
    def mvw(v):
        b = bytearray(v); return memoryview(b), _probe(b, v)
    return [("bytes", "v", lambda v: (v, _none)),
            ("bytearray", "bytearray(v)", ba),
            ("memoryview(bytes)", "memoryview(v)", lambda v: (memoryview(v), _none)),
            ("memoryview(bytearray)", "memoryview(bytearray(v))", mvw),
            ("memoryview window into a larger bytearray", "memoryview(bytearray(pre + v + post))[len(pre):len(pre)+len(v)]", window),
            ("subclass of bytes", "type('B', (bytes,), {})(v)", lambda v: (_BytesSub(v), _none)),
            ("subclass of bytearray", "type('BA', (bytearray,), {})(v)", bas)]


REFUSALS = ("err TypeError", "err Other:AttributeError", "err Other:BufferError")


class TypeAxis:
    def __init__(self, ctx, rng, C, oracle_fail):
        self.ctx, self.rng, self.C, self.fail = ctx, rng, C, oracle_fail
        self.carriers = carriers(rng)
        self.same, self.refused = {}, {}          # (entry, type) -> count / [(what, replay)]
        self.calls = 0

    def call(self, f, arg):
        try: return f(arg)
        except Exception as e: return "err " + R.exc_name(e)

    def visit(self, entry, f, value, how, lines=(), context=None, expect=None, reference=True):
        """f(argument) -> result text (exceptions are mapped here). `lines(result)` -> [(driver line, real text)] ties the
        `bytes` result to the Lean side; `expect` = result known independently of the library (built-in answer)."""
        C, fail = self.C, self.fail
        base = None
        for label, expr, make in self.carriers:
            arg, probe = make(value)
            r = self.call(f, arg)
            self.calls += 1
            changed = probe()
            replay = {"entry_point": entry, "argument_type": label, "argument": "v = bytes.fromhex(value); argument = " + expr,
                      "value": value.hex(), "how": how}
            if context: replay["context"] = context
            if label == "bytes":
                base = r
                for line, real in (lines(r) if callable(lines) else lines):
                    C.add(line, real, "bytes-type:" + entry, replay, reference=reference)
                if expect is not None and r != expect:
                    fail.append(("bytes-type:" + entry, "%s: result %s, expected %s" % (entry, r[:100], expect[:100]), replay))
                outcome = "base"
            elif changed is not None:
                outcome = "caller-buffer-changed"
                fail.append(("bytes-type:" + entry, "%s called with a %s CHANGES THE CALLER'S BUFFER (value %s%s): %r"
                             % (entry, label, value.hex()[:64], "..." if len(value) > 32 else "", {k: (v if not isinstance(v, str) else v[:80]) for k, v in changed.items()}),
                             dict(replay, buffer_inspected_after_the_call=changed, result=r[:400], result_for_bytes=base[:400])))
            elif r == base or (r in REFUSALS and base in REFUSALS):       # both refuse the argument (the entry point takes text)
                outcome = "same"
                if base.startswith("ok") or base.startswith("body"):
                    self.same[(entry, label)] = self.same.get((entry, label), 0) + 1
            elif r in REFUSALS and not base in REFUSALS:
                outcome = "type-refused"
                self.refused.setdefault((entry, label), []).append(
                    ("%s refuses a %s for this value (%s) although it takes the type for other values; for bytes of the same value it returns %s"
                     % (entry, label, r, base[:100]), dict(replay, result=r, result_for_bytes=base[:400])))
            else:
                outcome = "differs"
                fail.append(("bytes-type:" + entry, "%s called with a %s holding the same value as bytes gives another result: %s, for bytes %s (value %s%s)"
                             % (entry, label, r[:100], base[:100], value.hex()[:64], "..." if len(value) > 32 else ""),
                             dict(replay, result=r[:2000], result_for_bytes=base[:2000])))
            self.ctx.case(key=hash((entry, label, value)), nontrivial=(outcome != "type-refused"), tag="bytes-type:%s:%s" % (label.split(" ")[0], outcome))
        return base

    def finish(self):
        table = {}
        for (entry, label), n in self.same.items():
            table.setdefault(entry, {})[label] = "same result as bytes on %d values" % n
        for (entry, label), rs in self.refused.items():
            if self.same.get((entry, label)):
                what, replay = rs[0]
                self.fail.append(("bytes-type:" + entry, what, replay))
                table.setdefault(entry, {})[label] += "; REFUSED on %d values" % len(rs)
            else:
                table.setdefault(entry, {})[label] = "type not taken by this entry point (%s on all %d values; not judged)" % (rs[0][1]["result"], len(rs))
        self.ctx.extra["byte_argument_types"] = {"calls": self.calls, "carriers": [c[0] for c in self.carriers], "entry_points": table}


def type_families(ctx, rng, C, oracle_fail, quick, names, kinds, counts, built, kit, rand_vals):
    from nintendo import miis, nasc, nnas
    from nintendo import switch as nswitch
    from nintendo.switch import dauth, aauth
    from nintendo.nex import settings as nexsettings
    from anynet import streams, http, tls
    T = TypeAxis(ctx, rng, C, oracle_fail)
    N = (lambda q, t: q) if quick else (lambda q, t: t)

    # ------------------------------------------------------------------------------------------ Mii
    def mii_values(n):
        out = []
        for vals, data in built[:n]:
            out.append(("built", data))
        for vals, data in built[n:n + max(2, n // 3)]:
            good = struct.unpack(">H", data[0x5E:])[0]
            out.append(("bad-crc", data[:0x5E] + struct.pack(">H", good ^ (1 << rng.randrange(16)))))
            out.append(("truncated", data[:rng.randrange(0x60)]))
            out.append(("extended", data + rng.randbytes(rng.randint(1, 8))))
        for _ in range(max(2, n // 3)):
            body = rng.randbytes(0x5E)
            out.append(("arbitrary", body + struct.pack(">H", miis.crc16(body + b"\0\0"))))
        return out
    for kind, d in mii_values(N(10, 120)):
        T.visit("nintendo.miis.MiiData.parse", lambda a: R.mii_parse(names, kinds, a), d, "MiiData.parse(argument); all 68 attributes read back",
                lines=lambda r, d=d: [("mii-parse " + hx(d), r)], context=kind)
        def dec(a):
            m = miis.MiiData(); m.decode(streams.StreamIn(a, ">"))
            return "ok " + R.show_vals(R.mii_vals_of(m, names, kinds))
        T.visit("nintendo.miis.MiiData.decode", dec, d, "m = MiiData(); m.decode(anynet.streams.StreamIn(argument, '>')); all 68 attributes read back",
                lines=lambda r, d=d: [("mii-parse " + hx(d[:0x60]), r)] if len(d) >= 0x60 else [], context=kind)
        T.visit("nintendo.miis.MiiData.swap_endian", lambda a: R.mii_swap(a), d, "MiiData().swap_endian(argument)",
                lines=lambda r, d=d: [("mii-swap " + hx(d), r)], context=kind)
    for _ in range(N(12, 150)):
        n = rng.choice([0, 1, 2, 0x5D, 0x5E, 0x5F, 0x60, 0x61]) if rng.random() < 0.6 else rng.randint(0, 150)
        d = rng.randbytes(n)
        T.visit("nintendo.miis.crc16", lambda a: "ok %d" % miis.crc16(a), d, "nintendo.miis.crc16(argument)", lines=lambda r, d=d: [("mii-crc " + hx(d), r)])
        T.visit("nintendo.miis.MiiData.swap_endian", lambda a: R.mii_swap(a), d, "MiiData().swap_endian(argument)", lines=lambda r, d=d: [("mii-swap " + hx(d), r)])
    # encoder side: the byte-string attributes of a Mii handed over in each type
    raw = [i for i, k in enumerate(kinds) if k == "raw"]
    for _ in range(N(6, 60)):
        vals = rand_vals()
        for i in raw:
            def build(a, i=i):
                m = R.mii_object(names, kinds, vals)
                setattr(m, names[i], a)
                return "ok " + hx(m.build())
            T.visit("nintendo.miis.MiiData.build (attribute %s)" % names[i], build, bytes(vals[i]),
                    "MiiData with the attributes of `context`, attribute %s = argument; build()" % names[i],
                    lines=lambda r: [("mii-build " + R.show_vals(vals), r)], context={"fields": dict(zip(names, vals))})

    # ------------------------------------------------------------------------------------------ calibration data
    for _ in range(N(12, 150)):
        d = rng.randbytes(rng.choice([0, 1, 2, 15, 16, 17]) if rng.random() < 0.4 else rng.randint(0, 64))
        T.visit("nintendo.switch.crc16", lambda a: "ok %d" % nswitch.crc16(a), d, "nintendo.switch.crc16(argument)",
                lines=lambda r, d=d: [("prod-crc " + hx(d), r + " " + r.split()[-1])] if r.startswith("ok") else [])
    def prod(data, keys=None):
        P = R.Prod(b"", keys or {}).p
        P.data = data
        return P
    for _ in range(N(8, 80)):
        off = rng.randint(0, 20); size = rng.randint(2, 60)
        blob = bytearray(rng.randbytes(off + size + rng.randint(0, 4)))
        if rng.random() < 0.7: struct.pack_into("<H", blob, off + size - 2, nswitch.crc16(bytes(blob[off:off + size - 2])))
        if rng.random() < 0.15: blob = blob[: off + size - rng.randint(1, 2)]
        blob = bytes(blob)
        def chk(a):
            prod(a).check(off, size); return "ok -"
        T.visit("nintendo.switch.ProdInfo.check", chk, blob, "p = ProdInfo(keys, file); p.data = argument; p.check(offset, size)",
                lines=lambda r, blob=blob, off=off, size=size: [("prod-check %d %d %s" % (off, size, hx(blob)), r + " | " + r)], context={"offset": off, "size": size})
    def certchk(a):
        try: c = prod(a).get_tls_cert()
        except Exception as e:
            if B.innermost_in_library(e, "nintendo/switch/__init__.py") or R.exc_name(e) in ("TypeError", "Other:AttributeError", "Other:BufferError"): raise
            return "ok (certificate parser: %s)" % R.exc_name(e)
        return "ok " + hx(c.encode(tls.TYPE_DER))
    for n in range(N(4, 30)):
        devid = rng.randrange(1 << 64)
        kek = rng.randbytes(16)
        blob = bytearray(kit.image(devid, kek, None, upper=bool(n % 2)))
        damage = [None, None, "devcrc", "certhash", "keycrc", "certlen"][n % 6] if n >= 2 else None
        if damage == "devcrc": blob[rng.randrange(0x2A90, 0x2CDE)] ^= 1 << rng.randrange(8)
        if damage == "certhash": blob[0x12E0 + rng.randrange(32)] ^= 1
        if damage == "keycrc": blob[rng.randrange(0x3AE0, 0x3C1E)] ^= 1 << rng.randrange(8)
        if damage == "certlen": kit.put_cert(blob, 0x801, len(kit.der_cert))
        blob = bytes(blob)
        ctxd = {"damage": damage, "device_id": devid, "ssl_rsa_kek": kek.hex()}
        T.visit("nintendo.switch.ProdInfo.get_device_id", lambda a: "ok %d" % prod(a).get_device_id(), blob,
                "p = ProdInfo(keys, file); p.data = argument; p.get_device_id()", context=ctxd,
                lines=lambda r, blob=blob: [("prod-devid " + hx(blob), r)], reference=False, expect=("ok %d" % devid) if damage != "devcrc" else None)
        def checks_only(a):
            try: prod(a).get_tls_cert()
            except Exception as e:
                if B.innermost_in_library(e, "nintendo/switch/__init__.py"): raise       # one of get_tls_cert's own statements refused the data
            return "ok"
        T.visit("nintendo.switch.ProdInfo.get_tls_cert (its three checks)", checks_only, blob,
                "p = ProdInfo(keys, file); p.data = argument; p.get_tls_cert(): header CRC, length limit, SHA-256 (what the certificate parser says afterwards is left out)", context=ctxd,
                lines=lambda r, blob=blob: [("prod-certchk " + hx(blob), r)], expect="ok" if damage not in ("certhash", "certlen") else None)
        T.visit("nintendo.switch.ProdInfo.get_tls_cert", certchk, blob, "p = ProdInfo(keys, file); p.data = argument; p.get_tls_cert().encode(TYPE_DER)", context=ctxd,
                lines=lambda r, blob=blob: [("prod-certchk " + hx(blob), r.split(" ")[0] + (" " + r.split(" ")[1] if r.startswith("err") else ""))],
                expect=("ok " + hx(kit.der_cert)) if damage not in ("certhash", "certlen") else None)
        if damage in (None, "keycrc", "devcrc"):
            T.visit("nintendo.switch.ProdInfo.get_tls_key (data)", lambda a: kit.tls_d(prod(a, {"ssl_rsa_kek": kek})), blob,
                    "p = ProdInfo({'ssl_rsa_kek': kek}, file); p.data = argument; private exponent of p.get_tls_key()", context=ctxd,
                    lines=lambda r, blob=blob, kek=kek: [("prod-tlsd %s %s" % (hx(kek), hx(blob)), r)] if not (damage == "keycrc" and r.startswith("ok")) else [],
                    expect=("ok %d" % kit.rsa.d) if damage != "keycrc" else None)
        if damage is None:
            T.visit("nintendo.switch.ProdInfo.get_tls_key (key)", lambda a: kit.tls_d(prod(blob, {rng.choice(["ssl_rsa_kek", "ssl_rsa_kek_personalized"]): a})), kek,
                    "p = ProdInfo({'ssl_rsa_kek' or 'ssl_rsa_kek_personalized': argument}, file with the calibration data of `context`); private exponent of p.get_tls_key()",
                    context=dict(ctxd, data=blob.hex()), expect="ok %d" % kit.rsa.d)

    # ------------------------------------------------------------------------------------------ dauth MAC
    gens = sorted(set(dauth.KEY_GENERATION.values()))
    for n in range(N(8, 80)):
        g = rng.choice(gens)
        kek, master = rng.randbytes(16), rng.randbytes(rng.choice([16, 16, 24, 32]))
        data = rng.randbytes(16) if n % 4 else rng.randbytes(rng.choice([0, 8, 17, 32]))
        form = "".join(rng.choice(W.ALPH + "=&-_%.") for _ in range(rng.randint(0, 90)))
        def mac(k, m, d):
            c = dauth.DAuthClient({"aes_kek_generation_source": k, "master_key_%02x" % (g - 1): m}); c.key_generation = g
            return "ok " + hx(c.calculate_mac(form, d).encode())
        line = "dauth-mac %s %s %s %s" % (hx(kek), hx(master), hx(data), hx(form.encode()))
        cx = {"key_generation": g, "form": form, "aes_kek_generation_source": kek.hex(), "master_key": master.hex(), "data": data.hex()}
        T.visit("nintendo.switch.dauth.DAuthClient.calculate_mac (data)", lambda a: mac(kek, master, a), data,
                "DAuthClient(keys).calculate_mac(form, argument), keys / form / key_generation of `context`", lines=lambda r, line=line: [(line, r)], context=cx)
        T.visit("nintendo.switch.dauth.DAuthClient.calculate_mac (keys['aes_kek_generation_source'])", lambda a: mac(a, master, data), kek,
                "DAuthClient({'aes_kek_generation_source': argument, master key}).calculate_mac(form, data)", lines=lambda r, line=line: [(line, r)], context=cx)
        T.visit("nintendo.switch.dauth.DAuthClient.calculate_mac (keys['master_key_xx'])", lambda a: mac(kek, a, data), master,
                "DAuthClient({kek source, 'master_key_%02x' % (key_generation - 1): argument}).calculate_mac(form, data)", lines=lambda r, line=line: [(line, r)], context=cx)

    # ------------------------------------------------------------------------------------------ aauth
    v3 = [v for v in sorted(aauth.API_VERSION) if aauth.API_VERSION[v] == 3]
    for n in range(N(3, 24)):
        tid = rng.randrange(1 << 64)
        ticket = R.make_ticket(rng, tid, bad=[None, None, "title", "size", "rev", "sig"][n % 6])
        pk, seed = rng.randbytes(16), rng.randbytes(32)
        v = rng.choice(v3)
        T.visit("nintendo.switch.aauth.AAuthClient.auth_digital (cert)", lambda a: R.aauth_digital(v, tid, 7, a, pk, seed)[0], ticket,
                "AAuthClient (system version of `context`).auth_digital(title_id, 7, 'devtoken', argument), aauth.get_random_bytes and Crypto.Random.get_random_bytes pinned; form fields cert / cert_key",
                lines=lambda r, t=ticket, tid=tid, pk=pk, seed=seed: [("aauth-env 0 0 %s %d %s %s" % (hx(t), tid, hx(pk), hx(seed)), r)],
                context={"system_version": v, "title_id": tid, "plain_key": pk.hex(), "oaep_seed": seed.hex()})
    aversions = sorted(aauth.API_VERSION)
    def gamecard(v, cert, gvt):
        c = aauth.AAuthClient(); c.set_system_version(v)
        cap = []
        async def cb(host, req, cx):
            cap.append(req); r = http.HTTPResponse(200); r.json = {"application_auth_token": "t"}; return r
        c.set_request_callback(cb)
        R.run(c.auth_gamecard(1, 1, "devtoken", cert, gvt, "c", "s"))
        f = cap[0].form
        return "ok " + hx(f["cert"].encode()) + " " + hx(f["gvt"].encode())
    for n in range(N(5, 40)):
        v = rng.choice(aversions)
        cert, gvt = rng.randbytes(rng.choice([0, 1, 2, 3, 0x200])), rng.randbytes(rng.choice([0, 1, 2, 0x20, 0x21]))
        def two(r, cert=cert, gvt=gvt):
            if not r.startswith("ok "): return [("url-enc-nopad " + hx(cert), r)]
            _, a, b = r.split(" ")
            return [("url-enc-nopad " + hx(cert), "ok " + a), ("url-enc-nopad " + hx(gvt), "ok " + b)]
        T.visit("nintendo.switch.aauth.AAuthClient.auth_gamecard (cert)", lambda a: gamecard(v, a, gvt), cert,
                "AAuthClient.auth_gamecard(1, 1, 'devtoken', argument, gvt, 'c', 's'); form fields cert / gvt", lines=two, context={"system_version": v, "gvt": gvt.hex()})
        T.visit("nintendo.switch.aauth.AAuthClient.auth_gamecard (gvt)", lambda a: gamecard(v, cert, a), gvt,
                "AAuthClient.auth_gamecard(1, 1, 'devtoken', cert, argument, 'c', 's'); form fields cert / gvt", lines=two, context={"system_version": v, "cert": cert.hex()})

    # ------------------------------------------------------------------------------------------ hpp
    for n in range(N(4, 30)):
        s = nexsettings.default()
        ak = "".join(rng.choice("0123456789abcdef") for _ in range(2 * rng.choice([0, 4, 8, 9])))
        s["prudp.access_key"] = ak
        pid, pw = rng.randrange(1 << 32), "".join(rng.choice(W.ALPH) for _ in range(rng.randint(0, 12)))
        call_id, proto, meth = rng.randrange(1, 1 << 32), rng.choice([1, 0x7F, 200]), rng.randrange(1, 0x7FFF)
        body = rng.randbytes(rng.choice([0, 1, 2, 30]))
        rb = rng.randbytes(rng.randint(0, 20))
        kind = ["ok", "ok", "err", "short"][n % 4]
        pl = (b"\x01" + struct.pack("<II", call_id, meth | 0x8000) + rb) if kind != "err" else b"\x00" + struct.pack("<II", 0x80010002, call_id)
        resp = struct.pack("<I", len(pl)) + pl
        if kind == "short": resp = resp[: rng.randint(0, len(resp) - 1)]
        cx = {"access_key": ak, "pid": pid, "password": pw, "call_id": call_id, "protocol": proto, "method": meth, "body": body.hex(), "response": resp.hex()}
        def req_body(a):
            sig, val = R.hpp_request(s, pid, pw, call_id, proto, meth, a, 200, resp)
            if sig is None: return val
            data, s1, s2 = sig
            return "ok %s %s %s" % (hx(bytes(data)), s1, s2)
        def sig_lines(r, ak=ak, pw=pw, pid=pid, body=body):
            if not r.startswith("ok "): return []
            _, data, s1, s2 = r.split(" ")
            if not R.unhx(data).endswith(body):
                oracle_fail.append(("bytes-type:hpp-body", "the signed message does not end with the request body", dict(cx)))
            return [("hpp-sig %s %s %d %s" % (hx(bytes.fromhex(ak)), hx(pw.encode()), pid, data), "ok %s %s" % (hx(s1.encode()), hx(s2.encode())))]
        T.visit("nintendo.nex.hpp.HppClient.request (body)", req_body, body,
                "HppClient(settings, .., pid, password).request(protocol, method, argument) with hpp.http.request replaced; the multipart file and the headers signature1 / signature2",
                lines=sig_lines, context=cx)
        def req_resp(a):
            return R.hpp_request(s, pid, pw, call_id, proto, meth, body, 200, a)[1]
        T.visit("nintendo.nex.hpp.HppClient.request (response body)", req_resp, resp,
                "HppClient.request(protocol, method, body) with hpp.http.request replaced by a coroutine returning a response whose .body is the argument",
                lines=lambda r, resp=resp, call_id=call_id, meth=meth: [("hpp-val %d %d %s" % (call_id, meth, hx(resp)), r)], context=cx, reference=False)

    # ------------------------------------------------------------------------------------------ nnas (the password is text: no byte-string type is taken)
    for _ in range(N(2, 10)):
        pid = rng.randrange(1 << 32)
        pw = "".join(rng.choice(W.ALPH + "!@# ~") for _ in range(rng.randint(0, 20)))
        real = T.call(lambda a: "ok " + hx(nnas.calc_password_hash(pid, a).encode()), pw)
        C.add("nnas %d %s" % (pid, cps(pw)), real, "bytes-type:nnas", {"pid": pid, "password": pw}, reference=True)
        T.visit("nintendo.nnas.calc_password_hash (password)", lambda a: "ok " + hx(nnas.calc_password_hash(pid, a).encode()), pw.encode(),
                "nnas.calc_password_hash(pid, argument)", context={"pid": pid})

    # ------------------------------------------------------------------------------------------ nasc
    for _ in range(N(12, 150)):
        d = rng.randbytes(rng.choice([0, 1, 2, 3, 4, 5]) if rng.random() < 0.5 else rng.randint(0, 60))
        T.visit("nintendo.nasc.b64encode", lambda a: R.wrap(nasc.b64encode, a), d, "nasc.b64encode(argument)", lines=lambda r, d=d: [("nasc-enc " + hx(d), r)])
        t = nasc.b64encode(d).encode()
        T.visit("nintendo.nasc.b64decode", lambda a: R.wrap(nasc.b64decode, a), t, "nasc.b64decode(argument) (the function takes text)")
    for _ in range(N(6, 60)):
        form = {"k%d" % i: rng.randbytes(rng.choice([0, 1, 2, 3, 20])) for i in range(rng.randint(1, 4))}
        key = rng.choice(sorted(form))
        def enc(a):
            f = dict(form); f[key] = a
            before = dict(f)
            out = nasc.encode_form(f)
            if list(f.items()) != list(before.items()) or any(f[k] is not before[k] for k in f): raise RuntimeError("encode_form changed the dict it was given")
            return "ok " + R.form_pairs(out)
        T.visit("nintendo.nasc.encode_form (a value)", enc, form[key], "nasc.encode_form(form of `context` with form[key] = argument)",
                lines=lambda r, form=form: [("nasc-form-enc " + R.form_pairs(form), r)], context={"form": {k: v.hex() for k, v in form.items()}, "key": key})
    def rtext(n, pool=W.ALPH): return "".join(rng.choice(pool) for _ in range(rng.randint(1, n)))
    for n in range(N(4, 30)):
        cur = {"url": "nasc.nintendowifi.net", "sdk_version_major": rng.randrange(1000), "sdk_version_minor": rng.randrange(1000),
               "title_id": rng.randrange(1 << 64), "title_version": rng.randrange(1 << 16), "product_code": "----", "maker_code": "00", "media_type": 1, "rom_id": None,
               "serial_number": rtext(11), "mac_address": rtext(12, "0123456789abcdef"), "fcd_cert": None, "device_name": rtext(8), "unit_code": "2",
               "bss_id": rtext(12, "0123456789abcdef"), "ap_info": "01:0000000000", "region": rng.randrange(256), "language": rng.randrange(256),
               "pid": None, "pid_hmac": None, "password": rtext(12), "fpd_version": 16, "environment": "L1"}
        if n % 2: cur.update(pid=rng.randrange(1 << 32), pid_hmac=rtext(8, "0123456789abcdef"), password=None)
        cert = rng.randbytes(rng.choice([0, 1, 2, 3, 16, 0x180]))
        gsid, nick = rng.randrange(1 << 32), rtext(8)
        token = rng.randbytes(rng.choice([0, 1, 2, 32]))
        text = "&".join("%s=%s" % (k, W._ref3ds(v)) for k, v in {"returncd": b"001", "retry": b"0", "datetime": b"20240229235958", "locator": b"h.example:%d" % (n + 1), "token": token}.items())
        def login(a):
            c = dict(cur); c["fcd_cert"] = a
            cap, res = R.nasc_login(W.nasc_configure_fresh(c), gsid, nick, 200, text)
            if cap is None: raise res
            f = dict(cap[1].form); f.pop("devtime", None)
            return "ok " + R.form_pairs(f)
        exp = W.nasc_expected_form(dict(cur, fcd_cert=cert), gsid, nick)
        T.visit("nintendo.nasc.NASCClient.login (fcd_cert of set_device)", login, cert,
                "NASCClient configured with the values of `context`, set_device(serial_number, mac_address, argument, name, unit_code), login(game_server_id, nickname) "
                "with nasc.http.request replaced; the form that is sent (devtime left out)",
                lines=lambda r, exp=exp: [("nasc-form-enc " + " ".join(hx(k.encode()) + " " + hx(v) for k, v in exp), r)],
                context={"configuration": {k: v for k, v in cur.items() if k != "fcd_cert"}, "game_server_id": gsid, "nickname": nick})
        # the response side: the decoded form of a login answer, its values carried by each type
        port = rng.randrange(1, 65536)
        def parse(a):
            def same_type(b):
                try: return type(a)(b)
                except TypeError: return memoryview(b)
            r = nasc.LoginResponse.parse({"locator": same_type(b"h%d.example:%d" % (n, port)), "token": a, "datetime": same_type(b"20240229235958")})
            return "ok %s %d %s %s" % (r.host, r.port, hx(r.token.encode()), r.datetime.isoformat())
        T.visit("nintendo.nasc.LoginResponse.parse (form values)", parse, token,
                "LoginResponse.parse({'locator': b'h<n>.example:<port>', 'token': argument, 'datetime': b'20240229235958'}), every value carried by the argument's type",
                lines=lambda r, token=token: [("nasc-enc " + hx(token), "ok " + r.split(" ")[3])] if r.startswith("ok ") else [],
                expect="ok h%d.example %d %s 2024-02-29T23:59:58" % (n, port, hx(W._ref3ds(token).encode())))
    T.finish()
