"""Crash-point sessions for C02: a reference session (handshake, data both ways, idle past a keep-alive, graceful
disconnect) in which the link dies after the k-th datagram, in one or both directions. Every blocking operation of
both applications is left outstanding and the virtual instant at which it returns or raises is recorded.

The result is compatible with l1_trace.build / l1_corr.compare (same markers in the net log)."""
import random
import anyio

from sim import Sim, quant, ticks, Deadlock
import prudp_session as ps
from nintendo.nex import prudp

SERVER = ps.SERVER


def run(cfg, seed, kill, script=None, rmc=False):
    """kill = (k, mode): after the k-th genuine datagram (k = 0: from the start) the link drops everything in
    mode 'both' | 'c2s' | 's2c'; kill = None: the fault-free reference. Returns a Session with `ops`:
    list of (name, t_start, t_end or None, outcome)."""
    rng = random.Random(seed)
    out = ps.Session()
    out.cfg = out.cfg_s = cfg
    out.seed = seed
    out.ops = []
    out.kill = kill
    bound = cfg.ping_timeout + (cfg.resend_limit + 1) * cfg.resend_timeout
    with Sim(seed) as sim:
        s = cfg.settings()
        out.settings = out.settings_s = s
        sim.install_factories(fixed_client_addr=True)
        state = {"dead_at": None}
        def fate(tx):
            if kill is not None and tx.g > kill[0]:
                if state["dead_at"] is None:
                    state["dead_at"] = tx.t
                to_server = tx.dst == SERVER
                if kill[1] == "both" or (kill[1] == "c2s" and to_server) or (kill[1] == "s2c" and not to_server):
                    return []
            return [0.01]
        sim.net.fate = fate
        def stream_fate(src, dst, n, chunk):
            # stream transports (lite): after the k-th write of the session the byte stream is a black hole in mode both / c2s / s2c,
            # or (mode 'break') the underlying connection breaks at the next write
            if kill is not None and n > kill[0]:
                if state["dead_at"] is None:
                    state["dead_at"] = sim.now()
                to_server = dst == SERVER
                if kill[1] == "break":
                    return "break"
                if kill[1] == "both" or (kill[1] == "c2s" and to_server) or (kill[1] == "s2c" and not to_server):
                    return "drop"
            return "deliver"
        sim.net.stream_fate = stream_fate
        creds, session_key = (None, b"")
        if cfg.credentials:
            creds, session_key = ps.make_credentials(s, random.Random(rng.random()), cfg.key_size)
        out.creds, out.session_key, out.epoch = creds, session_key, sim.epoch
        out.rnd, out.accepted, out.send_errors, out.extra_handlers = {}, [], [], []
        out.got = {("c", 0): [], ("s", 0): []}
        out.gotu = {"c": [], "s": []}
        out.connect_error = None
        out.checkpoints = []
        out.handler_started = False
        log = sim.net.log
        stream_ref = {}

        def op_start(name):
            out.ops.append([name, sim.now(), None, None])
            return len(out.ops) - 1

        def op_end(i, outcome):
            out.ops[i][2] = sim.now(); out.ops[i][3] = outcome

        async def reader(side, client):
            i = op_start("recv@" + side)
            try:
                while True:
                    d = await client.recv(0)
                    out.got[(side, 0)].append(d)
                    log.append(("deliver", sim.now(), side, 0, d))
                    op_end(i, "data")
                    i = op_start("recv@" + side)
            except anyio.EndOfStream:
                log.append(("eof", sim.now(), side, 0))
                op_end(i, "eof")

        async def ureader(side, client):
            i = op_start("recv_unreliable@" + side)
            try:
                while True:
                    await client.recv_unreliable()
            except anyio.EndOfStream:
                op_end(i, "eof")

        def wrap_send(side, client):
            """log an application-send marker for every `client.send` call, whoever makes it (the RMC layer included)"""
            orig = client.send
            async def send(data, substream=0):
                log.append(("app", sim.now(), side, "send", substream, bytes(data)))
                return await orig(data, substream)
            client.send = send
            orig_recv = client.recv
            async def recv(substream=0):
                try:
                    d = await orig_recv(substream)
                except anyio.EndOfStream:
                    log.append(("eof", sim.now(), side, substream))
                    raise
                log.append(("deliver", sim.now(), side, substream, d))
                return d
            if rmc:
                client.recv = recv

        async def do_send(side, client, data):
            i = op_start("send@" + side)
            try:
                await client.send(data, 0)
                out.accepted.append((side, 0, data))
                op_end(i, "ok")
            except anyio.ClosedResourceError:
                op_end(i, "closed")
            except Exception as e:
                out.send_errors.append((side, 0, repr(e), sim.now()))
                op_end(i, "error:" + type(e).__name__)

        async def do_sendu(side, client):
            i = op_start("sendu@" + side)
            try:
                await client.send_unreliable(b"late unreliable")
                op_end(i, "ok")
            except anyio.ClosedResourceError:
                op_end(i, "closed")
            except Exception as e:
                op_end(i, "error:" + type(e).__name__)

        # ---- RMC layer on top (pending remote calls)
        class Answering:
            PROTOCOL_ID = 0x65
            async def logout(self, client): pass
            async def handle(self, client, method, input, output):
                output.u32(input.u32() + 1)

        class Silent:
            PROTOCOL_ID = 0x66
            NORESPONSE = True              # requests of this protocol are never answered: the caller's call stays pending
            async def logout(self, client): pass
            async def handle(self, client, method, input, output):
                pass

        async def rmc_handler(client):
            from nintendo.nex import rmc as rmcmod
            hi = op_start("handler")
            rc = rmcmod.RMCClient(s, client)
            async with rc:
                await rc.start([Answering(), Silent()])
            log.append(("app", sim.now(), "s", "done", 0, b""))
            op_end(hi, "returned")

        async def rmc_call(rc, name, method, body):
            i = op_start(name)
            try:
                r = await rc.request(0x65 if method == 1 else 0x66, method, body)
                op_end(i, "ok:" + r.hex())
            except RuntimeError:
                op_end(i, "closed")
            except Exception as e:
                op_end(i, "error:" + type(e).__name__)

        async def rmc_client(client):
            from nintendo.nex import rmc as rmcmod
            import struct
            rc = rmcmod.RMCClient(s, client)
            async with rc:
                async with anyio.create_task_group() as tg:
                    tg.start_soon(rc.start, [])
                    await rmc_call(rc, "call-answered", 1, struct.pack("<I", 41))
                    tg.start_soon(rmc_call, rc, "call-pending-1", 2, b"")
                    await anyio.sleep(quant(0.2617))
                    tg.start_soon(rmc_call, rc, "call-pending-2", 2, b"x" * 40)
                    await anyio.sleep(quant(cfg.ping_timeout * 1.2531))
                    if rmc == "slow":
                        # a call whose send is still in progress (congested socket) when the connection ends
                        client.transport.socket.send_delay = quant(0.05)
                        tg.start_soon(rmc_call, rc, "call-slow-send", 2, b"y")
                        await anyio.sleep(quant(0.0107))
                    di = op_start("disconnect")
                    log.append(("app", sim.now(), "c", "disconnect", 0, b""))
                    await rc.disconnect()
                    op_end(di, "returned")
                    client.transport.socket.send_delay = 0
                await rmc_call(rc, "call-after-close", 1, b"\0\0\0\0")

        class _Done(Exception):
            pass

        async def handler(client):
            if out.handler_started:
                out.extra_handlers.append(client.remote_address())
                return
            out.handler_started = True
            out.server_pid = client.pid()
            out.rnd["s"] = (client.sequence_mgr.initial_unreliable_id, client.connection_check, client.local_session_id)
            wrap_send("s", client)
            if rmc:
                return await rmc_handler(client)
            hi = op_start("handler")
            async with anyio.create_task_group() as tg:
                tg.start_soon(ureader, "s", client)
                tg.start_soon(do_send, "s", client, b"welcome " * 3)
                await reader("s", client)          # a typical server: serve until the peer is gone
            # after the connection ended: later sends must raise the closed-connection error
            await do_send("s", client, b"late")
            await do_sendu("s", client)
            log.append(("app", sim.now(), "s", "done", 0, b""))
            op_end(hi, "returned")

        async def main():
            async with prudp.serve_transport(s, SERVER[0], SERVER[1]) as transport:
                async with transport.serve(handler, 1, 10, b"server key" if cfg.credentials else None):
                    stream_ref["stream"] = transport.ports.get(1, 10)
                    ci = op_start("connect")
                    log.append(("app", sim.now(), "c", "connect", 0, b""))
                    try:
                        async with prudp.connect(s, SERVER[0], SERVER[1], credentials=creds) as client:
                            op_end(ci, "ok")
                            out.rnd["c"] = (client.sequence_mgr.initial_unreliable_id, client.connection_check, client.local_session_id)
                            log.append(("app", sim.now(), "c", "connected", 0, b""))
                            wrap_send("c", client)
                            if rmc:
                                await rmc_client(client)
                                raise _Done()
                            async with anyio.create_task_group() as tg:
                                tg.start_soon(reader, "c", client)
                                tg.start_soon(ureader, "c", client)
                                await do_send("c", client, b"hello " * 5)
                                await anyio.sleep(quant(0.2617))
                                await do_send("c", client, b"x")
                                # idle long enough for a keep-alive in both directions
                                await anyio.sleep(quant(cfg.ping_timeout * 1.2531))
                                await do_send("c", client, b"after idle")
                                await anyio.sleep(quant(0.2383))
                                di = op_start("disconnect")
                                log.append(("app", sim.now(), "c", "disconnect", 0, b""))
                                await client.disconnect()
                                op_end(di, "returned")
                                # readers end with EOF once the connection is closed
                            await do_send("c", client, b"late")
                            await do_sendu("c", client)
                            xi = op_start("async-with-exit")
                        op_end(xi, "returned")
                        log.append(("app", sim.now(), "c", "closed", 0, b""))
                    except _Done:
                        log.append(("app", sim.now(), "c", "closed", 0, b""))
                    except BaseException as e:
                        if out.ops[ci][2] is None:
                            op_end(ci, "failed")
                            out.connect_error = repr(e)
                            log.append(("app", sim.now(), "c", "connect-failed", 0, b""))
                        else:
                            out.errors.append(("client", repr(e)))
                    # let the server notice, then look at its table
                    await anyio.sleep(quant(bound + 1.0))
                    out.server_table = len(stream_ref["stream"].clients)
                    # the same address can connect again once the link is back
                    state_kill = kill
                    if kill is not None:
                        sim.net.fate = lambda tx: [0.01]
                        sim.net.stream_fate = None
                        log.append(("app", sim.now(), "c", "reconnect", 0, b""))
                        ri = op_start("reconnect")
                        try:
                            async with prudp.connect(s, SERVER[0], SERVER[1], credentials=creds) as c2:
                                op_end(ri, "ok")
                        except BaseException as e:
                            op_end(ri, "failed:" + repr(e)[:80])

        out.errors = []
        async def guarded():
            with anyio.move_on_after(10 * bound + 60) as scope:
                await main()
            out.timed_out = scope.cancelled_caught
        try:
            sim.run(guarded())
            out.crash = None
        except Deadlock as e:
            out.crash = "deadlock: " + str(e)
            out.timed_out = False
        except BaseException as e:
            out.crash = repr(e)
            out.timed_out = False
        out.dead_at = state["dead_at"]
        out.netlog = log
        out.end_time = sim.now()
        out.nsub = 1
        out.addr = {"s": SERVER}
        for e in log:
            if e[0] == "tx" and e[4] == SERVER:
                out.addr["c"] = e[3]; break
        vals = [v for (_, _, v) in sim.prudp_rand.log]
        g = 3 if (cfg.transport == "udp" and cfg.version != 0) else 2
        groups = [vals[i:i + g] for i in range(0, len(vals), g)]
        norm = (lambda gr: (gr[0], gr[1], gr[2])) if g == 3 else (lambda gr: (1, gr[0], gr[1]))
        out.rnd_groups = [norm(gr) for gr in groups if len(gr) == g]
        if out.rnd_groups: out.rnd.setdefault("c", out.rnd_groups[0])
        if len(out.rnd_groups) > 1: out.rnd.setdefault("s", out.rnd_groups[1])
        out.n_datagrams = sim.net.ngen if cfg.transport != "lite" else getattr(sim.net, "sgen", 0)
        out.bound = bound
        if cfg.transport == "lite":
            out.skip_l1 = True
    return out


class _Skip(Exception):
    pass


def run_special(cfg, seed, scenario):
    """Further ways a connection ends (C02 'for any reason'):
    'local-close:c' / 'local-close:s' — a forceful local close() issued by one task while other tasks of the same application
        are blocked in recv / recv_unreliable on that connection;
    'refused:<why>' — a keyed server refuses the client's login (why = wrong-key | expired | garbage), then the same address
        connects again with a valid ticket;
    'handler-raises:<when>' — the server application's handler ends with an exception (when = eof: a plain `while True: recv()`
        loop lets end-of-stream escape when the client disconnects | reject: it raises on the first request), then the same
        address connects again.
    'incompatible:<kind>' — a peer that answers SYN and CONNECT correctly at packet level but with whom no connection can be
        established: kind = creds-vs-keyless (the client presents a ticket to a port served without a key: the connection response
        is empty) | keyless-vs-keyed (a client without credentials at a keyed port); then a compatible client from the same address.
    'ticket-again:<seconds>' — an ordinary session with a fresh ticket, a graceful disconnect, and <seconds> later the SAME credentials
        (byte-identical ticket) presented to the same server again.
    'cancelled-exit:<seconds>' — the client's connection block is left by cancellation (a time-out scope) after <seconds> while
        tasks outside the block are blocked in recv / recv_unreliable on the connection object.
    'unread-unreliable:<side>' — <side> (c|s) sends 150 unreliable datagrams that the receiving application never reads, then
        reliable traffic, a graceful disconnect and a reconnect must go on as usual;
    'extra-substreams:<who>' — <who> (c|s) is configured with 3 substreams, the peer with 1 (negotiated: 1); the application has a
        recv pending on EVERY configured substream when the connection ends (graceful disconnect by the client).
    Same result shape as run()."""
    rng = random.Random(seed)
    out = ps.Session()
    out.cfg = out.cfg_s = cfg
    out.seed, out.ops, out.kill = seed, [], None
    bound = cfg.ping_timeout + (cfg.resend_limit + 1) * cfg.resend_timeout
    kind, _, arg = scenario.partition(":")
    with Sim(seed) as sim:
        s = cfg.settings()
        out.settings = out.settings_s = s
        s_srv = s
        if kind == "extra-substreams":
            import copy
            big, small = copy.copy(cfg), copy.copy(cfg)
            big.max_substream, small.max_substream = 2, 0
            s, s_srv = (big.settings(), small.settings()) if arg == "c" else (small.settings(), big.settings())
            out.settings, out.settings_s = s, s_srv
            out.cfg, out.cfg_s = (big, small) if arg == "c" else (small, big)
        sim.install_factories(fixed_client_addr=True)
        sim.net.fate = lambda tx: [0.01]
        good, session_key = (None, b"")
        if cfg.credentials:
            good, session_key = ps.make_credentials(s, random.Random(rng.random()), cfg.key_size)
        creds = good
        server_key = b"server key" if cfg.credentials else None
        if kind == "incompatible":
            good, session_key = ps.make_credentials(s, random.Random(rng.random()), cfg.key_size)
            if arg == "creds-vs-keyless":
                creds, server_key = good, None
                good = None                     # the compatible client of the reconnect has no credentials either
            else:
                creds, server_key = None, b"server key"
        if kind == "refused":
            if arg == "wrong-key":
                creds, session_key = ps.make_credentials(s, random.Random(rng.random()), cfg.key_size, server_key=b"another server's key")
            elif arg == "expired":
                real_now = common_now = None
                from nintendo.nex import common
                t0 = sim.epoch
                creds, session_key = ps.make_credentials(s, random.Random(rng.random()), cfg.key_size)
                # a ticket issued 10 minutes ago
                import nintendo.nex.kerberos as kerberos
                tk = kerberos.ServerTicket()
                tk.timestamp = common.DateTime.fromtimestamp(t0 - 600)
                tk.source = 1000
                tk.session_key = session_key
                creds.ticket.internal = tk.encrypt(b"server key", s)
            else:
                creds, session_key = ps.make_credentials(s, random.Random(rng.random()), cfg.key_size)
                creds.ticket.internal = bytes(rng.randrange(256) for _ in range(len(creds.ticket.internal)))
        out.creds, out.session_key, out.epoch = creds, session_key, sim.epoch
        if kind == "incompatible":
            import copy
            out.cfg_s = copy.copy(cfg); out.cfg_s.credentials = server_key is not None     # what the L1 trace binds the server with
            out.server_key = server_key or b"server key"
        out.rnd, out.accepted, out.send_errors, out.extra_handlers = {}, [], [], []
        out.got = {("c", 0): [], ("s", 0): []}
        out.gotu = {"c": [], "s": []}
        out.connect_error = None
        out.checkpoints = []
        out.handler_started = (kind in ("refused", "incompatible"))     # after a refusal the first handler that starts belongs to the reconnect: plain echo
        out.errors = []
        log = sim.net.log
        stream_ref = {}
        closed_at = {}

        def op_start(name):
            out.ops.append([name, sim.now(), None, None]); return len(out.ops) - 1
        def op_end(i, outcome):
            out.ops[i][2] = sim.now(); out.ops[i][3] = outcome

        async def sub_reader(side, client, sub):
            i = op_start("recv(%d)@%s" % (sub, side))
            try:
                while True:
                    await client.recv(sub)
            except anyio.EndOfStream:
                op_end(i, "eof")

        async def reader(side, client):
            i = op_start("recv@" + side)
            try:
                while True:
                    d = await client.recv(0)
                    out.got[(side, 0)].append(d)
                    log.append(("deliver", sim.now(), side, 0, d))
                    op_end(i, "data")
                    i = op_start("recv@" + side)
            except anyio.EndOfStream:
                log.append(("eof", sim.now(), side, 0))
                op_end(i, "eof")

        async def ureader(side, client):
            i = op_start("recv_unreliable@" + side)
            try:
                while True:
                    await client.recv_unreliable()
            except anyio.EndOfStream:
                op_end(i, "eof")

        async def send(side, client, data):
            i = op_start("send@" + side)
            log.append(("app", sim.now(), side, "send", 0, bytes(data)))
            try:
                await client.send(data, 0)
                out.accepted.append((side, 0, data)); op_end(i, "ok")
            except anyio.ClosedResourceError:
                op_end(i, "closed")
            except Exception as e:
                op_end(i, "error:" + type(e).__name__)

        async def closer(side, client, delay):
            await anyio.sleep(quant(delay))
            i = op_start("close@" + side)
            closed_at[side] = sim.now()
            log.append(("app", sim.now(), side, "close", 0, b""))
            await client.close()
            op_end(i, "returned")

        async def late_recv(side, client):
            i = op_start("late-recv@" + side)
            try:
                with anyio.fail_after(quant(bound + 5)):
                    await client.recv(0)
                op_end(i, "data")
            except anyio.EndOfStream:
                op_end(i, "eof")
            except TimeoutError:
                op_end(i, "BLOCKED")

        async def handler(client):
            if out.handler_started:
                # second connection (after the refusal / the close): a plain echo server
                try:
                    while True:
                        d = await client.recv()
                        await client.send(b"echo:" + d)
                except anyio.EndOfStream:
                    return
            out.handler_started = True
            out.server_pid = client.pid()
            out.rnd["s"] = (client.sequence_mgr.initial_unreliable_id, client.connection_check, client.local_session_id)
            if kind == "handler-raises":
                hi = op_start("handler")
                try:
                    while True:
                        try:
                            d = await client.recv(0)
                        except anyio.EndOfStream:
                            log.append(("eof", sim.now(), "s", 0))
                            raise
                        out.got[("s", 0)].append(d)
                        log.append(("deliver", sim.now(), "s", 0, d))
                        if arg == "reject":
                            raise ValueError("malformed request")
                finally:
                    log.append(("app", sim.now(), "s", "raised", 0, b""))
                    op_end(hi, "raised")
            hi = op_start("handler")
            async with anyio.create_task_group() as tg:
                if scenario != "unread-unreliable:c":
                    tg.start_soon(ureader, "s", client)
                if kind == "extra-substreams":
                    for k in range(1, s_srv["prudp.max_substream_id"] + 1):
                        tg.start_soon(sub_reader, "s", client, k)
                if scenario == "unread-unreliable:s":
                    for j in range(150):
                        log.append(("app", sim.now(), "s", "sendu", 0, b"u%d" % j))
                        await client.send_unreliable(b"u%d" % j)
                    tg.start_soon(send, "s", client, b"after the burst")
                if scenario == "local-close:s":
                    tg.start_soon(closer, "s", client, 0.2617)
                await reader("s", client)
            await late_recv("s", client)
            await send("s", client, b"late")
            log.append(("app", sim.now(), "s", "done", 0, b""))
            op_end(hi, "returned")

        async def main():
            async with prudp.serve_transport(s_srv, SERVER[0], SERVER[1]) as transport:
                async with transport.serve(handler, 1, 10, server_key):
                    stream_ref["stream"] = transport.ports.get(1, 10)
                    ci = op_start("connect")
                    log.append(("app", sim.now(), "c", "connect", 0, b""))
                    if kind == "cancelled-exit":
                        # the connection block is left by CANCELLATION (a time-out scope around the session) while tasks outside the block
                        # still use the connection object: they must be released, later calls must see a closed connection, and the peer
                        # — who is told nothing — must notice through its keep-alive
                        holder, ready = {}, anyio.Event()
                        async def outside(fn):
                            await ready.wait()
                            await fn("c", holder["client"])
                        try:
                            async with anyio.create_task_group() as otg:
                                otg.start_soon(outside, reader)
                                otg.start_soon(outside, ureader)
                                with anyio.move_on_after(quant(float(arg))) as scope:
                                    async with prudp.connect(s, SERVER[0], SERVER[1], credentials=creds) as client:
                                        op_end(ci, "ok")
                                        out.rnd["c"] = (client.sequence_mgr.initial_unreliable_id, client.connection_check, client.local_session_id)
                                        holder["client"] = client; ready.set()
                                        await send("c", client, b"hello " * 5)
                                        await anyio.sleep(quant(1000.0))
                                closed_at["c"] = sim.now()
                                out.skip_l1 = True
                                await late_recv("c", client)
                                await send("c", client, b"late")
                        except BaseException as e:
                            out.errors.append(("client", repr(e)))
                        raise_after = True
                    else:
                        raise_after = False
                    try:
                        if raise_after:
                            raise _Skip()
                        async with prudp.connect(s, SERVER[0], SERVER[1], credentials=creds) as client:
                            op_end(ci, "ok")
                            out.rnd["c"] = (client.sequence_mgr.initial_unreliable_id, client.connection_check, client.local_session_id)
                            log.append(("app", sim.now(), "c", "connected", 0, b""))
                            async with anyio.create_task_group() as tg:
                                tg.start_soon(reader, "c", client)
                                if scenario != "unread-unreliable:s":
                                    tg.start_soon(ureader, "c", client)
                                if kind == "extra-substreams":
                                    for k in range(1, s["prudp.max_substream_id"] + 1):
                                        tg.start_soon(sub_reader, "c", client, k)
                                await send("c", client, b"hello " * 5)
                                if scenario == "unread-unreliable:c":
                                    for j in range(150):
                                        log.append(("app", sim.now(), "c", "sendu", 0, b"u%d" % j))
                                        await client.send_unreliable(b"u%d" % j)
                                    await send("c", client, b"after the burst")
                                if kind in ("unread-unreliable", "extra-substreams", "ticket-again"):
                                    await anyio.sleep(quant(0.2617))
                                    di = op_start("disconnect")
                                    log.append(("app", sim.now(), "c", "disconnect", 0, b""))
                                    await client.disconnect()
                                    op_end(di, "returned")
                                if scenario == "local-close:c":
                                    await closer("c", client, 0.2617)
                                if scenario == "handler-raises:eof":
                                    await anyio.sleep(quant(0.2617))
                                    di = op_start("disconnect")
                                    log.append(("app", sim.now(), "c", "disconnect", 0, b""))
                                    await client.disconnect()
                                    op_end(di, "returned")
                                # the readers end with EOF once the connection is closed (by us or by the peer)
                            await late_recv("c", client)
                            await send("c", client, b"late")
                            xi = op_start("async-with-exit")
                        op_end(xi, "returned")
                        log.append(("app", sim.now(), "c", "closed", 0, b""))
                    except _Skip:
                        pass
                    except BaseException as e:
                        if out.ops[ci][2] is None:
                            op_end(ci, "failed")
                            out.connect_error = repr(e)
                            log.append(("app", sim.now(), "c", "connect-failed", 0, b""))
                        else:
                            out.errors.append(("client", repr(e)))
                    await anyio.sleep(quant(bound + 1.0 if kind != "ticket-again" else float(arg)))
                    out.server_table = len(stream_ref["stream"].clients)
                    log.append(("app", sim.now(), "c", "reconnect", 0, b""))
                    ri = op_start("reconnect")
                    try:
                        async with prudp.connect(s, SERVER[0], SERVER[1], credentials=good) as c2:
                            await c2.send(b"again")
                            with anyio.fail_after(quant(bound + 5)):
                                d = await c2.recv()
                            op_end(ri, "ok" if d == b"echo:again" else "wrong-echo:%r" % d[:20])
                    except BaseException as e:
                        op_end(ri, "failed:" + repr(e)[:80])

        async def guarded():
            with anyio.move_on_after(10 * bound + 60 + (float(arg) if kind == "ticket-again" else 0)) as scope:
                await main()
            out.timed_out = scope.cancelled_caught
        try:
            sim.run(guarded()); out.crash = None
        except Deadlock as e:
            out.crash = "deadlock: " + str(e); out.timed_out = False
        except BaseException as e:
            out.crash = repr(e); out.timed_out = False
        out.closed_at = closed_at
        out.dead_at = None
        out.netlog = log
        out.end_time = sim.now()
        out.nsub = 1
        out.addr = {"s": SERVER}
        for e in log:
            if e[0] == "tx" and e[4] == SERVER:
                out.addr["c"] = e[3]; break
        vals = [v for (_, _, v) in sim.prudp_rand.log]
        g = 3 if (cfg.transport == "udp" and cfg.version != 0) else 2
        groups = [vals[i:i + g] for i in range(0, len(vals), g)]
        norm = (lambda gr: (gr[0], gr[1], gr[2])) if g == 3 else (lambda gr: (1, gr[0], gr[1]))
        out.rnd_groups = [norm(gr) for gr in groups if len(gr) == g]
        if out.rnd_groups: out.rnd.setdefault("c", out.rnd_groups[0])
        if len(out.rnd_groups) > 1: out.rnd.setdefault("s", out.rnd_groups[1])
        out.n_datagrams = sim.net.ngen
        out.bound = bound
    return out


def run_two_clients(cfg, seed, how_a_ends):
    """Two clients A and B connected to one server port at the same time. A's connection ends (how_a_ends = 'disconnect' | 'dies' |
    'kicked'), later B's link dies silently: B's server-side connection must still be supervised — its handler is released within
    the bound and the server forgets it. ops: (name, t_start, t_end, outcome); out.b_dead_at; out.server_table."""
    rng = random.Random(seed)
    out = ps.Session()
    out.cfg = out.cfg_s = cfg
    out.seed, out.ops, out.kill = seed, [], None
    out.skip_l1 = True
    bound = cfg.ping_timeout + (cfg.resend_limit + 1) * cfg.resend_timeout
    with Sim(seed) as sim:
        s = cfg.settings()
        out.settings = out.settings_s = s
        sim.install_factories()
        dead = set()
        sim.net.fate = lambda tx: [] if (tx.src in dead or tx.dst in dead) else [0.01]
        log = sim.net.log
        stream_ref, addr, handlers = {}, {}, {}
        out.errors = []

        def op_start(name):
            out.ops.append([name, sim.now(), None, None]); return len(out.ops) - 1
        def op_end(i, outcome):
            out.ops[i][2] = sim.now(); out.ops[i][3] = outcome

        async def handler(client):
            who = None
            i = None
            try:
                while True:
                    d = await client.recv()
                    if who is None:
                        who = d[:1].decode()
                        handlers[who] = client
                        i = op_start("handler@" + who)
                    await client.send(b"echo:" + d)
                    if how_a_ends == "kicked" and who == "A" and d.endswith(b"2"):
                        await client.close()
            except anyio.EndOfStream:
                pass
            if i is not None:
                op_end(i, "returned")

        async def client(name, rounds, end):
            i = op_start("connect@" + name)
            try:
                async with prudp.connect(s, SERVER[0], SERVER[1]) as c:
                    addr[name] = c.local_address()
                    op_end(i, "ok")
                    for r in range(rounds):
                        await c.send(name.encode() + b":%d" % r)
                        with anyio.move_on_after(quant(bound + 2)):
                            await c.recv()
                        await anyio.sleep(quant(0.2617))
                    if end == "disconnect":
                        j = op_start("disconnect@" + name)
                        await c.disconnect()
                        op_end(j, "returned")
                    elif end == "dies":
                        dead.add(addr[name])
                        setattr(out, name.lower() + "_dead_at", sim.now())
                        with anyio.move_on_after(quant(3 * bound + 5)):
                            try:
                                while True: await c.recv()
                            except anyio.EndOfStream:
                                pass
                    elif end == "wait":
                        try:
                            while True: await c.recv()
                        except anyio.EndOfStream:
                            pass
            except BaseException as e:
                if out.ops[i][2] is None:
                    op_end(i, "failed:" + repr(e)[:60])

        async def main():
            async with prudp.serve_transport(s, SERVER[0], SERVER[1]) as transport:
                async with transport.serve(handler, 1, 10, None):
                    stream_ref["stream"] = transport.ports.get(1, 10)
                    async with anyio.create_task_group() as tg:
                        tg.start_soon(client, "A", 3, {"disconnect": "disconnect", "dies": "dies", "kicked": "wait"}[how_a_ends])
                        await anyio.sleep(quant(0.05))
                        # B stays connected well beyond the end of A (whatever way A ends), then its link dies silently
                        tg.start_soon(client, "B", 3 + int((2 * bound + 2) / 0.3), "dies")
                    await anyio.sleep(quant(bound + 1.0))
                    out.server_table = len(stream_ref["stream"].clients)

        async def guarded():
            with anyio.move_on_after(20 * bound + 60) as scope:
                await main()
            out.timed_out = scope.cancelled_caught
        try:
            sim.run(guarded()); out.crash = None
        except Deadlock as e:
            out.crash = "deadlock: " + str(e); out.timed_out = False
        except BaseException as e:
            out.crash = repr(e); out.timed_out = False
        out.netlog = log
        out.end_time = sim.now()
        out.n_datagrams = sim.net.ngen
        out.bound = bound
        out.b_dead_at = getattr(out, "b_dead_at", None)
    return out
