import NxModel.Api.Settings
/-!
# What the consumers of each setting derive from it

One observable per consumer site, mirroring the code that reads the setting (file:line in the comments,
`nintendo/nex/…`).  `observe s` is the list the correspondence compares with the same observations made on
the real consumer objects (`PRUDPClient`, `PRUDPMessageV0`, `PayloadEncoder`, `PRUDPMessageSelector`,
`SequenceMgr`, `StreamOut`, `Structure.encode`, `BackEndClient`, `RVConnectionData`, the Kerberos tickets).
A setting *takes effect* when two values of it give different observations.
`prudp.encryption` is consulted by no consumer (cipher choice follows `prudp.transport`, prudp.py:595-598):
the model mirrors that, so its effect theorem is the *negation*.
-/
namespace Nx.Api
open Nx

def Settings.int (s : Settings) (k : Key) : Int := match s k with | some (.int i) => i | _ => 0
def Settings.chars (s : Settings) (k : Key) : List Char := match s k with | some (.str c) => c | _ => []
def Settings.rat (s : Settings) (k : Key) : Int × Nat := match s k with | some (.rat n d) => (n, d) | _ => (0, 1)

structure Obs where
  /- PRUDPClient.__init__ (prudp.py:719-725) -/
  fragmentSize : Int
  resendTimeout : Int × Nat
  resendLimit : Int
  pingTimeout : Int × Nat
  maxSubstreamId : Int
  supportedFunctions : Int
  minorVer : Int
  /- PRUDPMessageV0.__init__ (prudp.py:132-136) -/
  v0Signature : Int
  v0Checksum : Int
  v0Flags : Int
  accessKey : List Char
  /- PayloadEncoder.__init__ (prudp.py:583-598) -/
  reliableCiphers : Int            -- max_substream_id + 1
  compression : String             -- DummyCompression | ZlibCompression
  cipher : String                  -- RC4Encryption | DummyEncryption  (by transport!)
  /- PRUDPMessageSelector (prudp.py:510-524) -/
  selected : String                -- select(settings["prudp.version"])
  analyzeV1Magic : String          -- analyze(b"\xEA\xD0\x01…")
  analyzeOther : String            -- analyze(b"\x00…")
  /- SequenceMgr.__init__ (prudp.py:673-680) -/
  counters : Int
  randomUnreliableId : Bool
  /- StreamOut.pid (streams.py:12) -/
  pidBytes : Nat
  /- Structure.encode (common.py:82) for ResultRange(0, 10) -/
  structHeader : Bool
  /- BackEndClient.__init__/login (backend.py:25-39), RVConnectionData.max_version (authentication.py:48) -/
  authProto : String
  loginPath : String
  rvMaxVersion : Nat
  keyDerivation : String
  /- BackEndClient.login_with_param (backend.py:120-121) -/
  paramNexVersion : Int
  paramClientVersion : Int
  /- kerberos.ClientTicket.encrypt with a 32-byte session key (kerberos.py:80), ServerTicket.encrypt length (kerberos.py:120-135) -/
  clientTicket32Ok : Bool
  serverTicketLen : Option Int
  deriving DecidableEq, Repr

def selectName (transport version : Int) : String :=
  if transport = 0 then (if version = 0 then "PRUDPMessageV0" else "PRUDPMessageV1") else "PRUDPLiteMessage"

def observe (s : Settings) : Obs :=
  let transport := s.int .prudpTransport
  let version := s.int .prudpVersion
  let nex := s.int .nexVersion
  let pid : Nat := if s.int .nexPidSize = 8 then 8 else 4
  let ks := s.int .kerberosKeySize
  { fragmentSize := s.int .prudpFragmentSize
    resendTimeout := s.rat .prudpResendTimeout
    resendLimit := s.int .prudpResendLimit
    pingTimeout := s.rat .prudpPingTimeout
    maxSubstreamId := s.int .prudpMaxSubstreamId
    supportedFunctions := s.int .prudpSupportedFunctions
    minorVer := s.int .prudpMinorVersion
    v0Signature := s.int .v0SignatureVersion
    v0Checksum := s.int .v0ChecksumVersion
    v0Flags := s.int .v0FlagsVersion
    accessKey := s.chars .prudpAccessKey
    reliableCiphers := s.int .prudpMaxSubstreamId + 1
    compression := if s.int .prudpCompression = 0 then "DummyCompression" else "ZlibCompression"
    cipher := if transport = 0 then "RC4Encryption" else "DummyEncryption"
    selected := selectName transport version
    analyzeV1Magic := if transport = 0 ∧ version = 2 then "PRUDPMessageV1" else selectName transport version
    analyzeOther := if transport = 0 ∧ version = 2 then "PRUDPMessageV0" else selectName transport version
    counters := s.int .prudpMaxSubstreamId + 1
    randomUnreliableId := transport = 0 ∧ version ≠ 0
    pidBytes := pid
    structHeader := s.int .nexStructHeader ≠ 0
    authProto := if nex < 40000 then "AuthenticationClient" else "AuthenticationClientNX"
    loginPath := if nex < 40000 then "login_old" else if nex < 40400 then "login_switch" else "login_with_param"
    rvMaxVersion := if nex ≥ 30500 then 1 else 0
    keyDerivation := if s.int .kerberosKeyDerivation = 0 then "KeyDerivationOld" else "KeyDerivationNew"
    paramNexVersion := nex
    paramClientVersion := s.int .nexClientVersion
    clientTicket32Ok := ks = 32
    serverTicketLen :=
      if ks = 32 then
        let enc : Int := 8 + pid + 32 + 16
        some (if s.int .kerberosTicketVersion = 1 then 4 + 16 + 4 + enc else enc)
      else none }

/-- the shipped `default.cfg` as the dict it loads to (checked against the translated file on every run) -/
def defaults : Settings := fun k =>
  match k with
  | .nexVersion => some (.int 0) | .nexClientVersion => some (.int 0) | .nexStructHeader => some (.int 0) | .nexPidSize => some (.int 4)
  | .prudpAccessKey => some (.str []) | .prudpVersion => some (.int 2) | .prudpMinorVersion => some (.int 4)
  | .prudpSupportedFunctions => some (.int 0) | .prudpTransport => some (.int 0) | .prudpCompression => some (.int 0)
  | .prudpEncryption => some (.int 1) | .prudpResendTimeout => some (.rat 1 1) | .prudpResendLimit => some (.int 2)
  | .prudpPingTimeout => some (.rat 5 1) | .prudpFragmentSize => some (.int 1300) | .prudpMaxSubstreamId => some (.int 0)
  | .v0SignatureVersion => some (.int 0) | .v0FlagsVersion => some (.int 1) | .v0ChecksumVersion => some (.int 1)
  | .kerberosKeySize => some (.int 32) | .kerberosKeyDerivation => some (.int 0) | .kerberosTicketVersion => some (.int 1)

/-- two values per key whose observations differ (the witnesses of the effect theorems) -/
def witness : Key → Val × Val
  | .prudpAccessKey => (.str "a".toList, .str "b".toList)
  | .prudpResendTimeout => (.rat 1 1, .rat 5 2)
  | .prudpPingTimeout => (.rat 5 1, .rat 1 2)
  | .nexVersion => (.int 30000, .int 40400)
  | .nexPidSize => (.int 4, .int 8)
  | .kerberosKeySize => (.int 32, .int 16)
  | .prudpVersion => (.int 0, .int 1)
  | .prudpFragmentSize => (.int 1300, .int 962)
  | _ => (.int 0, .int 1)

/-- does changing key `k` between its two witness values change any observation (from the defaults)? -/
def effective (k : Key) : Bool :=
  observe (defaults.set k (witness k).1) != observe (defaults.set k (witness k).2)

end Nx.Api
