#!/usr/bin/env python3
"""Regenerates /verif/MANIFEST.json from the table below (kept valid at all times)."""
import json, os
V = os.path.dirname(os.path.dirname(os.path.abspath(__file__)))
IDS = ["C%02d" % i for i in range(1, 21)]

def load_claimed():
    d = os.path.join(V, "manifest.d")
    res = {}
    for f in sorted(os.listdir(d)):
        if f.endswith(".json"):
            e = json.load(open(os.path.join(d, f)))
            res[e["property_id"]] = e
    return res

CLAIMED = load_claimed()
NOT_YET = "machinery for this property is not built yet in this revision (planned in DESIGN.md §5); not claimed until its check exists"

NA = {}

def main():
    checks = []
    na = []
    for i in IDS:
        if i in CLAIMED:
            c = CLAIMED[i]
            checks.append({
                "property_id": i,
                "quick_cmd": "./check %s --tier quick" % i,
                "thorough_cmd": "./check %s --tier thorough" % i,
                "evidence_file": "/verif/evidence/%s.json" % i,
                "replay_cmd_template": "./check %s --replay {path}" % i,
                "engine": "lean4-model+correspondence",
                "level_claimed": {"category": c["category"], "text": c["text"], "design_ref": c["design_ref"]},
                "level_note": c["note"],
                "technique": c["technique"],
            })
        elif i in NA:
            na.append({"property_id": i, "reason": NA[i]})
        else:
            na.append({"property_id": i, "reason": NOT_YET})
    m = {
        "version": 1,
        "setup_cmd": "./setup.sh",
        "hooks": {
            "guard": "NINTENDOCLIENTS_VERIF",
            "enable": "no source hooks are needed: the harness substitutes sockets, clocks and randomness from outside (DESIGN.md §1); the guard names nothing in /repo",
            "baseline_off_cmd": "cd /repo && /venv/bin/python -m pytest -ra -q -p no:cacheprovider --timeout=900 --continue-on-collection-errors",
            "source_commits": [],
            "add_only": True,
        },
        "engines": [{
            "name": "lean4-model+correspondence",
            "path": "/verif/lean (NxModel, NxProofs, NxProps, Driver) + /verif/harness + /verif/lib/vf.py",
            "serves_properties": sorted(CLAIMED),
            "kind_free_text": "machine-checked proofs in Lean 4 over hand-written executable models and translator-generated data; models tied to /repo on every run by differential correspondence through compiled line-protocol drivers and by kernel-checked generated obligations",
        }],
        "checks": checks,
        "not_applicable": na,
        "notes": "exit 0 = held; exit 1 + VIOLATION line = violation; exit 2 = infrastructure error. Fix commits in /repo: see known_findings.json.",
    }
    with open(os.path.join(V, "MANIFEST.json"), "w") as f:
        json.dump(m, f, indent=1)

if __name__ == "__main__":
    main()
