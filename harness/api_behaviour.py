"""C20 — transport knobs take effect in behaviour, not only as attribute values: for two values of each of
prudp.resend_timeout, prudp.resend_limit, prudp.ping_timeout, prudp.fragment_size, prudp.max_substream_id the observable
the documentation attaches to the knob is measured on real endpoints in virtual time (harness/sim.py) and must follow the
configured value; every session is also replayed through the Lean L1 endpoint model (driver C02), which takes the same
settings as input and must predict every datagram at its exact instant."""
import multiprocessing, os, traceback
import prudp_session as ps
import crash_session as cs
import l1_corr
from sim import ticks


def job(args):
    kind, cfgd = args
    try:
        cfg = ps.Cfg(**cfgd)
        bad = []
        if kind == "silent-peer":
            se = cs.run(cfg, 1, (0, "both"))
            conn = [o for o in se.ops if o[0] == "connect"][0]
            want_t = (cfg.resend_limit + 1) * cfg.resend_timeout
            syn = [e for e in se.netlog if e[0] == "tx" and e[4] == ps.SERVER and e[2] <= want_t + 1.0]
            if conn[3] != "failed" or conn[2] is None or abs(conn[2] - want_t) > 1e-3:
                bad.append("connect to a silent peer ended %r at %s; with resend_limit=%d, resend_timeout=%s it must fail at %.3f"
                           % (conn[3], conn[2], cfg.resend_limit, cfg.resend_timeout, want_t))
            if len(syn) != cfg.resend_limit + 1:
                bad.append("a silent peer was sent %d SYN datagrams; resend_limit=%d means %d" % (len(syn), cfg.resend_limit, cfg.resend_limit + 1))
            else:
                gaps = [round(b[2] - a[2], 4) for a, b in zip(syn, syn[1:])]
                if any(abs(g - cfg.resend_timeout) > 1e-3 for g in gaps):
                    bad.append("retransmission intervals %r; resend_timeout=%s" % (gaps, cfg.resend_timeout))
            return kind, cfgd, bad, se, None
        if kind == "link-dies":
            # the link dies right after the handshake and the first data message: the unacknowledged packet is retransmitted
            # resend_limit times, then the connection is torn down
            ref = cs.run(cfg, 1, None)
            se = cs.run(cfg, 1, (6, "both"))
            dead = se.dead_at
            obs = ps.Observer(se.settings, cfg)
            later = [e for e in se.netlog if e[0] == "tx" and e[3] != ps.SERVER and e[2] >= dead - 1e-9]
            per = {}
            for e in later:
                for p in obs.decode(e[5]):
                    if p.flags & 2 and not p.flags & 1:
                        per.setdefault((p.type, p.packet_id), []).append(e[2])
            if not per:
                bad.append("nothing was retransmitted after the link died at %.3f" % dead)
            for key, times in per.items():
                if len(times) > cfg.resend_limit + 1:
                    bad.append("packet type %d id %d was transmitted %d times after the link died; resend_limit=%d allows %d" % (key[0], key[1], len(times), cfg.resend_limit, cfg.resend_limit + 1))
            eof = [o for o in se.ops if o[0] == "recv@c" and o[3] == "eof"]
            bound = cfg.ping_timeout + (cfg.resend_limit + 1) * cfg.resend_timeout
            if not eof or eof[0][2] is None or eof[0][2] > dead + bound + 0.06:
                bad.append("the client's recv was released at %s after the link died at %.3f; ping_timeout=%s, resend_limit=%d, resend_timeout=%s allow %.3f"
                           % (eof[0][2] if eof else None, dead, cfg.ping_timeout, cfg.resend_limit, cfg.resend_timeout, dead + bound))
            return kind, cfgd, bad, se, None
        if kind == "idle":
            # an idle established connection: the first keep-alive of each side goes out ping_timeout after its handshake ended
            se = ps.run_session(cfg, 3, [[("c", 0, b"x")], [("c", 0, b"y")]], lambda sim, r: (lambda tx: [0.01]), phases_gap=cfg.ping_timeout * 2.5)
            obs = ps.Observer(se.settings, cfg)
            first = {}
            hs_end = {}
            for e in se.netlog:
                if e[0] != "tx": continue
                side = "s" if e[3] == ps.SERVER else "c"
                for p in obs.decode(e[5]):
                    if p.type == 1 and side == "c" and not p.flags & 1: hs_end.setdefault("s", e[2] + 0.01)    # server: CONNECT arrives
                    if p.type == 1 and side == "s" and p.flags & 1: hs_end.setdefault("c", e[2] + 0.01)        # client: CONNECT/ACK arrives
                    if p.type == 4 and not p.flags & 1: first.setdefault(side, e[2])
            for side in "cs":
                if side not in first or side not in hs_end:
                    bad.append("no keep-alive was sent by %s during an idle period of %.2f s (ping_timeout=%s)" % (side, cfg.ping_timeout * 2.5, cfg.ping_timeout))
                elif abs((first[side] - hs_end[side]) - cfg.ping_timeout) > 0.02:
                    bad.append("first keep-alive of %s %.3f s after its handshake ended; ping_timeout=%s" % (side, first[side] - hs_end[side], cfg.ping_timeout))
            return kind, cfgd, bad, se, None
        if kind == "fragments":
            n = cfgd["_len"]
            cfg = ps.Cfg(**{k: v for k, v in cfgd.items() if not k.startswith("_")})
            se = ps.run_session(cfg, 5, [[("c", 0, bytes(range(256)) * (n // 256) + bytes(range(n % 256)))]], lambda sim, r: (lambda tx: [0.01]), phases_gap=0.2)
            obs = ps.Observer(se.settings, cfg)
            sizes = []
            for e in se.netlog:
                if e[0] == "tx" and e[3] != ps.SERVER:
                    for p in obs.decode(e[5]):
                        if p.type == 2 and not p.flags & 1: sizes.append(len(p.payload))
            fs = cfg.fragment_size
            want = [fs] * (n // fs) + ([n % fs] if n % fs else [])
            if sizes != want:
                bad.append("a %d-byte message went out as fragments of %r bytes; fragment_size=%d means %r" % (n, sizes[:12], fs, want[:12]))
            if se.got.get(("s", 0)) != [bytes(range(256)) * (n // 256) + bytes(range(n % 256))]:
                bad.append("the %d-byte message did not arrive intact with fragment_size=%d" % (n, fs))
            return kind, cfgd, bad, se, None
        if kind == "substreams":
            m = cfg.max_substream
            se = ps.run_session(cfg, 7, [[("c", m, b"top"), ("s", m, b"pot"), ("c", m + 1, b"beyond")]], lambda sim, r: (lambda tx: [0.01]), phases_gap=0.2)
            if se.got.get(("s", m)) != [b"top"] or se.got.get(("c", m)) != [b"pot"]:
                bad.append("max_substream_id=%d: substream %d did not carry data" % (m, m))
            if not [e for e in se.send_errors if e[0] == "c" and e[1] == m + 1]:
                bad.append("max_substream_id=%d: a send on substream %d was not refused" % (m, m + 1))
            return kind, cfgd, bad, se, None
        raise ValueError(kind)
    except Exception:
        return kind, cfgd, [], None, traceback.format_exc()


def run(ctx, drv):
    quick = ctx.tier == "quick"
    base = dict(version=1, fragment_size=16, resend_timeout=0.5, ping_timeout=1.0, resend_limit=2)
    jobs = []
    for version in ((1,) if quick else (1, 0)):
        for lim in ((0, 1, 3) if quick else (0, 1, 2, 3, 4)):
            for rt in (0.5, 0.25):
                jobs.append(("silent-peer", dict(base, version=version, resend_limit=lim, resend_timeout=rt)))
        for lim, rt, pt in ((1, 0.5, 1.0), (3, 0.25, 1.0), (2, 0.5, 2.0)):
            jobs.append(("link-dies", dict(base, version=version, resend_limit=lim, resend_timeout=rt, ping_timeout=pt)))
        for pt in (1.0, 2.5, 0.5):
            jobs.append(("idle", dict(base, version=version, ping_timeout=pt, resend_timeout=0.25)))
        for fs, n in ((16, 100), (7, 100), (962, 3000), (1300, 3000), (50, 50), (50, 51)):
            jobs.append(("fragments", dict(base, version=version, fragment_size=fs, _len=n)))
    for m in (0, 1, 3):
        jobs.append(("substreams", dict(base, max_substream=m)))
    ndiff = 0
    with multiprocessing.Pool(min(16, os.cpu_count() or 4)) as pool:
        for kind, cfgd, bad, se, err in pool.imap_unordered(job, jobs, chunksize=2):
            if err:
                ctx.corr_break("c20-behaviour-harness", "session crashed in the harness", {"traceback": err, "kind": kind, "cfg": cfgd})
                continue
            ctx.case(key=("behaviour", kind, str(sorted(cfgd.items()))), nontrivial=True, tag="behaviour:" + kind)
            for what in bad:
                ctx.violation("knob-no-effect:behaviour:%s" % kind, "transport knob without (the documented) effect: " + what,
                              {"kind": kind, "cfg": cfgd, "how": "harness/api_behaviour.py job((kind, cfg))"})
            if se is not None and kind != "substreams":
                r = l1_corr.compare(drv, se, "x")
                if not r["ok"] and not bad:
                    ndiff += 1
                    if ndiff == 1:
                        ctx.corr_break("c20-behaviour-l1", "real endpoints and the Lean L1 model (same settings) disagree on a %s session" % kind,
                                       {"kind": kind, "cfg": cfgd, "diff": r["diffs"][0]})
    ctx.extra["behaviour_sessions"] = len(jobs)
