import NxModel.Bytes
/-!
# AES-128/192/256 (FIPS-197): block cipher, ECB decrypt, CBC encrypt (PKCS#7), CTR
Executable reference for the correspondence (never reasoned about). The S-box is *computed* from its
definition (inverse in GF(2^8) followed by the affine map), not typed in. Validated against the
FIPS-197 appendix vectors in the driver self-test and differentially against pycryptodome.
-/
namespace Nx.Crypto
open Nx

def xtime (a : UInt8) : UInt8 := (a <<< 1) ^^^ (if a &&& 0x80 ≠ 0 then 0x1b else 0)

def gmulAux : Nat → UInt8 → UInt8 → UInt8 → UInt8
  | 0, _, _, p => p
  | n + 1, a, b, p => gmulAux n (xtime a) (b >>> 1) (if b &&& 1 ≠ 0 then p ^^^ a else p)

/-- multiplication in GF(2^8) modulo x^8+x^4+x^3+x+1 -/
def gmul (a b : UInt8) : UInt8 := gmulAux 8 a b 0

def ginv (a : UInt8) : UInt8 :=
  match (List.range 256).find? (fun b => gmul a (UInt8.ofNat b) == 1) with
  | some b => UInt8.ofNat b
  | none => 0

def rotl8 (x : UInt8) (n : UInt8) : UInt8 := (x <<< n) ||| (x >>> (8 - n))

def sboxOf (a : UInt8) : UInt8 :=
  let x := ginv a
  x ^^^ rotl8 x 1 ^^^ rotl8 x 2 ^^^ rotl8 x 3 ^^^ rotl8 x 4 ^^^ 0x63

def sbox : Array UInt8 := ((List.range 256).map fun i => sboxOf (UInt8.ofNat i)).toArray

def invSbox : Array UInt8 :=
  (List.range 256).foldl (fun t i => t.set! (sbox[i]!).toNat (UInt8.ofNat i)) (Array.replicate 256 (0 : UInt8))

def subByte (b : UInt8) : UInt8 := sbox[b.toNat]!
def invSubByte (b : UInt8) : UInt8 := invSbox[b.toNat]!

/-- round constants `x^(i-1)` -/
def rcon : Nat → UInt8
  | 0 => 0x8d
  | n + 1 => xtime (rcon n)

/-- expanded key as a list of 4-byte words; `none` for an unsupported key length -/
def keyExpansion (key : Bytes) : Option (Array Bytes) :=
  let nk := key.length / 4
  if key.length ≠ 16 ∧ key.length ≠ 24 ∧ key.length ≠ 32 then none else
  let w0 : Array Bytes := ((List.range nk).map fun i => (key.drop (4 * i)).take 4).toArray
  let total := 4 * (nk + 7)
  some <| (List.range (total - nk)).foldl (fun w j =>
    let i := j + nk
    let prev := w[i - 1]!
    let temp :=
      if i % nk = 0 then
        match prev with
        | [a, b, c, d] => [subByte b ^^^ rcon (i / nk), subByte c, subByte d, subByte a]
        | _ => prev
      else if nk > 6 ∧ i % nk = 4 then prev.map subByte
      else prev
    w.push (List.zipWith (· ^^^ ·) w[i - nk]! temp)) w0

def roundKey (w : Array Bytes) (r : Nat) : Bytes :=
  w[4 * r]! ++ w[4 * r + 1]! ++ w[4 * r + 2]! ++ w[4 * r + 3]!

def xorB (a b : Bytes) : Bytes := List.zipWith (· ^^^ ·) a b

def shiftRows (s : Bytes) : Bytes :=
  let a := s.toArray
  (List.range 16).map fun i => let c := i / 4; let r := i % 4; a[4 * ((c + r) % 4) + r]!

def invShiftRows (s : Bytes) : Bytes :=
  let a := s.toArray
  (List.range 16).map fun i => let c := i / 4; let r := i % 4; a[4 * ((c + 4 - r) % 4) + r]!

def mixColumn : Bytes → Bytes
  | [a0, a1, a2, a3] =>
    [gmul 2 a0 ^^^ gmul 3 a1 ^^^ a2 ^^^ a3, a0 ^^^ gmul 2 a1 ^^^ gmul 3 a2 ^^^ a3,
     a0 ^^^ a1 ^^^ gmul 2 a2 ^^^ gmul 3 a3, gmul 3 a0 ^^^ a1 ^^^ a2 ^^^ gmul 2 a3]
  | l => l

def invMixColumn : Bytes → Bytes
  | [a0, a1, a2, a3] =>
    [gmul 14 a0 ^^^ gmul 11 a1 ^^^ gmul 13 a2 ^^^ gmul 9 a3, gmul 9 a0 ^^^ gmul 14 a1 ^^^ gmul 11 a2 ^^^ gmul 13 a3,
     gmul 13 a0 ^^^ gmul 9 a1 ^^^ gmul 14 a2 ^^^ gmul 11 a3, gmul 11 a0 ^^^ gmul 13 a1 ^^^ gmul 9 a2 ^^^ gmul 14 a3]
  | l => l

def perColumn (f : Bytes → Bytes) (s : Bytes) : Bytes :=
  f (s.take 4) ++ f ((s.drop 4).take 4) ++ f ((s.drop 8).take 4) ++ f ((s.drop 12).take 4)

def encryptBlockW (w : Array Bytes) (block : Bytes) : Bytes :=
  let nr := w.size / 4 - 1
  let s := xorB block (roundKey w 0)
  let s := (List.range (nr - 1)).foldl (fun s r =>
    xorB (perColumn mixColumn (shiftRows (s.map subByte))) (roundKey w (r + 1))) s
  xorB (shiftRows (s.map subByte)) (roundKey w nr)

def decryptBlockW (w : Array Bytes) (block : Bytes) : Bytes :=
  let nr := w.size / 4 - 1
  let s := xorB block (roundKey w nr)
  let s := (List.range (nr - 1)).foldl (fun s j =>
    let r := nr - 1 - j
    perColumn invMixColumn (xorB ((invShiftRows s).map invSubByte) (roundKey w r))) s
  xorB ((invShiftRows s).map invSubByte) (roundKey w 0)

def blocks16 (fuel : Nat) (b : Bytes) : List Bytes :=
  match fuel with
  | 0 => []
  | fuel + 1 => if b.isEmpty then [] else b.take 16 :: blocks16 fuel (b.drop 16)

/-- `AES.new(key, AES.MODE_ECB).decrypt(data)`; pycryptodome raises ValueError for a key that is not
    16/24/32 bytes and for data that is not a multiple of the block size -/
def aesEcbDecrypt (key data : Bytes) : Except Err Bytes :=
  match keyExpansion key with
  | none => .error .value
  | some w =>
    if data.length % 16 ≠ 0 then .error .value
    else .ok ((blocks16 (data.length / 16 + 1) data).flatMap (decryptBlockW w))

def aesEcbEncrypt (key data : Bytes) : Except Err Bytes :=
  match keyExpansion key with
  | none => .error .value
  | some w =>
    if data.length % 16 ≠ 0 then .error .value
    else .ok ((blocks16 (data.length / 16 + 1) data).flatMap (encryptBlockW w))

/-- `Crypto.Util.Padding.pad(data, 16)` (PKCS#7) -/
def pkcs7Pad (data : Bytes) : Bytes :=
  let n := 16 - data.length % 16
  data ++ List.replicate n (UInt8.ofNat n)

/-- `AES.new(key, AES.MODE_CBC, iv=iv).encrypt(data)` -/
def aesCbcEncrypt (key iv data : Bytes) : Except Err Bytes :=
  match keyExpansion key with
  | none => .error .value
  | some w =>
    if data.length % 16 ≠ 0 ∨ iv.length ≠ 16 then .error .value
    else
      let (out, _) := (blocks16 (data.length / 16 + 1) data).foldl (fun (acc : Bytes × Bytes) blk =>
        let c := encryptBlockW w (xorB blk acc.2)
        (acc.1 ++ c, c)) ([], iv)
      .ok out

/-- big-endian 128-bit counter block -/
def ctrBlock (n : Nat) : Bytes :=
  (List.range 16).map fun i => UInt8.ofNat (n / 256 ^ (15 - i) % 256)

def bytesToNatBE (b : Bytes) : Nat := b.foldl (fun a x => a * 256 + x.toNat) 0

/-- `AES.new(key, AES.MODE_CTR, nonce=b"", initial_value=iv).decrypt(data)`: the whole block is the
    counter (big endian), incremented modulo 2^128 (pycryptodome only refuses more than 2^128 blocks). -/
def aesCtr (key iv data : Bytes) : Except Err Bytes :=
  match keyExpansion key with
  | none => .error .value
  | some w =>
    if iv.length ≠ 16 then .error .value else
    let c0 := bytesToNatBE iv
    let nblocks := (data.length + 15) / 16
    let ks := (List.range nblocks).flatMap fun i => encryptBlockW w (ctrBlock ((c0 + i) % 2 ^ 128))
    .ok (xorB data ks)

end Nx.Crypto
