import NxModel.Nex.SchemaDriver
/-! driver for C13: the schema interpreter line protocol (see NxModel/Nex/SchemaDriver.lean) -/
def main : IO Unit := Nx.runState Nx.Schema.Drv.initEnv Nx.Schema.Drv.step
