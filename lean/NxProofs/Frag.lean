import NxModel.Prudp.Channel
/-! fragmentation and reassembly are inverse: nothing merged, nothing split -/
namespace Nx.Chan
open Nx

def absorbFrags (r : Reasm) (fs : List Frag) : Reasm := fs.foldl (fun r f => r.absorb f.fragId f.data) r

theorem absorbFrags_append (r : Reasm) (a b : List Frag) :
    absorbFrags r (a ++ b) = absorbFrags (absorbFrags r a) b := by
  simp [absorbFrags, List.foldl_append]

theorem splitAux_absorb (size : Nat) (hs : 1 ≤ size) :
    ∀ (fuel : Nat) (data : Bytes) (fid : Nat) (b : Bytes) (out : List Bytes),
      data.length < fuel → 1 ≤ fid →
      absorbFrags ⟨b, out⟩ (splitAux size fuel data fid) =
        if data.isEmpty then ⟨b, out⟩ else ⟨[], out ++ [b ++ data]⟩ := by
  intro fuel
  induction fuel with
  | zero => intro data fid b out h; omega
  | succ fuel ih =>
    intro data fid b out hlen hfid
    unfold splitAux
    by_cases he : data.isEmpty
    · simp [he, absorbFrags]
    · simp only [he, Bool.false_eq_true, if_false]
      by_cases hle : data.length ≤ size
      · simp only [hle, if_true, absorbFrags, List.foldl_cons, List.foldl_nil, Reasm.absorb]
        simp [List.take_of_length_le hle]
      · have hfid0 : fid ≠ 0 := by omega
        have hdrop : (data.drop size).length < fuel := by simp; omega
        have := ih (data.drop size) (fid + 1) (b ++ data.take size) out hdrop (by omega)
        simp only [hle, if_false]
        show absorbFrags (Reasm.absorb ⟨b, out⟩ fid (data.take size)) _ = _
        have hab : Reasm.absorb ⟨b, out⟩ fid (data.take size) = ⟨b ++ data.take size, out⟩ := by
          simp [Reasm.absorb, hfid0]
        rw [hab, this]
        have hne : (data.drop size).isEmpty = false := by
          cases hd : data.drop size with
          | nil => simp at hd; omega
          | cons _ _ => rfl
        simp [hne, List.append_assoc]

/-- a non-empty message is split into fragments that reassemble to exactly that message, and nothing else -/
theorem split_absorb (size : Nat) (hs : 1 ≤ size) (m : Bytes) (out : List Bytes) :
    absorbFrags ⟨[], out⟩ (split size m) = if m.isEmpty then ⟨[], out⟩ else ⟨[], out ++ [m]⟩ := by
  unfold split
  rw [splitAux_absorb size hs _ m 1 [] out (by omega) (by omega)]
  simp

/-- every fragment is non-empty and at most `size` long -/
theorem splitAux_sizes (size : Nat) (hs : 1 ≤ size) :
    ∀ (fuel : Nat) (data : Bytes) (fid : Nat), ∀ f ∈ splitAux size fuel data fid, f.data ≠ [] ∧ f.data.length ≤ size := by
  intro fuel
  induction fuel with
  | zero => intro data fid f h; simp [splitAux] at h
  | succ fuel ih =>
    intro data fid f h
    unfold splitAux at h
    by_cases he : data.isEmpty
    · simp [he] at h
    · simp only [he, Bool.false_eq_true, if_false] at h
      have hne : data ≠ [] := by intro e; subst e; simp at he
      by_cases hle : data.length ≤ size
      · simp only [hle, if_true, List.mem_singleton] at h
        subst h
        simp [List.take_of_length_le hle, hne, hle]
      · simp only [hle, if_false, List.mem_cons] at h
        cases h with
        | inl e =>
          subst e
          refine ⟨?_, by simp; omega⟩
          intro hc
          have hc' : data.take size = [] := hc
          have : (data.take size).length = 0 := by rw [hc']; rfl
          rw [List.length_take] at this; omega
        | inr m => exact ih _ _ f m

theorem split_sizes (size : Nat) (hs : 1 ≤ size) (m : Bytes) :
    ∀ f ∈ split size m, f.data ≠ [] ∧ f.data.length ≤ size :=
  splitAux_sizes size hs _ m 1

end Nx.Chan
