import NxModel.Bytes
/-!
# Base64 as CPython implements it (`binascii.b2a_base64(newline=False)` / `binascii.a2b_base64`, non-strict)

Text is a list of ASCII codes (`Bytes`). The decoder is the *lenient* one used by `base64.b64decode`
(default `validate=False`): characters outside the alphabet are skipped, a pad sequence that completes
the current quad ends the parse (what follows is ignored), pads elsewhere are skipped, a dangling
partial quad is `binascii.Error` (a `ValueError`). Sextet arithmetic is written with `/`, `%`, `*`
(the C code uses shifts and masks on values that are already in range).
-/
namespace Nx.Crypto
open Nx

/-- standard alphabet, sextet → ASCII code -/
def b64Char (s : Nat) : UInt8 :=
  if s < 26 then b8 (65 + s) else if s < 52 then b8 (71 + s) else if s < 62 then b8 (s - 4)
  else if s = 62 then 43 else 47

/-- `table_a2b_base64`: ASCII code → sextet -/
def b64Val (c : UInt8) : Option Nat :=
  let n := c.toNat
  if 65 ≤ n ∧ n ≤ 90 then some (n - 65) else if 97 ≤ n ∧ n ≤ 122 then some (n - 71)
  else if 48 ≤ n ∧ n ≤ 57 then some (n + 4) else if n = 43 then some 62 else if n = 47 then some 63 else none

def b64Pad : UInt8 := 61

/-- `base64.b64encode(data)` -/
def b2a : Bytes → Bytes
  | a :: b :: c :: r =>
    b64Char (a.toNat / 4) :: b64Char (a.toNat % 4 * 16 + b.toNat / 16) ::
    b64Char (b.toNat % 16 * 4 + c.toNat / 64) :: b64Char (c.toNat % 64) :: b2a r
  | [a, b] => [b64Char (a.toNat / 4), b64Char (a.toNat % 4 * 16 + b.toNat / 16), b64Char (b.toNat % 16 * 4), b64Pad]
  | [a] => [b64Char (a.toNat / 4), b64Char (a.toNat % 4 * 16), b64Pad, b64Pad]
  | [] => []

/-- the loop of `binascii.a2b_base64` (non-strict): `quad` = quad_pos, `left` = leftchar, `pads`, output reversed -/
def a2bGo : Bytes → Nat → Nat → Nat → Bytes → Except Err Bytes
  | [], quad, _, _, acc => if quad = 0 then .ok acc.reverse else .error .value
  | c :: r, quad, left, pads, acc =>
    if c = b64Pad then
      if quad ≥ 2 ∧ quad + (pads + 1) ≥ 4 then .ok acc.reverse
      else a2bGo r quad left (if quad ≥ 2 then pads + 1 else pads) acc
    else
      match b64Val c with
      | none => a2bGo r quad left pads acc
      | some v =>
        match quad with
        | 0 => a2bGo r 1 v 0 acc
        | 1 => a2bGo r 2 (v % 16) 0 (b8 (left * 4 + v / 16) :: acc)
        | 2 => a2bGo r 3 (v % 4) 0 (b8 (left * 16 + v / 4) :: acc)
        | _ => a2bGo r 0 0 0 (b8 (left * 64 + v) :: acc)

/-- `binascii.a2b_base64(text)` for ASCII `text` -/
def a2b (text : Bytes) : Except Err Bytes := a2bGo text 0 0 0 []

/-- text arrives as Python `str`: code points; a non-ASCII one is `ValueError` before any decoding -/
def asciiOf (text : List Nat) : Except Err Bytes :=
  if text.all (· < 128) then .ok (text.map b8) else .error .value

/-- the `-_` alphabet: `bytes.maketrans(b"-_", b"+/")` on the way in, `b"+/" → b"-_"` on the way out -/
def urlToStd (c : UInt8) : UInt8 := if c = 45 then 43 else if c = 95 then 47 else c
def stdToUrl (c : UInt8) : UInt8 := if c = 43 then 45 else if c = 47 then 95 else c

/-- `base64.b64encode(data, b"-_")` -/
def b64urlEncode (d : Bytes) : Bytes := (b2a d).map stdToUrl
/-- `base64.b64decode(text, "-_")` -/
def b64urlDecode (text : Bytes) : Except Err Bytes := a2b (text.map urlToStd)

/-- `.rstrip("=")` -/
def rstripPad (t : Bytes) : Bytes := (t.reverse.dropWhile (· = b64Pad)).reverse

/-- `base64.b64encode(data, b"-_").decode().rstrip("=")` — dauth `mac`, aauth `cert`, `cert_key`, `gvt` -/
def b64urlEncodeNoPad (d : Bytes) : Bytes := rstripPad (b64urlEncode d)

/-- dauth: `if len(data) % 4 != 0: data += "=" * (4 - len(data) % 4)` then `b64decode(data, "-_")` -/
def b64urlDecodeRepad (t : Bytes) : Except Err Bytes :=
  b64urlDecode (if t.length % 4 ≠ 0 then t ++ List.replicate (4 - t.length % 4) b64Pad else t)

end Nx.Crypto
