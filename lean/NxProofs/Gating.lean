import NxModel.Prudp.Endpoint
/-! C04: packets that fail the signature / session / substream checks change nothing -/
namespace Nx.L1
open Nx Nx.Prudp

/-- the signature `PRUDPClient.handle` demands of a packet, by type -/
def Conn.expectedSig (env : Env) (c : Conn) (p : Packet) : Option Bytes :=
  if p.type = TYPE_SYN then env.packetSig c.codec p [] []
  else if p.type = TYPE_CONNECT then env.packetSig c.codec p [] (env.connSig c.codec c.remoteAddr)
  else env.packetSig c.codec p c.sessionKey (env.connSig c.codec c.remoteAddr)

/-- a result that left the connection untouched and produced nothing -/
def R.inert (r : R) (c : Conn) : Prop := r.c = c ∧ r.outs = []

theorem bind_inert_of_fail (r : R) (f : Conn → R) (c : Conn) (h : r.inert c) (he : r.err.isSome) : (r.bind f).inert c := by
  unfold R.bind
  cases hr : r.err with
  | none => rw [hr] at he; cases he
  | some e => simp only []; exact h

/-- **signature gate (connection level).** A packet whose signature is not the expected one leaves the connection
    exactly as it was — no state change, no timer cancelled, nothing delivered, nothing emitted —
    whatever its type, flags (incl. ACK and MULTI_ACK) and contents. -/
theorem handle_bad_signature (env : Env) (now : Time) (c : Conn) (p : Packet)
    (h : p.signature ≠ c.expectedSig env p) : (c.handle env now p).inert c := by
  unfold Conn.handle
  by_cases hd : c.state = STATE_DISCONNECTED
  · rw [if_pos hd]; exact ⟨rfl, rfl⟩
  · rw [if_neg hd]
    by_cases hc : c.state = STATE_CONNECTING ∧ p.type ≠ TYPE_SYN
    · rw [if_pos hc]; exact ⟨rfl, rfl⟩
    · rw [if_neg hc]
      apply bind_inert_of_fail
      · unfold Conn.expectedSig at h
        by_cases h0 : p.type = TYPE_SYN
        · rw [if_pos h0] at h ⊢
          unfold Conn.processSyn; rw [if_pos h]; exact ⟨rfl, rfl⟩
        · rw [if_neg h0] at h ⊢
          by_cases h1 : p.type = TYPE_CONNECT
          · rw [if_pos h1] at h ⊢
            unfold Conn.processConnect; rw [if_pos h]; exact ⟨rfl, rfl⟩
          · rw [if_neg h1] at h ⊢
            unfold Conn.processOther; rw [if_pos h]; exact ⟨rfl, rfl⟩
      · unfold Conn.expectedSig at h
        by_cases h0 : p.type = TYPE_SYN
        · rw [if_pos h0] at h ⊢
          unfold Conn.processSyn; rw [if_pos h]; rfl
        · rw [if_neg h0] at h ⊢
          by_cases h1 : p.type = TYPE_CONNECT
          · rw [if_pos h1] at h ⊢
            unfold Conn.processConnect; rw [if_pos h]; rfl
          · rw [if_neg h1] at h ⊢
            unfold Conn.processOther; rw [if_pos h]; rfl

/-- a correctly signed packet with a wrong session id or a substream id beyond the negotiated one is equally inert
    (these checks follow the signature check; aggregate acks are exempt in the code and therefore excluded here) -/
theorem handle_wrong_session_or_substream (env : Env) (now : Time) (c : Conn) (p : Packet)
    (ht : p.type ≠ TYPE_SYN ∧ p.type ≠ TYPE_CONNECT) (hm : hasMultiAck p.flags = false)
    (h : p.substreamId > c.maxSub ∨ some p.sessionId ≠ c.remoteSessionId) : (c.handle env now p).inert c := by
  unfold Conn.handle
  by_cases hd : c.state = STATE_DISCONNECTED
  · rw [if_pos hd]; exact ⟨rfl, rfl⟩
  · rw [if_neg hd]
    by_cases hc : c.state = STATE_CONNECTING ∧ p.type ≠ TYPE_SYN
    · rw [if_pos hc]; exact ⟨rfl, rfl⟩
    · rw [if_neg hc, if_neg ht.1, if_neg ht.2]
      have key : (c.processOther env now p).inert c ∧ (c.processOther env now p).err.isSome := by
        unfold Conn.processOther
        by_cases hs : p.signature ≠ env.packetSig c.codec p c.sessionKey (env.connSig c.codec c.remoteAddr)
        · rw [if_pos hs]; exact ⟨⟨rfl, rfl⟩, rfl⟩
        · rw [if_neg hs]
          simp only [hm, Bool.false_eq_true, if_false]
          by_cases h1 : p.substreamId > c.maxSub
          · rw [if_pos h1]; exact ⟨⟨rfl, rfl⟩, rfl⟩
          · rw [if_neg h1]
            have h2 : some p.sessionId ≠ c.remoteSessionId := by
              cases h with
              | inl h => exact absurd h h1
              | inr h => exact h
            rw [if_pos h2]; exact ⟨⟨rfl, rfl⟩, rfl⟩
      exact bind_inert_of_fail _ _ _ key.1 key.2

/-- once DISCONNECTED a connection ignores everything -/
theorem handle_disconnected (env : Env) (now : Time) (c : Conn) (p : Packet) (h : c.state = STATE_DISCONNECTED) :
    (c.handle env now p).inert c ∧ (c.handle env now p).err = none := by
  unfold Conn.handle; rw [if_pos h]; exact ⟨⟨rfl, rfl⟩, rfl⟩

/-! ### the server's own handshake checks -/

theorem server_syn_bad_signature (env : Env) (s : ServerStream) (p : Packet) (addr : Addr)
    (h : p.signature ≠ env.packetSig (select env.cfg.sel p.version) p [] []) :
    (s.processSyn env p addr).s = s ∧ (s.processSyn env p addr).outs = [] := by
  unfold ServerStream.processSyn
  simp only []
  rw [if_pos h]; exact ⟨rfl, rfl⟩

theorem server_connect_bad_signature (env : Env) (now : Time) (rnd : Rnd) (up : Bool) (s : ServerStream) (p : Packet) (addr : Addr)
    (h : p.signature ≠ env.packetSig (select env.cfg.sel p.version) p [] (env.connSig (select env.cfg.sel p.version) addr)) :
    (s.processConnect env now rnd up p addr).s = s ∧ (s.processConnect env now rnd up p addr).outs = [] := by
  unfold ServerStream.processConnect
  simp only []
  rw [if_pos h]; exact ⟨rfl, rfl⟩

/-- a packet that is neither a SYN nor a CONNECT request and names no known client changes nothing -/
theorem server_unknown_peer (env : Env) (now : Time) (rnd : Rnd) (up : Bool) (s : ServerStream) (p : Packet) (addr : Addr)
    (h1 : ¬ (p.type = TYPE_SYN ∧ (!hasAck p.flags) = true)) (h2 : ¬ (p.type = TYPE_CONNECT ∧ (!hasAck p.flags) = true))
    (h : clientLookup (addr, p.sourcePort, p.sourceType) s.clients = none) :
    (s.handle env now rnd up p addr).s = s ∧ (s.handle env now rnd up p addr).outs = [] ∧ (s.handle env now rnd up p addr).err = none := by
  unfold ServerStream.handle
  rw [if_neg h1, if_neg h2]
  simp only [h]
  exact ⟨trivial, trivial, trivial⟩

end Nx.L1
