"""C06 — a crafted acknowledgement arriving WHILE the SYN / CONNECT is outstanding.

A correctly signed SYN ack exceeding the client's offer, or a CONNECT ack contradicting the agreed values, reaches the
client while the corresponding handshake packet is still unacknowledged:

  mode "ahead":  1..3 crafted acks just in front of the genuine one
  mode "behind": the crafted ack just after the genuine one
  mode "retry":  the crafted ack arrives, the first genuine ack is lost, the retransmission is answered genuinely
  mode "silent": the crafted ack arrives and the server falls silent (nothing reaches the client any more)

Property: the refused ack has no influence. ahead / behind / retry (with a retransmission budget): the handshake
completes with the genuine ack, both sides report min/min/AND, every negotiated substream carries data, beyond is
refused. silent (and retry without budget): the handshake fails with the library's connection error within
(resend_limit+1)*resend_timeout of the first transmission of the outstanding packet - never half-open.

spec = (which 'syn'|'con', (dm, ds, df), mode, copies, transport 'udp'|'lite', resend_limit, client triple, server triple)
"""
import prudp_session as ps
from nintendo.nex import prudp

RESEND_TIMEOUT = 0.5
SLACK = 0.05


def lowest_unset(x):
    b = 1
    while x & b:
        b <<= 1
    return b


def lowest_set(x):
    return x & -x


def craft_params(which, delta, genuine, offer):
    """the parameters of the crafted ack. SYN ack: a raised component exceeds the client's OFFER (a value between the meet
    and the offer would be a legitimate answer of another server); CONNECT ack: every component relative to the agreed value."""
    dm, ds, df = delta
    gm, gs, gf = genuine
    if which == "syn":
        m = offer[0] + 1 if dm > 0 else max(0, gm + dm)
        s = offer[1] + 1 if ds > 0 else max(0, gs + ds)
        f = (offer[2] | lowest_unset(offer[2])) if df > 0 else (gf & ~lowest_set(gf) if df < 0 else gf)
    else:
        m = gm + 1 if dm > 0 else max(0, gm + dm)
        s = gs + 1 if ds > 0 else max(0, gs + ds)
        f = (gf | lowest_unset(gf)) if df > 0 else (gf & ~lowest_set(gf) if df < 0 else gf)
    return (m, s, f & 0xFFFFFF)


def cfgs(spec):
    which, delta, mode, copies, transport, limit, c, s = spec
    kw = dict(resend_limit=limit, resend_timeout=RESEND_TIMEOUT, fragment_size=7)
    if transport == "lite":
        return (ps.Cfg(transport="lite", minor_version=c[0], max_substream=c[1], supported_functions=c[2], **kw),
                ps.Cfg(transport="lite", minor_version=s[0], max_substream=s[1], supported_functions=s[2], **kw))
    return (ps.Cfg(version=1, minor_version=c[0], max_substream=c[1], supported_functions=c[2], **kw),
            ps.Cfg(version=1, minor_version=s[0], max_substream=s[1], supported_functions=s[2], **kw))


def want_of(spec):
    which, delta, mode, copies, transport, limit, c, s = spec
    return (min(c[0], s[0]), 0 if transport == "lite" else min(c[1], s[1]), c[2] & s[2])


def script_of(spec, rng):
    neg = want_of(spec)[1]
    return [[(side, sub, rng.randbytes(rng.choice([3, 7, 16]))) for sub in range(neg + 1) for side in "cs"] +
            [("c", neg + 1, b"beyond"), ("s", neg + 1, b"beyond")]]


def setup_of(spec):
    which, delta, mode, copies, transport, limit, c, s = spec
    wtype = ps.TYPE_SYN if which == "syn" else ps.TYPE_CONNECT

    def setup(sim, out):
        net = sim.net
        st = out.race = {"injected": 0, "genuine_seen": 0, "silent": False, "crafted": None, "hs": []}
        # observation only: when the client's handshake() returned or raised
        orig_hs = prudp.PRUDPClient.handshake
        async def handshake(self, credentials, group):
            t0 = sim.now()
            try:
                r = await orig_hs(self, credentials, group)
                st["hs"].append((t0, sim.now(), "ok"))
                return r
            except BaseException as e:
                import asyncio
                st["hs"].append((t0, sim.now(), "cancelled-by-harness" if isinstance(e, asyncio.CancelledError) else repr(e)[:120]))
                raise
        sim._patch(prudp.PRUDPClient, "handshake", handshake)

        def crafted_from(p, enc):
            st["crafted"] = craft_params(which, delta, (p.minor_version, p.max_substream_id if transport != "lite" else 0, p.supported_functions), c)
            p.minor_version, p.supported_functions = st["crafted"][0], st["crafted"][2]
            if transport != "lite":
                p.max_substream_id = st["crafted"][1]
                if which == "syn":
                    p.signature = enc.calc_packet_signature(p, b"", b"")
                else:
                    p.signature = enc.calc_packet_signature(p, b"", enc.calc_connection_signature(ps.SERVER))
            return enc.encode(p)

        if transport == "udp":
            enc = prudp.PRUDPMessageV1(out.settings_s)
            orig_fate = net.fate
            def fate(tx):
                if tx.src != ps.SERVER:
                    return orig_fate(tx)
                if st["silent"]:
                    return []
                try:
                    pk = enc.decode(tx.data)
                except Exception:
                    return orig_fate(tx)
                if len(pk) != 1 or pk[0].type != wtype or not pk[0].flags & 1:
                    return orig_fate(tx)
                st["genuine_seen"] += 1
                if st["genuine_seen"] > 1:
                    return orig_fate(tx)          # the answer to a retransmission passes untouched
                data = crafted_from(pk[0], enc)
                for k in range(copies):
                    net.inject(tx.src, tx.dst, data, (0.006 + 0.0005 * k) if mode == "behind" else (0.001 + 0.0005 * k))
                    st["injected"] += 1
                if mode == "silent":
                    st["silent"] = True
                    return []
                if mode == "retry":
                    return []
                return orig_fate(tx)
            net.fate = fate
        else:
            crafted_chunks = set()
            def chunker(data):
                if st["injected"]:
                    return [data]
                try:
                    pk = prudp.PRUDPLiteMessage(out.settings_s).decode(data)
                except Exception:
                    return [data]
                if len(pk) != 1 or pk[0].type != wtype or not pk[0].flags & 1:
                    return [data]
                fake = crafted_from(pk[0], prudp.PRUDPLiteMessage(out.settings_s))
                crafted_chunks.add(fake)
                st["injected"] += copies
                if mode == "silent":
                    st["silent"] = True
                return ([data] + [fake] * copies) if mode == "behind" else ([fake] * copies + [data])
            def stream_fate(local, remote, n, chunk):
                if st["silent"] and local == ps.SERVER and chunk not in crafted_chunks:
                    return "drop"
                return "deliver"
            net.chunker = chunker
            net.stream_fate = stream_fate
    return setup


def first_tx(sess, spec):
    """instant of the first transmission of the outstanding packet (the client's SYN / CONNECT)"""
    which, delta, mode, copies, transport, limit, c, s = spec
    wtype = ps.TYPE_SYN if which == "syn" else ps.TYPE_CONNECT
    obs = ps.Observer(sess.settings, sess.cfg)
    for e in sess.netlog:
        if e[0] == "tx" and e[4] == ps.SERVER:
            if any(p.type == wtype and not p.flags & 1 for p in obs.decode(e[5])):
                return e[2]
        elif e[0] == "stx" and e[3] == ps.SERVER:
            if any(p.type == wtype and not p.flags & 1 for p in obs.decode(e[4], "first_tx")):
                return e[1]
    return None


def oracle(sess, spec):
    which, delta, mode, copies, transport, limit, c, s = spec
    bad = []
    st = getattr(sess, "race", {})
    want = want_of(spec)
    name = "%s ack %s (parameters %r; client offers %r, server is configured with %r, the meet is %r) %s the genuine ack on %s, resend_limit %d" % (
        "a correctly signed SYN" if which == "syn" else "a correctly signed CONNECT",
        "exceeding the client's offer" if which == "syn" else "contradicting the agreed values", st.get("crafted"), c, s, want,
        {"ahead": "%d x just ahead of" % copies, "behind": "just behind", "retry": "in place of the first (lost) copy of", "silent": "from a server that then falls silent instead of"}[mode],
        transport, limit)
    if not st.get("injected"):
        bad.append("harness: no crafted ack was injected (%s)" % name)
        return bad
    snap = sess.checkpoints[0]["ep"] if sess.checkpoints else {}
    pc, psv = snap.get("c", {}).get("params"), snap.get("s", {}).get("params")
    connected = sess.connect_error is None and pc is not None
    must_fail = mode == "silent" or (mode == "retry" and limit == 0)
    hs = st.get("hs", [])
    if sess.timed_out or sess.crash or not hs or hs[0][2] == "cancelled-by-harness":
        bad.append("%s: the client's handshake neither completed nor failed (half-open; session ended by the harness after %.1f s of virtual time, crash=%s)" % (name, sess.end_time, sess.crash))
        return bad
    t0, t1, res = hs[0]
    ft = first_tx(sess, spec)
    if must_fail:
        if connected or res == "ok":
            bad.append("%s: the handshake completed although no genuine ack can have arrived: client reports %r, server %r" % (name, pc, psv))
        else:
            if "PRUDP connection failed" not in res:
                bad.append("%s: the handshake did not fail with the library's connection error but with %s" % (name, res))
            budget = (limit + 1) * RESEND_TIMEOUT
            if ft is None or t1 - ft > budget + SLACK:
                bad.append("%s: the handshake failed %.3f s after the first transmission of the outstanding packet, the budget is (resend_limit+1)*resend_timeout = %.2f s" % (name, t1 - (ft or 0), budget))
        return bad
    if not connected:
        bad.append("%s: the handshake did not complete with the genuine ack: %s" % (name, sess.connect_error))
        return bad
    if pc != want or psv != want:
        bad.append("%s: client reports %r, server reports %r, expected min/min/AND %r" % (name, pc, psv, want))
        return bad
    for sub in range(want[1] + 1):
        for side in "cs":
            other = "s" if side == "c" else "c"
            sent = [m for sd, sb, m in sess.accepted if sd == other and sb == sub]
            if sess.got.get((side, sub), [])[:len(sent)] != sent or not sent:
                bad.append("%s: substream %d towards %s did not carry its data" % (name, sub, side))
    errs = {(e[0], e[1]) for e in sess.send_errors if "ValueError" in e[2]}
    for side in "cs":
        if (side, want[1] + 1) not in errs:
            bad.append("%s: send on substream %d (beyond the negotiated %d) was not refused at %s" % (name, want[1] + 1, want[1], side))
    return bad


def specs(rng, quick):
    out = []
    def pair(lite=False):
        # the meet has minor >= 1, substream >= 1 (udp) and a non-empty mask, the client's mask leaves room above it
        while True:
            c = (rng.choice(range(1, 7)), rng.choice([1, 2, 3]), rng.choice([1, 0x0F, 0xA5A5A5, 0x07, 0x7FFFFF]))
            s = (rng.choice(range(1, 7)), rng.choice([1, 2, 3]), rng.choice([1, 0x0F, 0xA5A5A5, 0x0D, 0xFFFFFF]))
            if c[2] & s[2]:
                return c, s
    deltas = [(dm, ds, df) for dm in (-1, 0, 1) for ds in (-1, 0, 1) for df in (-1, 0, 1) if (dm, ds, df) != (0, 0, 0)]
    n = 0
    for which in ("syn", "con"):
        for d in deltas:
            if which == "syn" and not any(x > 0 for x in d):
                continue
            for mode in ("ahead", "behind", "retry", "silent"):
                c, s = pair()
                limit = (0, 1, 2, 3)[n % 4]; n += 1
                copies = rng.choice([1, 1, 2, 3]) if mode == "ahead" else 1
                out.append((which, d, mode, copies, "udp", limit, c, s))
    for which in ("syn", "con"):
        for d in deltas:
            if d[1] != 0 or (which == "syn" and not any(x > 0 for x in d)):
                continue
            for mode in ("ahead", "behind", "silent"):
                c, s = pair()
                limit = (0, 1, 2)[n % 3]; n += 1
                out.append((which, d, mode, rng.choice([1, 2]) if mode == "ahead" else 1, "lite", limit, c, s))
    if not quick:
        for _ in range(400):
            which = rng.choice(["syn", "con"])
            d = rng.choice([x for x in deltas if which == "con" or any(y > 0 for y in x)])
            c, s = pair()
            out.append((which, d, rng.choice(["ahead", "behind", "retry", "silent"]), rng.choice([1, 2, 3]), "udp", rng.choice([0, 1, 2, 3]), c, s))
    return out
