import NxProofs.Admission
import NxProofs.HonestPath
import NxProofs.LoginPath
import NxProofs.C05Dst
import NxProps.C04

/-!
# C05 — a keyed PRUDP server admits exactly holders of a valid, fresh Kerberos ticket

Model: L1 `ServerStream.processConnect` (= `PRUDPServerStream.process_connect` + `process_login_request`, with the
repair of repo commit 5fe58c8: an established client is never logged in again) and `Conn.checkConnectionResponse`.
`env.loginRequest` is the login check; `loginRequestFn` is the concrete one (Kerberos model of C16, DateTime model of
C15). `connectPrecheck` = the signature, flag/id and negotiation checks that precede it (C04, C06).
-/
namespace Nx.C05
open Nx Nx.Prudp Nx.L1

/-- **admit iff.** With a ticket key configured, a CONNECT from a new peer that passed the pre-checks makes the server
    register a connection if and only if the login request is accepted. -/
theorem admit_iff (env : Env) (now : Time) (rnd : Rnd) (up : Bool) (s : ServerStream) (p : Packet) (addr : Addr)
    (key : Bytes) (hk : s.key = some key) (hpre : connectPrecheck env s p addr)
    (hnew : clientLookup (addr, p.sourcePort, p.sourceType) s.clients = none) :
    (clientLookup (addr, p.sourcePort, p.sourceType) (s.processConnect env now rnd up p addr).s.clients).isSome ↔
      (env.loginRequest p.payload key now).isOk := by
  cases hl : env.loginRequest p.payload key now with
  | error e =>
    have := connect_login_refused env now rnd up s p addr key hk e hl
    rw [this.1, hnew]; simp [Except.isOk, Except.toBool]
  | ok v =>
    obtain ⟨pid, cid, sk, resp⟩ := v
    obtain ⟨⟨c, hc, _⟩, _⟩ := connect_admits env now rnd up s p addr key hk hpre hnew pid cid sk resp hl
    rw [hc]; simp [Except.isOk, Except.toBool]

/-- **admission has no memory.** Two arbitrary server states with the same ticket key in which the endpoint has no entry —
    e.g. a fresh server, and the same server after it admitted this very CONNECT once and that connection has ended: the same
    CONNECT at the same instant is admitted by both or by neither. Having been admitted before gains a request nothing; it is
    judged again by the login check, against the clock (`accepted_request_is_valid`: at most 120 s old). An entry that still
    exists (its handler has not returned) is the other case: `replayed_connect_inert`. -/
theorem admission_ignores_history (env : Env) (now : Time) (rnd₁ rnd₂ : Rnd) (up₁ up₂ : Bool) (s₁ s₂ : ServerStream) (p : Packet)
    (addr : Addr) (key : Bytes) (hk₁ : s₁.key = some key) (hk₂ : s₂.key = some key)
    (hpre₁ : connectPrecheck env s₁ p addr) (hpre₂ : connectPrecheck env s₂ p addr)
    (hnew₁ : clientLookup (addr, p.sourcePort, p.sourceType) s₁.clients = none)
    (hnew₂ : clientLookup (addr, p.sourcePort, p.sourceType) s₂.clients = none) :
    (clientLookup (addr, p.sourcePort, p.sourceType) (s₁.processConnect env now rnd₁ up₁ p addr).s.clients).isSome ↔
    (clientLookup (addr, p.sourcePort, p.sourceType) (s₂.processConnect env now rnd₂ up₂ p addr).s.clients).isSome := by
  rw [admit_iff env now rnd₁ up₁ s₁ p addr key hk₁ hpre₁ hnew₁, admit_iff env now rnd₂ up₂ s₂ p addr key hk₂ hpre₂ hnew₂]

/-- the admitted connection is authenticated as the ticket's user with the ticket's session key, and the handler starts -/
theorem admitted_identity (env : Env) (now : Time) (rnd : Rnd) (up : Bool) (s : ServerStream) (p : Packet) (addr : Addr)
    (key : Bytes) (hk : s.key = some key) (hpre : connectPrecheck env s p addr)
    (hnew : clientLookup (addr, p.sourcePort, p.sourceType) s.clients = none)
    (pid cid : Nat) (sk resp : Bytes) (hl : env.loginRequest p.payload key now = .ok (pid, cid, sk, resp)) :
    (∃ c, clientLookup (addr, p.sourcePort, p.sourceType) (s.processConnect env now rnd up p addr).s.clients = some c ∧
      c.userPid = some pid ∧ c.userCid = some cid ∧ c.sessionKey = sk ∧ c.state = STATE_CONNECTED) ∧
    SOut.started (addr, p.sourcePort, p.sourceType) ∈ (s.processConnect env now rnd up p addr).outs :=
  connect_admits env now rnd up s p addr key hk hpre hnew pid cid sk resp hl

/-- any refused request — missing, truncated, altered, stale, wrong key, mismatched user — creates nothing -/
theorem reject_creates_nothing (env : Env) (now : Time) (rnd : Rnd) (up : Bool) (s : ServerStream) (p : Packet) (addr : Addr)
    (key : Bytes) (hk : s.key = some key) (e : Err) (hl : env.loginRequest p.payload key now = .error e) :
    (s.processConnect env now rnd up p addr).s = s ∧ (s.processConnect env now rnd up p addr).outs = [] ∧
    (s.processConnect env now rnd up p addr).err.isSome :=
  connect_login_refused env now rnd up s p addr key hk e hl

/-- what acceptance means for the concrete check: ticket under the server key, at most 120 s old, request under the
    ticket's session key, exact size, same user id; identity and key come from the ticket; response = 4 ‖ check+1 -/
theorem accepted_request_is_valid (kc : Nex.Kerberos.Cfg) (epoch : Nat) (tz : Int) (data key : Bytes) (now : Time)
    (pid cid : Nat) (sk resp : Bytes) (h : loginRequestFn kc epoch tz data key now = .ok (pid, cid, sk, resp)) :
    ∃ td r1 rd r2 ticket ts dec r3 r4 r5 check,
      Nex.rBuffer data = .ok (td, r1) ∧ Nex.rBuffer r1 = .ok (rd, r2) ∧
      Nex.Kerberos.ServerTicket.decrypt kc key td = .ok ticket ∧
      Nex.DateTime.timestamp tz ticket.timestamp = .ok ts ∧
      ¬ ((ts + 120 - (epoch : Int)) * 1073741824 < (now : Int)) ∧
      Nex.Kerberos.decrypt ticket.sessionKey rd = .ok dec ∧ dec.length = kc.pidSize + 8 ∧
      Nex.rPid kc.pidSize dec = .ok (pid, r3) ∧ pid = ticket.source ∧ sk = ticket.sessionKey ∧
      rdU32 r3 = .ok (cid, r4) ∧ rdU32 r4 = .ok (check, r5) ∧
      resp = u32le 4 ++ u32le ((check + 1) % 4294967296) :=
  login_accept_implies kc epoch tz data key now pid cid sk resp h

/-- a replayed or retransmitted CONNECT never changes an established connection (identity, keys, cipher positions) -/
theorem replayed_connect_inert (env : Env) (now : Time) (rnd : Rnd) (up : Bool) (s : ServerStream) (p : Packet) (addr : Addr)
    (c : Conn) (hex : clientLookup (addr, p.sourcePort, p.sourceType) s.clients = some c) :
    (s.processConnect env now rnd up p addr).s = s :=
  connect_replay_keeps_identity env now rnd up s p addr c hex

/-- the client completes its handshake only on exactly the incremented check value (credentials) / an empty response -/
theorem client_completes_iff (c : Conn) (data : Bytes) :
    c.checkConnectionResponse data = none ↔
      (match c.credentials with
       | some _ => data = u32le 4 ++ u32le ((c.connectionCheck + 1) % 4294967296)
       | none => data = []) :=
  client_response_check c data

/-- **the honest direction, end to end**: credentials holding a reference-built (C16) ticket for the server's key, not older than
    120 s, give a connection request (`build_connection_request`) that the server's login check admits as the ticket's user with
    the ticket's session key — and the response it sends is exactly the one the client's own check accepts. With `admit_iff`
    and `accepted_request_is_valid` this is "admits exactly the holders of a valid, fresh ticket" in both directions. -/
theorem honest_holder_is_admitted (s : Settings) (cfg : Prudp.Cfg) (kc : Nex.Kerberos.Cfg) (epoch : Nat) (tz : Int)
    (key ticketKey : Bytes) (t : Nex.Kerberos.ServerTicket) (tb : Bytes) (c : Conn) (cr : Creds) (now : Time) (ts : Int)
    (hT : Nex.Kerberos.ServerTicket.encrypt kc key ticketKey t = .ok tb)
    (hcreds : c.credentials = some cr) (hint : cr.internal = tb) (hsk : cr.sessionKey = t.sessionKey) (hpid : cr.pid = t.source)
    (hps : s.pidSize = kc.pidSize) (hps' : kc.pidSize = 8 ∨ kc.pidSize = 4)
    (hpr : t.source < (if kc.pidSize = 8 then 18446744073709551616 else 4294967296))
    (hcid : cr.cid < 4294967296) (hchk : c.connectionCheck < 4294967296)
    (hkey : Nex.Kerberos.rc4KeyOk t.sessionKey = true) (htl : tb.length < 4294967296)
    (hts : Nex.DateTime.timestamp tz t.timestamp = .ok ts)
    (hfresh : ¬ ((ts + 120 - (epoch : Int)) * 1073741824 < (now : Int))) :
    let env := mkEnv s cfg kc epoch tz
    ∃ resp, env.loginRequest (c.buildConnectionRequest env) key now = .ok (t.source, cr.cid, t.sessionKey, resp) ∧
      c.checkConnectionResponse resp = none :=
  honest_path s cfg kc epoch tz key ticketKey t tb c cr now ts hT hcreds hint hsk hpid hps hps' hpr hcid hchk hkey htl hts hfresh

/-- **composition with the back-end login (C17)**: whenever `BackEndClient.login` (the `Backend.plan` model) ends in a connection and
    the authentication server followed the protocol (the final ticket is a reference-built server ticket under this server's key for the
    user id of the login response, with the client ticket's session key, not older than 120 s), this server's login check admits the
    connection request built from those credentials as exactly the user id the authentication server issued. -/
theorem backend_login_is_admitted_as_issued_user (bcfg : Backend.Cfg) (a : Backend.Args) (sc : Backend.Script) (c : Backend.Connect)
    (h : (Backend.plan bcfg a sc).outcome = .ok c)
    (s : Settings) (cfg : Prudp.Cfg) (kc : Nex.Kerberos.Cfg) (epoch : Nat) (tz : Int)
    (key ticketKey : Bytes) (t : Nex.Kerberos.ServerTicket) (conn : Conn) (now : Time) (ts : Int)
    (hT : Nex.Kerberos.ServerTicket.encrypt kc key ticketKey t = .ok c.ticket.internal)
    (hsk : c.ticket.sessionKey = t.sessionKey) (hpid : c.pid = t.source)
    (hcreds : conn.credentials = some (credsOfConnect c))
    (hps : s.pidSize = kc.pidSize) (hps' : kc.pidSize = 8 ∨ kc.pidSize = 4)
    (hpr : t.source < (if kc.pidSize = 8 then 18446744073709551616 else 4294967296))
    (hcid : c.cid < 4294967296) (hchk : conn.connectionCheck < 4294967296)
    (hkey : Nex.Kerberos.rc4KeyOk t.sessionKey = true) (htl : c.ticket.internal.length < 4294967296)
    (hts : Nex.DateTime.timestamp tz t.timestamp = .ok ts)
    (hfresh : ¬ ((ts + 120 - (epoch : Int)) * 1073741824 < (now : Int))) :
    let env := mkEnv s cfg kc epoch tz
    ∃ r resp, sc.first = .resp r ∧
      env.loginRequest (conn.buildConnectionRequest env) key now = .ok (r.pid, r.station.cid, t.sessionKey, resp) ∧
      conn.checkConnectionResponse resp = none :=
  login_path bcfg a sc c h s cfg kc epoch tz key ticketKey t conn now ts hT hsk hpid hcreds hps hps' hpr hcid hchk hkey htl hts hfresh

/-! non-vacuity -/
example : Conn.checkConnectionResponse
    { (Conn.new C04.toyEnv (some 1) 1 0xFFFFFFFF 3 ("a", 1) 15 10 ("b", 2) 1 10) with credentials := some ⟨1, 2, [], []⟩ }
    (u32le 4 ++ u32le 0) = none := by decide

/-! ## the server's time zone, daylight saving included (stamp = local civil time; lifetime = real time)

`Zone.localToSeconds` is C15's model of CPython's `local_to_seconds(fold = 0)` behind `DateTime.timestamp()`;
`Zone.zTwo T a b` a zone with one rule change (offset `a` before instant `T`, `b` from `T` on). The L1 model above takes a
fixed offset; these theorems carry the freshness clause across a rule change. Full statement wanted: for every tz-database
zone. Proved: any zone that shows one rule change (setting the clock back by at most 24 h) around the instants involved. -/

/-- **a ticket admitted by the freshness test was issued at most 120 s of REAL time ago**, on both sides of and inside a
    repeated / skipped hour: the stamp never decodes to an instant later than the issue instant. -/
theorem dst_admitted_is_fresh_partial (T a b issued now : Int) (hb : a - b ≤ 86400)
    (hadm : ¬ Nex.Zone.localToSeconds (Nex.Zone.zTwo T a b) (Nex.Zone.localOf (Nex.Zone.zTwo T a b) issued) < now - 120) :
    now - issued ≤ 120 :=
  C05Dst.admitted_is_fresh T a b issued now hb hadm

/-- a fresh ticket passes the freshness test unless it was stamped during the second pass of a repeated hour -/
theorem dst_fresh_is_admitted (T a b issued now : Int) (hb : a - b ≤ 86400)
    (h : ¬ (T ≤ issued ∧ issued < T + (a - b))) (hf : now - issued ≤ 120) :
    ¬ Nex.Zone.localToSeconds (Nex.Zone.zTwo T a b) (Nex.Zone.localOf (Nex.Zone.zTwo T a b) issued) < now - 120 :=
  C05Dst.fresh_is_admitted T a b issued now hb h hf

/-- observation on the code as it is: a ticket stamped during the second pass of a repeated hour (longer than 120 s) is
    refused however fresh it is (the stamp decodes to the first pass). Not a violation of the property's 'only if'. -/
theorem dst_fresh_in_second_pass_refused (T a b issued now : Int) (hb : a - b ≤ 86400)
    (h : T ≤ issued ∧ issued < T + (a - b)) (hd : 120 < a - b) (hn : issued ≤ now) :
    Nex.Zone.localToSeconds (Nex.Zone.zTwo T a b) (Nex.Zone.localOf (Nex.Zone.zTwo T a b) issued) < now - 120 :=
  C05Dst.fresh_in_fold_refused T a b issued now hb h hd hn

/-- non-vacuity: central Europe, 25 Oct 2026 (clock set back at 01:00 UTC): a ticket issued 30 minutes before the change
    and shown 10 minutes after it is 2400 s old and refused, although its wall-clock stamp (02:30) reads LATER than the
    wall-clock reading of `now - 120` (02:08) - comparing stamps as wall-clock values would admit it. -/
example : let z := Nex.Zone.zTwo 1792890000 7200 3600
    (1792890000 + 600 : Int) - (1792890000 - 1800) = 2400 ∧
    Nex.Zone.localOf z (1792890000 + 600 - 120) ≤ Nex.Zone.localOf z (1792890000 - 1800) ∧
    Nex.Zone.localToSeconds z (Nex.Zone.localOf z (1792890000 - 1800)) < 1792890000 + 600 - 120 :=
  C05Dst.wall_clock_order_admits_stale
example : ¬ Nex.Zone.localToSeconds (Nex.Zone.zTwo 1000 7200 3600) (Nex.Zone.localOf (Nex.Zone.zTwo 1000 7200 3600) 900) < 1000 - 120 := by decide

end Nx.C05
