"""Observation made while widening C03 (unchanged tree; NOT a C03 violation - the codecs are lossless here):

The transports log every decoded packet with `"%s" % packet`; PRUDPPacket.__repr__ indexes TYPE_NAMES (5 entries) with
packet.type, so a packet whose 4-bit type is 5..15 - which every codec encodes and decodes faithfully - raises IndexError in
process_packet. process_data catches it around the WHOLE chunk, so every packet that follows in the same datagram / stream
chunk is dropped (for lite they have already been removed from the reassembly buffer, so they are gone for good).
Only the sender of the odd packet loses its own packets, so this belongs to hostile/odd-traffic robustness (C07), not to C03;
the C03 receive-loop family therefore uses the five defined packet types only.

Run: /venv/bin/python /verif/harness/C03_repro_unknown_type_drops_chunk.py      (exit 1 = behaviour present)"""
import os, sys
if os.environ.get("NX_REPO"): sys.path.insert(0, os.environ["NX_REPO"])
sys.path.insert(0, os.path.dirname(os.path.abspath(__file__)))
import anyio
from nintendo.nex import prudp
from codec_prudp import make_settings, make_packet, fields_of
import C03_many


def lite(ptype, pid):
    #       type   flags ver   st sp dt dp  sess pid frag sub consig iu ms sf mv sig   payload
    return (ptype, 0,    None, 10, 1, 10, 1, 0,   pid, 0,   0,  b"",   0, 0, 0, 0, None, b"x")


async def main():
    s = make_settings(transport=1)
    codec = prudp.PRUDPLiteMessage(s)
    ts = [lite(2, 1), lite(7, 2), lite(2, 3), lite(2, 4)]          # the second packet has the undefined type 7
    chunk = b"".join(codec.encode(make_packet(t)) for t in ts)
    decoded = [fields_of(p) for p in prudp.PRUDPLiteMessage(s).decode(chunk)]
    per, log, err = await C03_many.run_transport("socket", 1, 2, 0, 1, 1, "", (10, 1), [chunk])
    print("codec decodes %d of %d packets; PRUDPSocketTransport.handle dispatched %d (sequence ids %s)"
          % (len(decoded), len(ts), len(log), [f[8] for f, _ in log]))
    return 1 if len(log) != len(ts) else 0


if __name__ == "__main__":
    sys.exit(anyio.run(main))
