"""C04 — only correctly signed packets can affect a connection.

Tie + oracle: twin runs of real sessions in the simulation. The attack run injects, next to every genuine datagram,
bit-flipped copies (every single bit in the exhaustive mode, sampled pairs of bits) and packets forged with a wrong
access key / session key / connection signature / session id / spoofed port, before, during and after the handshake
and between fragments. Non-interference oracle: the genuine endpoints must emit exactly the same datagrams at the same
instants, deliver the same messages and end in the same state as in the reference run. The attack run is also replayed
through the Lean L1 model, which must agree with the real endpoints datagram by datagram.
"""
import multiprocessing, os, random, traceback
import prudp_session as ps
import l1_corr
import c04_keylen
import c04_aggr
import c04_knobs
from sim import ticks

LEVEL = "proof"
EXTRA_TARGETS = ["nxdrv_C02"]
D = 0.01           # one-way delay of genuine datagrams
EPS = 2.0 ** -11


def script_for(cfg, rng):
    fs = cfg.fragment_size
    return [[("c", 0, rng.randbytes(2 * fs + 3)), ("s", 0, rng.randbytes(fs)), ("c", 0, ("u", rng.randbytes(9))), ("s", 0, rng.randbytes(fs + 1))],
            [("s", 0, rng.randbytes(5)), ("c", 0, rng.randbytes(1))]]


def forge_variants(cfg, s, obs, tx, session_key, rng, real_p):
    """packets an attacker without the right keys could send, modelled on a genuine packet `real_p` just seen"""
    from nintendo.nex import prudp, settings as nexsettings
    out = []
    wrong = s.copy()
    wrong["prudp.access_key"] = "not the access key"
    for kind in ("access-key", "session-key", "conn-sig", "session-id", "spoofed-port"):
        st = wrong if kind == "access-key" else s
        enc = prudp.PRUDPMessageSelector(st).select(cfg.version)
        for ptype, flags in [(2, 2 | 4 | 8), (2, 1), (2, 0x200 | 1), (3, 2 | 4), (3, 0), (3, 1), (4, 2 | 4), (4, 1), (0, 1), (1, 1), (0, 4), (1, 2 | 4 | 8)]:
            if rng.random() < 0.5 and not (kind == "session-key" and (ptype, flags) in ((2, 14), (4, 6))):
                continue
            p = prudp.PRUDPPacket(ptype, flags)
            p.version = real_p.version
            p.source_type, p.source_port = real_p.source_type, real_p.source_port
            p.dest_type, p.dest_port = real_p.dest_type, real_p.dest_port
            p.session_id = real_p.session_id
            p.packet_id = (real_p.packet_id + rng.choice([0, 1, 1, 2])) & 0xFFFF
            p.fragment_id = 0
            p.substream_id = 0
            p.payload = b"" if ptype != 2 or flags & 1 or rng.random() < 0.3 else rng.randbytes(6)
            if flags & 0x200:
                p.substream_id = 1 if cfg.version else 0
                p.payload = bytes([0, 1]) + (p.packet_id.to_bytes(2, "little")) * 2 if cfg.version else p.packet_id.to_bytes(2, "little") * 2
            p.connection_signature = bytes(enc.signature_size()) if ptype in (0, 1) else None
            if ptype in (0, 1):
                p.max_substream_id = real_p.max_substream_id; p.minor_version = real_p.minor_version
                p.supported_functions = real_p.supported_functions
            sk = session_key
            csig = enc.calc_connection_signature(tx.dst if ptype != 1 else tx.src)
            # what the receiver will verify against: the connection signature of *its peer's* address = tx.src's... the
            # attacker who lacks a piece uses a wrong value for exactly that piece
            csig = enc.calc_connection_signature(tx.src)
            if kind == "session-key":
                if not session_key or ptype in (0, 1): continue
                sk = bytes(len(session_key))
            if kind == "conn-sig":
                if ptype == 0: continue                           # a SYN's signature does not involve it: it would be a valid SYN
                if cfg.version == 0 and ptype == 2: continue      # v0 data signatures do not involve it
                csig = bytes(reversed(csig))
            if kind == "session-id":
                if ptype in (0, 1) or cfg.transport == "lite": continue
                p.session_id = (real_p.session_id + 1 + rng.randrange(250)) & 0xFF
            if kind == "spoofed-port":
                # the genuine packet re-addressed from another source port, signature kept (a packet of another connection
                # of the same host cannot be re-signed for this one); one variant per genuine packet is enough
                if (ptype, flags) != (2, 2 | 4 | 8): continue
                import copy
                q = copy.copy(real_p)
                q.source_port = (real_p.source_port + 1 + rng.randrange(14)) & 0xF
                if q.source_port == real_p.source_port: continue
                try:
                    out.append((kind, real_p.type, real_p.flags, enc.encode(q)))
                except Exception:
                    pass
                continue
            try:
                if ptype == 0: p.signature = enc.calc_packet_signature(p, b"", b"")
                elif ptype == 1: p.signature = enc.calc_packet_signature(p, b"", csig)
                else: p.signature = enc.calc_packet_signature(p, sk, csig)
                out.append((kind, ptype, flags, enc.encode(p)))
            except Exception:
                pass
    return out


def forge_cross_type_acks(cfg, s, tx, real_p, neg):
    """acknowledgements of the WRONG type for a reliable packet: SYN and CONNECT acknowledgements can be signed with the access key
    alone; carrying the sequence id of an unacknowledged DATA / PING / DISCONNECT packet they must acknowledge nothing"""
    from nintendo.nex import prudp
    enc = prudp.PRUDPMessageSelector(s).select(cfg.version)
    out = []
    for atype in (0, 1):
        a = prudp.PRUDPPacket(atype, 1 | (8 if atype == 1 else 0))
        a.version = real_p.version
        a.source_type, a.source_port, a.dest_type, a.dest_port = real_p.dest_type, real_p.dest_port, real_p.source_type, real_p.source_port
        a.packet_id, a.fragment_id, a.substream_id = real_p.packet_id, 0, real_p.substream_id
        a.session_id = 0x5A
        a.connection_signature = bytes(enc.signature_size())
        a.max_substream_id, a.minor_version, a.supported_functions = neg
        a.initial_unreliable_id = 1
        a.payload = b""
        try:
            a.signature = enc.calc_packet_signature(a, b"", b"" if atype == 0 else enc.calc_connection_signature(tx.dst))
            out.append(("cross-type-ack", atype, enc.encode(a)))
        except Exception:
            pass
    return out


def forge_other_encoding(cfg, s, tx, real_p, session_key):
    """A server that accepts both encodings on one port (prudp.version = 2): packets in the encoding the connection does NOT use,
    addressed to it from its peer's address, by somebody who knows the access key, the addresses, the session id and the sequence
    ids but not the session key. The connection was established in one encoding; a packet in the other one can never verify."""
    from nintendo.nex import prudp
    other = 1 - cfg.version
    enc = prudp.PRUDPMessageSelector(s).select(other)
    out = []
    for ptype, flags, payload in [(3, 2 | 4, b""), (3, 1, b""), (2, 1, b""), (2, 2 | 4 | 8, b"forged"), (4, 2 | 4, b""), (4, 1, b""), (3, 0, b"")]:
        for delta in (1, 0):
            p = prudp.PRUDPPacket(ptype, flags)
            p.version = other
            p.source_type, p.source_port, p.dest_type, p.dest_port = real_p.source_type, real_p.source_port, real_p.dest_type, real_p.dest_port
            p.session_id = real_p.session_id
            p.packet_id = (real_p.packet_id + delta) & 0xFFFF
            p.fragment_id = 0
            p.substream_id = 0
            p.payload = payload
            csig = enc.calc_connection_signature(tx.src)
            for sk in ([bytes(len(session_key)), b""] if session_key else [b""]):
                try:
                    p.signature = enc.calc_packet_signature(p, sk, csig)
                    out.append(("other-encoding", ptype, flags, enc.encode(p)))
                except Exception:
                    pass
    return out


def forge_other_udp_port(cfg, s, tx, real_p, session_key):
    """packets that are right in every field — ports, session id, next sequence id, connection signature of the client's REAL address,
    session key where there is none — but arrive from another UDP port of the client's host: a connection belongs to the full address"""
    from nintendo.nex import prudp
    enc = prudp.PRUDPMessageSelector(s).select(cfg.version)
    out = []
    for ptype, flags, payload in [(2, 2 | 4 | 8, b"forged"), (3, 2 | 4, b""), (4, 2 | 4, b""), (2, 1, b"")]:
        p = prudp.PRUDPPacket(ptype, flags)
        p.version = real_p.version
        p.source_type, p.source_port, p.dest_type, p.dest_port = real_p.source_type, real_p.source_port, real_p.dest_type, real_p.dest_port
        p.session_id = real_p.session_id
        p.packet_id = (real_p.packet_id + (0 if flags & 1 else 1)) & 0xFFFF
        p.fragment_id, p.substream_id = 0, 0
        p.payload = payload
        try:
            p.signature = enc.calc_packet_signature(p, session_key if not cfg.credentials else bytes(len(session_key)), enc.calc_connection_signature(tx.src))
            out.append(("other-udp-port", ptype, flags, enc.encode(p)))
        except Exception:
            pass
    return out


def forge_unknown_peer_connects(cfg, s, real_connect):
    """a CONNECT from an address that never sent a SYN, signed with a cookie the server never handed out (none, zeros, another address's)"""
    from nintendo.nex import prudp
    import copy
    enc = prudp.PRUDPMessageSelector(s).select(cfg.version)
    out = []
    for name, cookie in (("none", b""), ("zeros", bytes(enc.signature_size())), ("other-address", enc.calc_connection_signature(("10.9.9.9", 1234)))):
        q = copy.copy(real_connect)
        q.payload = b""
        q.session_id = 0x33
        try:
            q.signature = enc.calc_packet_signature(q, b"", cookie)
            out.append((name, enc.encode(q)))
        except Exception:
            pass
    return out


def forge_keyless_connects(cfg, s, real_connect, addr):
    """a server that demands credentials: CONNECTs from a third address whose PACKET signature is right (it involves only the access key
    and the address-derived cookie, which anybody can compute) but whose login payload was made without any session key — missing,
    garbage, or the sniffed genuine ticket with a request encrypted under another key — each followed by a DATA packet signed with
    the empty session key. Nothing may be established for such a peer and nothing of it delivered."""
    from nintendo.nex import prudp, kerberos, streams
    import copy
    enc = prudp.PRUDPMessageSelector(s).select(cfg.version)
    out = []
    payloads = [("missing", b""), ("garbage", bytes(range(40)))]
    try:
        st = streams.StreamIn(real_connect.payload, s)
        ticket = st.buffer()
        so = streams.StreamOut(s)
        so.buffer(ticket)
        so.buffer(kerberos.KerberosEncryption(bytes(16)).encrypt(bytes(s["nex.pid_size"] + 8)))
        payloads.append(("sniffed-ticket", so.get()))
    except Exception:
        pass
    cookie = enc.calc_connection_signature(addr)
    for j, (name, payload) in enumerate(payloads):
        q = copy.copy(real_connect)
        q.payload = payload
        q.session_id = 0x33
        q.source_port = 14 - j           # one virtual port per attempt: each is an unknown peer
        try:
            q.signature = enc.calc_packet_signature(q, b"", cookie)
            d = prudp.PRUDPPacket(2, 2 | 4 | 8)
            d.version = q.version
            d.source_type, d.source_port, d.dest_type, d.dest_port = q.source_type, q.source_port, q.dest_type, q.dest_port
            d.session_id, d.packet_id, d.fragment_id, d.substream_id = 0x33, 2, 0, 0
            d.payload = b"forged message"
            d.signature = enc.calc_packet_signature(d, b"", cookie)
            out.append((name, enc.encode(q), enc.encode(d)))
        except Exception:
            pass
    return out


def forge_acks(cfg, s, tx, session_key, real_p):
    """acknowledgements of `real_p` as its receiver would send them, but produced without one of the keys"""
    from nintendo.nex import prudp
    wrong = s.copy()
    wrong["prudp.access_key"] = "not the access key"
    out = []
    for kind in ("access-key", "session-key", "conn-sig"):
        enc = prudp.PRUDPMessageSelector(wrong if kind == "access-key" else s).select(cfg.version)
        a = prudp.PRUDPPacket(real_p.type, 1)
        a.version = real_p.version
        a.source_type, a.source_port, a.dest_type, a.dest_port = real_p.dest_type, real_p.dest_port, real_p.source_type, real_p.source_port
        a.packet_id, a.fragment_id, a.substream_id = real_p.packet_id, real_p.fragment_id, real_p.substream_id
        a.session_id = 0
        a.connection_signature = bytes(enc.signature_size()) if real_p.type in (0, 1) else None
        sk = session_key
        csig = enc.calc_connection_signature(tx.dst)
        if kind == "session-key":
            if not session_key or real_p.type in (0, 1): continue
            sk = bytes(len(session_key))
        if kind == "conn-sig":
            if real_p.type == 0: continue
            csig = bytes(reversed(csig))
        try:
            if real_p.type == 0: a.signature = enc.calc_packet_signature(a, b"", b"")
            elif real_p.type == 1: a.signature = enc.calc_packet_signature(a, b"", csig)
            else: a.signature = enc.calc_packet_signature(a, sk, csig)
            out.append((kind, enc.encode(a)))
        except Exception:
            pass
    if real_p.type == 1 and session_key:
        # a CONNECT acknowledgement whose PACKET signature is valid (it involves no secret) and that echoes the negotiated parameters,
        # but whose connection response was made without the session key: the only proof of the key is the incremented check value
        import struct
        enc = prudp.PRUDPMessageSelector(s).select(cfg.version)
        for j, resp in enumerate([b"", struct.pack("<II", 4, 0x12345678), struct.pack("<II", 4, 0), bytes(8), bytes(4), struct.pack("<II", 8, 1) + bytes(4)]):
            a = prudp.PRUDPPacket(1, 1 | 8)
            a.version = real_p.version
            a.source_type, a.source_port, a.dest_type, a.dest_port = real_p.dest_type, real_p.dest_port, real_p.source_type, real_p.source_port
            a.packet_id, a.fragment_id, a.substream_id = real_p.packet_id, 0, 0
            a.session_id = (j * 37 + 5) & 0xFF
            a.connection_signature = bytes(enc.signature_size())
            a.max_substream_id, a.minor_version, a.supported_functions = real_p.max_substream_id, real_p.minor_version, real_p.supported_functions
            a.initial_unreliable_id = 1
            a.payload = resp
            try:
                a.signature = enc.calc_packet_signature(a, b"", enc.calc_connection_signature(tx.dst))
                out.append(("connect-response", enc.encode(a)))
            except Exception:
                pass
    return out


def make_setup(cfg, mode, plan_filter, seed, allow=None):
    """mode: 'flip1-all' | 'flip1-sample' ; plus sampled double flips and forgeries. plan_filter: None or set of injection
    indices to keep (bisecting)."""
    def setup(sim, out):
        rng = random.Random(seed)
        s = out.settings_s
        obs = ps.Observer(s, cfg)
        counter = [0]
        out.injections = []
        def inj(src, dst, data, when, desc):
            if allow is not None and not allow(desc):
                return
            i = counter[0]; counter[0] += 1
            if plan_filter is not None and i not in plan_filter:
                return
            out.injections.append((i, desc))
            sim.net.inject(src, dst, data, when)
        def on_tx_known(tx):
            # deterministic reproduction of the two open v0 findings: next to the first fragment the client sends,
            # a forged packet carrying the following sequence id (zero session key, genuine access key)
            from nintendo.nex import prudp
            if tx.dst != ps.SERVER or getattr(out, "_known_done", False):
                return
            pk = obs.decode(tx.data)
            if not pk or pk[0].type != 2 or pk[0].flags & 1 or not pk[0].flags & 2 or pk[0].fragment_id != 1:
                return
            out._known_done = True
            real_p = pk[0]
            enc = prudp.PRUDPMessageSelector(s).select(cfg.version)
            p = prudp.PRUDPPacket(2 if mode == "known-d16" else 4, 2 | 4 | (8 if mode == "known-d16" else 0))
            p.version = real_p.version
            p.source_type, p.source_port, p.dest_type, p.dest_port = real_p.source_type, real_p.source_port, real_p.dest_type, real_p.dest_port
            p.session_id = real_p.session_id
            p.packet_id = (real_p.packet_id + 1) & 0xFFFF
            p.payload = b"forged" if mode == "known-d16" else b""
            p.signature = enc.calc_packet_signature(p, bytes(len(out.session_key)), enc.calc_connection_signature(tx.src))
            inj(tx.src, tx.dst, enc.encode(p), D - EPS, ("forged", "session-key", p.type, p.flags, tx.n))
        def on_tx_d18(tx):
            # the first server->client DATA fragment that the network loses is "acknowledged" by a forged aggregate ack
            from nintendo.nex import prudp
            if tx.src != ps.SERVER or getattr(out, "_known_done", False):
                return
            pk = obs.decode(tx.data)
            if not pk or pk[0].type != 2 or pk[0].flags & 1 or not pk[0].flags & 2:
                return
            if not lost(seed, tx.src, tx.data, 0):
                return        # this one is not lost
            out._known_done = True
            real_p = pk[0]
            enc = prudp.PRUDPMessageSelector(s).select(cfg.version)
            p = prudp.PRUDPPacket(2, 0x200 | 1)
            p.version = real_p.version
            p.source_type, p.source_port, p.dest_type, p.dest_port = real_p.dest_type, real_p.dest_port, real_p.source_type, real_p.source_port
            p.session_id = (real_p.session_id + 77) & 0xFF      # certainly not the client's session id
            p.packet_id = 0
            p.substream_id = 1
            p.payload = bytes([0, 0]) + real_p.packet_id.to_bytes(2, "little")
            p.signature = enc.calc_packet_signature(p, out.session_key, enc.calc_connection_signature(tx.dst))
            inj(tx.dst, tx.src, enc.encode(p), D, ("forged", "session-id", 2, 0x201, tx.n))
        def on_tx_connect_replay(tx):
            # a CONNECT is signed with the access key and the address-derived connection signature only: after the handshake
            # anybody can re-send the client's CONNECT with another session id / connection-signature option. An established
            # connection must treat it like a retransmission (acknowledge it, change nothing).
            from nintendo.nex import prudp
            import copy
            if tx.dst != ps.SERVER:
                return
            pk = obs.decode(tx.data)
            if not pk:
                return
            if pk[0].type == 0 and not pk[0].flags & 1:
                out._syn_bytes = tx.data
                return
            if pk[0].type == 1 and not pk[0].flags & 1:
                out._connect = pk[0]
                return
            if getattr(out, "_connect", None) is None or pk[0].type != 2 or pk[0].flags & 1 or not pk[0].flags & 2:
                return
            out._nth = getattr(out, "_nth", 0) + 1
            variant, nth = mode.split(":")[1], int(mode.split(":")[2])
            if out._nth != nth:
                return
            if variant == "syn":
                # the client's own SYN again (a SYN involves nothing but the access key): an established connection is not its business
                inj(tx.src, tx.dst, out._syn_bytes, D + EPS, ("forged", "connect-replay:syn", 0, 4, tx.n))
                return
            enc = prudp.PRUDPMessageSelector(s).select(cfg.version)
            q = copy.copy(out._connect)
            if variant in ("session-id", "both"):
                q.session_id = (q.session_id + 1 + rng.randrange(250)) & 0xFF
            if variant in ("conn-sig", "both"):
                q.connection_signature = bytes(rng.randrange(256) for _ in range(len(q.connection_signature)))
            q.signature = enc.calc_packet_signature(q, b"", enc.calc_connection_signature(tx.src))
            inj(tx.src, tx.dst, enc.encode(q), D + EPS, ("forged", "connect-replay:" + variant, 1, q.flags, tx.n))
        def on_tx_trickle(tx):
            # an idle established connection and a trickle of invalid but decodable datagrams from the peer's address (bit-flipped
            # copies of a genuine DATA datagram, packets signed with another access key), several per keep-alive period: the
            # keep-alive exchange must go on exactly as without them
            pk = obs.decode(tx.data)
            if not pk or pk[0].type != 2 or pk[0].flags & 1 or not pk[0].flags & 2:
                return
            key = "s" if tx.src == ps.SERVER else "c"
            if key in out.__dict__.setdefault("_trickled", set()):
                return
            out._trickled.add(key)
            data = tx.data
            for k in range(1, 12):
                b = (k * 37 + 11) % (len(data) * 8 - 40) + 40 if len(data) > 6 else 0
                d = bytearray(data); d[b >> 3] ^= 1 << (b & 7)
                inj(tx.src, tx.dst, bytes(d), D + 0.375 * k, ("flip1", tx.n, b))
            for kind, ptype, flags, fdata in forge_variants(cfg, s, obs, tx, out.session_key, random.Random(seed ^ 0x77), pk[0]):
                if kind == "access-key" and ptype in (2, 4):
                    inj(tx.src, tx.dst, fdata, D + 0.1875 + 0.375 * ((ptype + flags) % 9 + 1), ("forged", kind, ptype, flags, tx.n))
        def on_tx_other(tx):
            pk = obs.decode(tx.data)
            if not pk or pk[0].flags & 1 or not pk[0].flags & 2 or pk[0].type not in (2, 3):
                return
            for kind, ptype, flags, fdata in forge_other_encoding(cfg, s, tx, pk[0], out.session_key):
                inj(tx.src, tx.dst, fdata, D + (EPS if flags & 4 else 3 * EPS), ("forged", kind, ptype, flags, tx.n))
        keylen_hook = c04_keylen.make_hook(cfg, s, out, inj, D, EPS) if mode.startswith("keylen") else None
        def on_tx(tx):
            if keylen_hook is not None:
                return keylen_hook(tx)
            if mode == "other-encoding":
                return on_tx_other(tx)
            if mode == "idle-trickle":
                return on_tx_trickle(tx)
            if mode.startswith("connect-replay"):
                return on_tx_connect_replay(tx)
            if mode == "known-d18":
                return on_tx_d18(tx)
            if mode.startswith("known"):
                return on_tx_known(tx)
            data = tx.data
            nbits = len(data) * 8
            if mode == "flip1-all":
                bits = range(nbits)
            else:
                bits = sorted(rng.sample(range(nbits), min(nbits, 24)))
            for b in bits:
                d = bytearray(data); d[b >> 3] ^= 1 << (b & 7)
                inj(tx.src, tx.dst, bytes(d), D + (EPS if (b & 1) else -EPS), ("flip1", tx.n, b))
            for _ in range(6):
                b1, b2 = rng.sample(range(nbits), 2)
                d = bytearray(data); d[b1 >> 3] ^= 1 << (b1 & 7); d[b2 >> 3] ^= 1 << (b2 & 7)
                inj(tx.src, tx.dst, bytes(d), D + rng.choice([-EPS, EPS]), ("flip2", tx.n, b1, b2))
            pk = obs.decode(data)
            if pk and pk[0].type == 1 and not pk[0].flags & 1 and tx.dst == ps.SERVER and not getattr(out, "_neg", None):
                out._neg = (pk[0].max_substream_id, pk[0].minor_version, pk[0].supported_functions)
                if not cfg.credentials:
                    for name, fdata in forge_unknown_peer_connects(cfg, s, pk[0]):
                        inj(("10.0.0.77", 40077), tx.dst, fdata, 3 * D, ("forged", "unknown-peer-connect", 1, pk[0].flags, tx.n))
                else:
                    out._real_connect = pk[0]
            if pk and cfg.credentials and getattr(out, "_real_connect", None) is not None and tx.dst == ps.SERVER and pk[0].type == 2 and not pk[0].flags & 1:
                # (after the victim's handshake: a server-side connection object draws from the same recorded random sequence)
                rc, out._real_connect = out._real_connect, None
                for name, fconn, fdata in forge_keyless_connects(cfg, s, rc, ("10.0.0.78", 40078)):
                    inj(("10.0.0.78", 40078), tx.dst, fconn, 3 * D, ("forged", "keyless-connect", 1, rc.flags, tx.n))
                    inj(("10.0.0.78", 40078), tx.dst, fdata, 5 * D, ("forged", "keyless-connect", 2, 14, tx.n))
            if pk and not pk[0].flags & 1 and pk[0].flags & 2 and pk[0].type in (2, 3, 4) and getattr(out, "_neg", None) and rng.random() < 0.7:
                for kind, atype, fdata in forge_cross_type_acks(cfg, s, tx, pk[0], out._neg):
                    inj(tx.dst, tx.src, fdata, rng.choice([EPS, 2 * D - EPS]), ("forged", kind, atype, 1, tx.n))
            if pk and not pk[0].flags & 1 and (pk[0].flags & 2 or pk[0].type == 0):
                # forged acknowledgements of this very packet, sent back to its sender ahead of any genuine ack
                for kind, fdata in forge_acks(cfg, s, tx, out.session_key, pk[0]):
                    inj(tx.dst, tx.src, fdata, rng.choice([EPS, 2 * D - EPS]), ("forged", kind, pk[0].type, 1, tx.n))
            if pk and cfg.transport == "udp" and not pk[0].flags & 1 and pk[0].flags & 2 and pk[0].type == 2 and rng.random() < 0.5:
                for kind, ptype, flags, fdata in forge_other_udp_port(cfg, s, tx, pk[0], out.session_key):
                    inj((tx.src[0], tx.src[1] + 1 + rng.randrange(3)), tx.dst, fdata, D + rng.choice([-EPS, EPS]), ("forged", kind, ptype, flags, tx.n))
            if pk and rng.random() < 0.6:
                for kind, ptype, flags, fdata in forge_variants(cfg, s, obs, tx, out.session_key, rng, pk[0]):
                    inj(tx.src, tx.dst, fdata, D + rng.choice([-EPS, EPS, 3 * EPS]), ("forged", kind, ptype, flags, tx.n))
        sim.net.on_tx = on_tx
    return setup


def observe(sess):
    """what the genuine parties see and do"""
    # per emitting endpoint: two endpoints acting at the same virtual instant have no defined mutual order, and the
    # genuine tick offsets follow the global transmission order, so instants are compared up to 2^-18 s
    tx = {}
    for e in sess.netlog:
        if e[0] == "tx":
            tx.setdefault(e[3], []).append((ticks(e[2]), e[4], e[5]))
    dl = {k: list(v) for k, v in sess.got.items()}
    du = {k: list(v) for k, v in sess.gotu.items()}
    cps = [{sd: (v["state"], v["win"], v["frag"], v["timers"], v["params"]) for sd, v in cp["ep"].items()} for cp in sess.checkpoints]
    return {"tx": tx, "deliver": dl, "deliveru": du, "checkpoints": cps, "connect_error": sess.connect_error,
            "final": getattr(sess, "final_state", None), "send_errors": [e[:3] for e in sess.send_errors]}


def first_diff(a, b, skip=None):
    """skip(src, data) -> True: datagrams left out of the comparison of what the genuine parties emit"""
    for k in ("connect_error", "final", "send_errors", "deliver", "deliveru", "checkpoints"):
        if a[k] != b[k]:
            return k, repr(a[k])[:300], repr(b[k])[:300]
    for src in sorted(set(a["tx"]) | set(b["tx"])):
        xa, xb = a["tx"].get(src, []), b["tx"].get(src, [])
        if skip is not None:
            xa = [x for x in xa if not skip(src, x[2])]; xb = [x for x in xb if not skip(src, x[2])]
        for i, (x, y) in enumerate(zip(xa, xb)):
            if x[1:] != y[1:] or abs(x[0] - y[0]) > 4096:
                return "tx[%s][%d]" % (src[0], i), repr((x[0], x[1], x[2].hex()[:60])), repr((y[0], y[1], y[2].hex()[:60]))
        if len(xa) != len(xb):
            return "tx-count[%s]" % src[0], str(len(xa)), str(len(xb))
    return None


def lost(seed, src, data, k):
    import zlib
    return zlib.crc32(data + bytes([k & 0xFF]) + src[0].encode() + seed.to_bytes(8, "little")) % 100 < 12


def loss_fate(seed):
    seen = {}
    def fate(tx):
        k = seen.get((tx.src, tx.data), 0)
        seen[(tx.src, tx.data)] = k + 1
        return [] if lost(seed, tx.src, tx.data, k) else [D]
    return fate


def run_pair(cfg, seed, mode, plan_filter=None, allow=None, want_ref=True):
    rng = random.Random(seed)
    script = script_for(cfg, rng)
    if mode == "idle-trickle":
        fate = lambda sim, r: (lambda tx: [D])
        ref = ps.run_session(cfg, seed & 0xFFFF, script, fate, phases_gap=4.5) if want_ref else None
        att = ps.run_session(cfg, seed & 0xFFFF, script, fate, phases_gap=4.5, setup=make_setup(cfg, mode, plan_filter, seed, allow))
        return ref, att
    if mode.startswith("keylen"):
        # keylen:<script shape>:<fate> - see harness/c04_keylen.py
        _, shape, fname = mode.split(":")
        script = c04_keylen.script(cfg, random.Random(seed), shape)
        fate = (lambda sim, r: c04_keylen.lose_first_fate(cfg, cfg.settings(), D)) if fname == "lose-first" else (lambda sim, r: (lambda tx: [D]))
        cfg_s = type(cfg)(**dict(cfg.describe(), version=2)) if getattr(cfg, "server_dual", False) else None
        ref = ps.run_session(cfg, seed & 0xFFFF, script, fate, phases_gap=1.0, cfg_s=cfg_s) if want_ref else None
        att = ps.run_session(cfg, seed & 0xFFFF, script, fate, phases_gap=1.0, setup=make_setup(cfg, mode, plan_filter, seed, allow), cfg_s=cfg_s)
        return ref, att
    # the same genuine datagrams are lost in both runs: a forged acknowledgement then shows (no retransmission)
    # (decided by the datagram's content and how often it has been sent, not by a global index: two endpoints acting at
    # the same virtual instant have no defined order)
    fate = lambda sim, r: loss_fate(seed)
    cfg_s = None
    if mode == "other-encoding" or getattr(cfg, "server_dual", False):
        cfg_s = type(cfg)(**dict(cfg.describe(), version=2))       # the server takes v0 and v1 on one port; the client uses cfg.version
    ref = ps.run_session(cfg, seed & 0xFFFF, script, fate, phases_gap=1.0, cfg_s=cfg_s) if want_ref else None
    att = ps.run_session(cfg, seed & 0xFFFF, script, fate, phases_gap=1.0, setup=make_setup(cfg, mode, plan_filter, seed, allow), cfg_s=cfg_s)
    return ref, att


def is_d18(desc):
    """a correctly signed aggregate ack that differs from a genuine one only in its session id (known finding D18)"""
    return desc[0] == "forged" and desc[1] == "session-id" and desc[2] == 2 and desc[3] & 0x200


def strict(cfg, desc):
    """injections for which full non-interference is demanded: everything on v1/lite; on v0 the single-bit flips (the
    checksum is keyed and covers the packet) and forgeries without the access key; other v0 forgeries may touch
    control state (v0 signs data only) but must never make a payload appear"""
    if is_d18(desc):
        return False
    if desc[0] == "forged" and desc[1].startswith("key:"):
        return True          # (harness/c04_keylen.py forges only what the encoding binds to the session key)
    if desc[0] == "forged" and desc[1] in ("unknown-peer-connect", "other-encoding", "keyless-connect", "other-udp-port"):
        return True          # "in every encoding a handshake packet with a wrong signature establishes nothing"
    if cfg.version != 0:
        return True
    if desc[0] == "forged" and desc[1] == "session-key" and cfg.v0[0] == 0 and desc[2] in (2, 3) and not desc[3] & 1:
        return True      # signature version 0 binds DATA and DISCONNECT to the session key
    return desc[0] == "flip1" or (desc[0] == "forged" and desc[1] == "access-key")


def accepted_forged(sess, cfg):
    """types of the injected non-ack packets the victim acknowledged (= accepted into its reliable stream)"""
    obs = ps.Observer(sess.settings, cfg)
    injected = {e[1] for e in sess.netlog if e[0] == "inject"}
    res = []
    pending = None
    for e in sess.netlog:
        if e[0] == "rx":
            pending = None
            if e[1] in injected and e[6]:
                pk = [p for p in obs.decode(e[5]) if not p.flags & 1]
                if pk:
                    pending = (e[4], pk[0])
        elif e[0] == "tx" and pending and e[3] == pending[0]:
            for a in obs.decode(e[5]):
                if a.flags & 1 and a.type == pending[1].type and a.packet_id == pending[1].packet_id:
                    res.append(pending[1].type)
                    pending = None
                    break
    return res


def mangled(got, sent, fs):
    """`got` is a genuine message with some of its fragments missing (in order), not attacker-chosen bytes"""
    for m in sent:
        frags = [m[i:i + fs] for i in range(0, len(m), fs)]
        if len(frags) < 2:
            continue
        # subsequence search (tiny inputs)
        def rec(i, rest):
            if not rest: return True
            if i >= len(frags): return False
            if rest.startswith(frags[i]) and rec(i + 1, rest[len(frags[i]):]): return True
            return rec(i + 1, rest)
        if got != m and rec(0, got):
            return True
    return False


def work(args):
    idx, cfgd, seed, mode = args
    try:
        cfg = c04_knobs.KCfg(**cfgd)
        if mode.startswith("aggr"):
            return work_aggr(idx, cfgd, cfg, seed, mode)
        if mode.startswith("connect-replay"):
            ref, att = run_pair(cfg, seed, mode, None, None)
            obs = ps.Observer(ref.settings, cfg)
            def skip(src, data):
                # the server answers a CONNECT of a known client with another CONNECT/ACK, as it does for a genuine retransmission
                if src != ps.SERVER: return False
                pk = obs.decode(data)
                return bool(pk) and pk[0].type in (0, 1) and bool(pk[0].flags & 1)
            a, b = observe(ref), observe(att)
            # checkpoints contain timer counts that the extra acknowledgement does not touch; compared as they are
            diff = first_diff(a, b, skip) if att.injections else None
            bad = []
            if diff:
                bad.append(("connect-replay", "a CONNECT re-sent by a third party after the handshake (%s) changed the established connection: %s differs (reference %s / attacked %s)"
                            % (mode.split(":")[1], diff[0], diff[1], diff[2])))
            stats = {"inj": len(att.injections), "tx": sum(len(v) for v in a["tx"].values()), "kinds": {"forged:connect-replay": len(att.injections)}}
            return idx, cfgd, seed, mode, bad, att, stats, None
        # v0: full non-interference is demanded of the strict injections only; the others are run separately (data safety)
        allow = (lambda d: strict(cfg, d))
        ref, att = run_pair(cfg, seed, mode, None, allow)
        if cfg.version == 0:
            # weak v0 injections in two groups: forged control packets (may steal a sequence id: finding D17) and the rest
            ctl = lambda d: d[0] == "forged" and d[2] != 2
            _, att_ctl = run_pair(cfg, seed, mode, None, lambda d: not strict(cfg, d) and not is_d18(d) and ctl(d), want_ref=False)
            _, att_weak = run_pair(cfg, seed, mode, None, lambda d: not strict(cfg, d) and not is_d18(d) and not ctl(d), want_ref=False)
        _, att_d18 = run_pair(cfg, seed, mode, None, is_d18, want_ref=False)
        a, b = observe(ref), observe(att)
        diff = first_diff(a, b)
        bad = []
        culprit = None
        if diff:
            # bisect for a single culprit injection
            cand = sorted(i for i, _ in att.injections)
            descs = dict(att.injections)
            while len(cand) > 1:
                half = set(cand[: len(cand) // 2])
                _, att2 = run_pair(cfg, seed, mode, half, allow, want_ref=False)
                if first_diff(a, observe(att2)):
                    cand = sorted(half)
                else:
                    rest = set(cand[len(cand) // 2:])
                    _, att3 = run_pair(cfg, seed, mode, rest, allow, want_ref=False)
                    if first_diff(a, observe(att3)):
                        cand = sorted(rest)
                    else:
                        break      # only a combination interferes
            culprit = [(i, descs.get(i)) for i in cand[:3]]
            bad.append(("interference", "injected datagram(s) %r changed the victim's behaviour: %s differs (reference %s / attacked %s)" % (culprit, diff[0], diff[1], diff[2])))
        if att.extra_handlers and any(d[1] in ("keyless-connect", "unknown-peer-connect") for _, d in att.injections):
            bad.append(("forged-connect-established", "a CONNECT made without any session key (valid packet signature, login payload missing / garbage / a sniffed ticket with a request under another key) established a connection at a server that demands credentials: the handler ran for %r" % (att.extra_handlers[:2],)))
        if att_d18.injections and first_diff(a, observe(att_d18)):
            bad.append(("KNOWN:multi-ack-skips-session-check", "a correctly signed aggregate ack with a wrong session id changed the victim's behaviour: %s" % (first_diff(a, observe(att_d18))[0],)))
        if cfg.version == 0:
            # safety under the weak injections: nothing but what the peer sent is delivered
            for run, group in ((att_weak, "data"), (att_ctl, "control")):
                sent = {}
                for side, sub, m in run.accepted:
                    if not isinstance(m, tuple): sent.setdefault((side, sub), []).append(m)
                for (side, sub), got in run.got.items():
                    other = "s" if side == "c" else "c"
                    sl = sent.get((other, sub), [])
                    bogus = [g for g in got if g not in sl]
                    if bogus:
                        if group == "control":
                            key = "KNOWN:v0-forged-control-packet-steals-sequence-id"
                        elif cfg.v0[0] == 1:
                            key = "KNOWN:v0-sigver1-data-signature-covers-payload-only"
                        else:
                            key = "v0-data"
                        bad.append((key, "v0 (signature_version %d, forged %s packets): a payload the peer never sent was delivered at %s: %r" % (cfg.v0[0], group, side, [g.hex()[:24] for g in bogus][:2])))
        stats = {"inj": len(att.injections), "tx": sum(len(v) for v in a["tx"].values()), "kinds": {}}
        for _, d in att.injections:
            k = d[0] if d[0] != "forged" else "forged:" + d[1]
            stats["kinds"][k] = stats["kinds"].get(k, 0) + 1
        return idx, cfgd, seed, mode, bad, att, stats, None
    except Exception:
        return idx, cfgd, seed, mode, [], None, {}, traceback.format_exc()


def run_aggr(cfg, seed, cls, variant, plan_filter=None):
    """one session of the `aggr` family (harness/c04_aggr.py); variant: what stands for every aggregate (attack / none / prefix / skip)"""
    script = script_for(cfg, random.Random(seed))
    if seed & 1:
        fate = lambda sim, r: loss_fate(seed)
    else:
        fate = lambda sim, r: c04_keylen.lose_first_fate(cfg, cfg.settings(), D)
    return ps.run_session(cfg, seed & 0xFFFF, script, fate, phases_gap=1.0, setup=c04_aggr.make_setup(cfg, cls, variant, plan_filter, seed, D, EPS))


def aggr_matches(cfg, seed, cls, att_obs, plan_filter=None):
    """the reduction (prefix / none / skip) whose run is identical to the attacked one, or None and the differences"""
    diffs = {}
    for variant in ("prefix", "none", "skip"):
        d = first_diff(observe(run_aggr(cfg, seed, cls, variant, plan_filter)), att_obs)
        if d is None:
            return variant, None
        diffs[variant] = d
    return None, diffs


def work_aggr(idx, cfgd, cfg, seed, mode):
    cls = mode.split(":")[1]
    att = run_aggr(cfg, seed, cls, "attack")
    variant, diffs = aggr_matches(cfg, seed, cls, observe(att))
    bad = []
    if variant is None:
        descs = dict(att.injections)
        def fails(sub):
            a2 = run_aggr(cfg, seed, cls, "attack", set(sub))
            v, df = aggr_matches(cfg, seed, cls, observe(a2), set(sub))
            if v is None:
                descs.update(dict(a2.injections))      # (what index i stands for when only `sub` is injected: the plan follows the traffic)
            return df if v is None else None
        cand = sorted(descs)
        while len(cand) > 1:
            h1, h2 = cand[:len(cand) // 2], cand[len(cand) // 2:]
            d1 = fails(h1)
            if d1:
                cand, diffs = h1, d1; continue
            d2 = fails(h2)
            if d2:
                cand, diffs = h2, d2; continue
            break          # only a combination interferes
        culprit = [(i, descs.get(i)) for i in cand[:2]]
        d = diffs["prefix"]
        bad.append(("aggregated-datagram", "a packet that is not genuine, placed inside one datagram with genuine packets of the same sender, changed the receiver's behaviour: "
                    "aggregate(s) %r (layout: G = genuine packet, F = the foreign one; last field = the datagram); the run equals none of the runs in which the datagram is dropped, cut before "
                    "the foreign packet, or stripped of it - against the last: %s differs (reference %s / attacked %s)" % (culprit, d[0], d[1], d[2])))
    stats = {"inj": len(att.injections), "tx": sum(1 for e in att.netlog if e[0] == "tx"), "kinds": {}}
    for _, dsc in att.injections:
        k = "aggr:%s:%s" % (dsc[2], dsc[3].split("@")[0])
        stats["kinds"][k] = stats["kinds"].get(k, 0) + 1
    stats["kinds"]["aggr-sessions-like-" + str(variant)] = 1
    return idx, cfgd, seed, mode, bad, att, stats, None


def lite_gate(args):
    """'In every encoding a handshake packet with a wrong signature establishes nothing': lite carries a signature on the CONNECT request only
    (a byte stream has no third parties, so the alteration is made by the stream itself): the CONNECT re-encoded with one signature bit
    flipped / a signature of another length / none at all must start no handler and leave no table entry; re-encoded unchanged (control)
    the session works."""
    creds, mut = args
    try:
        from nintendo.nex import prudp
        cfg = ps.Cfg(transport="lite", credentials=creds, fragment_size=50, resend_limit=1, resend_timeout=0.5)
        hit = []
        def setup(sim, out):
            st = out.settings_s
            def chunker(data):
                try:
                    pk = prudp.PRUDPLiteMessage(st).decode(data)
                except Exception:
                    return [data]
                if len(pk) != 1 or pk[0].type != 1 or pk[0].flags & 1 or not pk[0].signature:
                    return [data]
                p = pk[0]
                sig = bytearray(p.signature)
                if mut is None: pass
                elif mut[0] == "bit": sig[mut[1] >> 3] ^= 1 << (mut[1] & 7)
                elif mut[0] == "short": sig = sig[:mut[1]]
                elif mut[0] == "zero": sig = bytearray(len(sig))
                p.signature = bytes(sig)
                hit.append(1)
                try:
                    return [prudp.PRUDPLiteMessage(st).encode(p)]
                except Exception:
                    return [data]
            sim.net.chunker = chunker
        sess = ps.run_session(cfg, 7, [[("c", 0, b"hello"), ("s", 0, b"world")]], lambda sim, r: (lambda tx: [0.004]), phases_gap=0.6, setup=setup)
        bad = []
        connected = sess.connect_error is None and sess.handler_started
        if not hit:
            bad.append("the scripted alteration never met a CONNECT request (harness)")
        elif mut is None:
            if not connected or sess.got.get(("s", 0)) != [b"hello"] or sess.got.get(("c", 0)) != [b"world"]:
                bad.append("control: a lite CONNECT re-encoded unchanged did not lead to a working session (%s)" % (sess.connect_error,))
        else:
            if sess.handler_started:
                bad.append("lite: a CONNECT request whose signature was altered (%r) established a connection: the handler ran" % (mut,))
            if getattr(sess, "table_max", 0):
                bad.append("lite: a CONNECT request whose signature was altered (%r) left %d entries in the server's client table" % (mut, sess.table_max))
            if sess.connect_error is None:
                bad.append("lite: the client of a CONNECT request whose signature was altered (%r) completed its handshake" % (mut,))
        return creds, mut, bad, None
    except Exception:
        return creds, mut, [], traceback.format_exc()


def run(ctx):
    quick = ctx.tier == "quick"
    ctx.rule = ("twin runs (reference / attacked) of real sessions; attacked = every single-bit flip of every genuine datagram "
                "(exhaustive sessions) or 24 sampled bits per datagram, 6 double flips per datagram, and forged packets of 12 type/flag "
                "combinations x {wrong access key, wrong session key, wrong connection signature, wrong session id, spoofed port}, CONNECT acknowledgements with a valid packet signature but a connection response made without the session key, SYN / CONNECT acknowledgements carrying the sequence id of an unacknowledged DATA / PING / DISCONNECT packet, CONNECTs from an address that never sent a SYN signed with a cookie never handed out, the client's own CONNECT re-sent after the handshake "
                "with another session id / connection-signature option (must be handled like a retransmission), idle connections (several keep-alive periods) with a trickle of invalid datagrams, "
                "packets right in everything but the session key's LENGTH (signed with the empty key, all-zero keys of the right and of the other standard length, the genuine key cut by a byte / in half / extended by a zero byte): DATA reliable and unreliable, DISCONNECT, PING, their acknowledgements and aggregate acks, towards the server and towards the client, at the instant the connection comes to exist at the receiver, at four instants of an idle period in which the receiver has seen no genuine non-handshake packet, and before / after every later reliable packet plus acknowledgements of that packet sent to its sender, with either side the first to speak and with the first transmission of every reliable packet lost (v1, v0 signature_version 0; sessions with credentials), "
                "AGGREGATED datagrams (harness/c04_aggr.py): one foreign packet (forged SYN / CONNECT / DATA / DISCONNECT / PING / acknowledgements / aggregate ack with a wrong access key, zero or empty session key, wrong connection signature, wrong session id; or a genuine packet with one bit flipped, on v0 also with the checksum recomputed) at every position in front of / between / behind 1..3 genuine packets of the same sender in ONE datagram (v0: FLAG_HAS_SIZE on every packet but the last), arriving just before / after the genuine datagram in flight, both directions, v1 and all 8 v0 variants - the attacked run must be identical to the run in which every such datagram is dropped, or cut before the foreign packet, or stripped of it; "
                "RARELY USED SETTINGS (harness/c04_knobs.py): prudp.encryption = 0, zlib compression, max_substream_id, minor_version / supported_functions, an access key, key / pid sizes, ticket version, a dual-stack server, short timeouts, every flags / checksum version of v0 signature_version 0 (and 0 / 1 / 2 for any prudp* setting unknown to the harness), each on sessions WITH credentials attacked by the key-length family (now also the default stream key CD&ML), by the general forgery families and by aggregates; "
                "injected just before/after the genuine datagram; v1 with/without credentials, v0 variants; every attacked v1/v0 run "
                "is replayed through the Lean L1 model; distinct non-trivial = injected datagrams")
    jobs = []
    base = dict(fragment_size=7, resend_timeout=0.5, resend_limit=3)
    n = 0
    for creds in (True, False):
        jobs.append((n, dict(base, version=1, credentials=creds), ctx.rng.getrandbits(32), "flip1-all")); n += 1
    v0s = [(0, 1, 1), (1, 0, 0)] if quick else [(a, b, c) for a in (0, 1) for b in (0, 1) for c in (0, 1)]
    for v0 in v0s:
        for creds in ((True,) if quick else (True, False)):
            jobs.append((n, dict(base, version=0, v0=v0, credentials=creds), ctx.rng.getrandbits(32), "flip1-all" if not quick else "flip1-sample")); n += 1
    jobs.append((n, dict(base, version=0, v0=(0, 1, 1), credentials=False), ctx.rng.getrandbits(32), "flip1-sample")); n += 1     # (a keyless v0 server: unknown-peer CONNECTs)
    jobs.append((n, dict(base, version=0, v0=(1, 0, 0), credentials=True), 1, "known-d16")); n += 1
    jobs.append((n, dict(base, version=0, v0=(0, 1, 1), credentials=True), 2, "known-d17")); n += 1
    for sd in range(3, 9):
        jobs.append((n, dict(base, version=1, credentials=False), sd, "known-d18")); n += 1
    for creds in (True, False):
        jobs.append((n, dict(base, version=1, credentials=creds, ping_timeout=1.0), ctx.rng.getrandbits(32), "idle-trickle")); n += 1
    for variant in ("identical", "session-id", "conn-sig", "both", "syn"):
        for creds in (True, False):
            for nth in ((1, 3) if quick else (1, 2, 3, 4)):
                for version in ((1,) if quick else (1, 0)):
                    cfgd = dict(base, version=version, credentials=creds)
                    if version == 0: cfgd["v0"] = (0, 1, 1)
                    jobs.append((n, cfgd, ctx.rng.getrandbits(32), "connect-replay:%s:%d" % (variant, nth))); n += 1
    for version, v0 in ((1, (0, 1, 1)), (1, (1, 0, 0)), (0, (0, 1, 1))) + (() if quick else ((0, (1, 0, 0)), (1, (0, 0, 0)), (1, (1, 1, 1)))):
        for creds in (True, False):
            jobs.append((n, dict(base, version=version, v0=v0, credentials=creds), ctx.rng.getrandbits(32), "other-encoding")); n += 1
    for _ in range(6 if quick else 60):
        jobs.append((n, dict(base, version=1, credentials=ctx.rng.random() < 0.5, max_substream=ctx.rng.choice([0, 1]),
                             fragment_size=ctx.rng.choice([3, 7, 50])), ctx.rng.getrandbits(32), "flip1-sample")); n += 1
    # forgeries right in everything but the session key's length (empty key, zero keys, cut / extended keys): harness/c04_keylen.py
    for rep in range(1 if quick else 4):
        for shape in "ABC":
            for fname in ("lose-first", "none"):
                jobs.append((n, dict(base, version=1, credentials=True, **({} if rep == 0 else dict(fragment_size=ctx.rng.choice([3, 7, 50]), max_substream=ctx.rng.choice([0, 1])))),
                             ctx.rng.getrandbits(32), "keylen:%s:%s" % (shape, fname))); n += 1
        jobs.append((n, dict(base, version=1, credentials=True, key_size=16), ctx.rng.getrandbits(32), "keylen:%s:lose-first" % "ABC"[rep % 3])); n += 1
    v0k = [((0, 1, 1), "A", "lose-first"), ((0, 1, 1), "B", "none"), ((0, 0, 0), "B", "lose-first"), ((0, 0, 0), "C", "none")] if quick else \
          [((0, b, c), shape, fname) for b in (0, 1) for c in (0, 1) for shape in "ABC" for fname in ("lose-first", "none")]
    for v0, shape, fname in v0k:
        jobs.append((n, dict(base, version=0, v0=v0, credentials=True), ctx.rng.getrandbits(32), "keylen:%s:%s" % (shape, fname))); n += 1
    # AGGREGATED datagrams (harness/c04_aggr.py): a foreign packet in front of / between / behind genuine packets of the same sender
    # in one datagram; v1 with and without credentials, every v0 signature / flags / checksum variant, both failure levels
    for rep in range(2 if quick else 8):
        for creds in (True, False):
            jobs.append((n, dict(base, version=1, credentials=creds, **({} if rep < 2 else dict(fragment_size=ctx.rng.choice([3, 7, 50]), max_substream=ctx.rng.choice([0, 1])))),
                         (ctx.rng.getrandbits(31) << 1) | (rep & 1), "aggr:sig")); n += 1
    for rep in range(1 if quick else 3):
        for v0 in [(a, b, c) for a in (0, 1) for b in (0, 1) for c in (0, 1)]:
            for k, cls in enumerate(("sig", "dec")):
                jobs.append((n, dict(base, version=0, v0=v0, credentials=(True if rep == 0 else ctx.rng.random() < 0.7)), (ctx.rng.getrandbits(31) << 1) | ((sum(v0) + k + rep) & 1), "aggr:" + cls)); n += 1
    # RARELY USED SETTINGS x sessions with credentials x forgeries made with everything public but the session key (harness/c04_knobs.py)
    shapes = [(sh, fn) for sh in "ABC" for fn in ("lose-first", "none")]
    for j, (label, kw) in enumerate(c04_knobs.v1_matrix()):
        for r in range(2 if quick else 6):
            sh, fn = shapes[(2 * j + 3 * r + (ctx.seed or 0)) % 6]
            jobs.append((n, dict(base, version=1, credentials=True, **kw), ctx.rng.getrandbits(32), "keylen:%s:%s" % (sh, fn))); n += 1
        jobs.append((n, dict(base, version=1, credentials=True, **kw), ctx.rng.getrandbits(32), "flip1-sample")); n += 1
        if not quick or j % 4 == 0:
            jobs.append((n, dict(base, version=1, credentials=True, **kw), (ctx.rng.getrandbits(31) << 1) | (j & 1), "aggr:sig")); n += 1
    for j, (label, kw) in enumerate(c04_knobs.v0_matrix(quick)):
        for r in range(1 if quick else 6):
            sh, fn = shapes[(j + r + (ctx.seed or 0)) % 6]
            jobs.append((n, dict(base, version=0, credentials=True, **kw), ctx.rng.getrandbits(32), "keylen:%s:%s" % (sh, fn))); n += 1
        if not quick or j % 3 == 0:
            jobs.append((n, dict(base, version=0, credentials=True, **kw), ctx.rng.getrandbits(32), "flip1-sample")); n += 1
    drv = ctx.driver("C02")
    ndiff, first = 0, None
    with multiprocessing.Pool(min(16, os.cpu_count() or 4)) as pool:
        for idx, cfgd, seed, mode, bad, att, stats, err in pool.imap_unordered(work, jobs):
            if err:
                ctx.corr_break("c04-session-harness", "session crashed in the harness", {"traceback": err, "cfg": cfgd})
                continue
            for key, what in bad:
                ctx.violation(("c04:%s:v%d" % (key, cfgd["version"])) if not key.startswith("KNOWN:") else "c04:" + key[6:], what, {"cfg": cfgd, "seed": seed, "mode": mode,
                              "how": "harness/corr_C04.py work((0, cfg, seed, mode))"})
            if err is None and att is not None and att.connect_error is not None and cfgd.get("knobs") and not bad:
                ctx.tag("knob-value-left-out:%r" % (cfgd["knobs"],))      # (a value of an unknown setting with which no session comes up)
                continue
            r = l1_corr.compare(drv, att, "x") if att is not None and mode != "other-encoding" and not cfgd.get("compression") else {"ok": True, "diffs": [], "skipped": True}
            if not r["ok"]:
                ndiff += 1
                if first is None:
                    first = {"cfg": cfgd, "seed": seed, "mode": mode, "diff": r["diffs"][0]}
            ctx.traces_validated += 0 if r.get("skipped") else 1
            ctx.evaluations += stats.get("inj", 0)
            for k, v in stats.get("kinds", {}).items():
                ctx.tag("v%d:%s" % (cfgd["version"], k), v)
            for i in range(stats.get("inj", 0)):
                ctx.distinct.add((idx, i))
            if len(ctx.samples) < 4:
                ctx.samples.append({"cfg": cfgd, "mode": mode, "genuine_datagrams": stats.get("tx"), "injected": stats.get("inj"), "model_lines": r.get("lines")})
    muts = [None] + [("bit", b) for b in (range(128) if not quick else sorted(ctx.rng.sample(range(128), 12)))] + [("short", 15), ("short", 0), ("zero",)]
    with multiprocessing.Pool(min(16, os.cpu_count() or 4)) as pool:
        for creds, mut, bad, err in pool.imap_unordered(lite_gate, [(c, m) for c in (False, True) for m in muts]):
            if err:
                ctx.corr_break("c04-session-harness", "session crashed in the harness", {"traceback": err, "lite_gate": [creds, mut]}); continue
            ctx.evaluations += 1
            ctx.distinct.add(("lite-gate", creds, str(mut)))
            ctx.tag("lite:connect-signature-%s" % ("control" if mut is None else mut[0]))
            for what in bad:
                ctx.violation("c04:lite-handshake-gate", what, {"credentials": creds, "mutation": mut, "how": "harness/corr_C04.py lite_gate((credentials, mutation))"})
    ctx.extra["l1_session_diffs"] = ndiff
    if ndiff and not ctx.violations:
        ctx.corr_break("l1-endpoint-correspondence", "real endpoints and the Lean L1 model disagree in %d attacked sessions" % ndiff,
                       dict(first, theorems_no_longer_tied=["Nx.C04.signature_gate", "Nx.C04.handshake_gate_syn", "Nx.C04.handshake_gate_connect"]))
    elif ndiff:
        ctx.extra["first_l1_diff"] = first
