"""C13 helpers: what to do when the two readings of a definition disagree, marker values, shrinking.

The property makes the *definition* (the .proto text, read by the independent reader of tools/schema_proto2lean.py)
the authority. The repository's own Tokenizer/Parser is only the second opinion that guards my reader. When the two
disagree, the checked-in generated classes (written by the repository's generator from ITS reading) are suspect on
exactly the items the readings differ on: `reader_focus` names those items, `affected` closes them under "contains /
inherits / may hold polymorphically / has as parameter or result", and the tie then spends extra values on them.
Only if no value on which the generated code and the definition differ is found does the check fall back to a broken
correspondence without failing input.

`Marker` builds, for any type of a definition, a value in which EVERY attribute at every depth is set, non-default and
different from its neighbours (distinct byte patterns, lengths and tags), so that two attributes written in swapped
order, a dropped attribute or an attribute written under the wrong gate always change the bytes (random boundary values
are often 0 / empty, which hides swaps). `shrink_struct` resets attributes of a failing value to the type's zero value
while the bytes keep differing, so the replay names the attributes that matter.
"""
import struct
from schema_proto2lean import my_ast, repo_ast, SchemaEnv, BASIC, code
import schema_values as SV


# ---------------------------------------------------------------------------------------------
# where do the two readings differ

def reader_focus(protodir, repo, name):
    """-> {"structs": [names], "methods": [[proto, method]], "protocols": [names], "theirs": ast|None, "notes": [...]}
    (items the two readings of <name>.proto state differently; everything when one reader failed or the comparison of
    the two readings itself fails on what the repository's reader hands back)"""
    try:
        return _reader_focus(protodir, repo, name)
    except Exception as e:
        out = {"structs": [], "methods": [], "protocols": [], "theirs": None, "notes": ["the two readings could not be compared item by item: %r (every item of the definition is suspect)" % (e,)]}
        try:
            mine = my_ast(protodir, name)
            out["structs"] = [s["name"] for s in mine["structs"]]
            out["protocols"] = [p["name"] for p in mine["protocols"]]
        except Exception:
            pass
        return out


def _reader_focus(protodir, repo, name):
    out = {"structs": [], "methods": [], "protocols": [], "theirs": None, "notes": []}
    try:
        mine = my_ast(protodir, name)
    except Exception as e:
        out["notes"].append("independent reader failed: %r" % (e,))
        return out
    try:
        theirs = repo_ast(repo, name)
    except Exception as e:
        out["notes"].append("repository reader failed: %r (every item of the definition is suspect)" % (e,))
        out["structs"] = [s["name"] for s in mine["structs"]]
        out["protocols"] = [p["name"] for p in mine["protocols"]]
        return out
    out["theirs"] = theirs
    ts = {s["name"]: s for s in theirs["structs"]}
    for s in mine["structs"]:
        t = ts.get(s["name"])
        if t is None:
            out["structs"].append(s["name"]); out["notes"].append("struct %s: only in the definition as I read it" % s["name"])
        elif (t["parent"], t["items"]) != (s["parent"], s["items"]):
            out["structs"].append(s["name"])
            if t["parent"] != s["parent"]:
                out["notes"].append("struct %s: parent %s in the definition, %s for the repository's reader" % (s["name"], s["parent"], t["parent"]))
            else:
                a, b = window(s["items"], t["items"])
                out["notes"].append("struct %s: the definition states '%s', the repository's reader makes it '%s'" % (s["name"], a, b))
    tp = {p["name"]: p for p in theirs["protocols"]}
    for p in mine["protocols"]:
        t = tp.get(p["name"])
        if t is None:
            out["protocols"].append(p["name"]); continue
        if (t["id"], t["noresponse"]) != (p["id"], p["noresponse"]):
            out["protocols"].append(p["name"])
        tm = {m["name"]: m for m in t["methods"]}
        for m in p["methods"]:
            if tm.get(m["name"]) != m:
                out["methods"].append([p["name"], m["name"]])
                out["notes"].append("method %s.%s is read differently" % (p["name"], m["name"]))
    return out


def type_text(t):
    return t["name"] + ("<%s>" % ", ".join(type_text(x) for x in t["template"]) if t["template"] else "")


def window(a, b):
    """the two bodies with their common leading and trailing items abbreviated"""
    i = 0
    while i < len(a) and i < len(b) and a[i] == b[i]: i += 1
    j = 0
    while j < len(a) - i and j < len(b) - i and a[len(a) - 1 - j] == b[len(b) - 1 - j]: j += 1
    def txt(x): return ("... " if i else "") + body_text(x[i:len(x) - j]) + (" ..." if j else "")
    return txt(a), txt(b)


def body_text(items):
    out = []
    for it in items:
        if "var" in it: out.append(it["var"]["name"])
        else: out.append("%s %s {%s}" % (it["cond"], it["value"], body_text(it["items"])))
    return " ".join(out)


def contains(env):
    """struct name -> set of struct names it directly contains (parent, attribute types; 'anydata' = every registered class)"""
    registered = [s["name"] for s in env.order if s["parent"]]
    allS = dict(env.external); allS.update(env.structs)
    out = {}
    def has_any(t): return t["name"] == "anydata" or any(has_any(x) for x in (t["template"] or []))
    def walk(items):
        for it in items:
            if "var" in it: yield it["var"]["type"]
            else: yield from walk(it["items"])
    for n, s in allS.items():
        r = set(env.struct_refs(s))
        if any(has_any(t) for t in walk(s["items"])): r.update(registered)
        out[n] = r
    return out, registered


def affected(env, focus):
    """closure of the focus: (set of struct names, set of (proto, method))"""
    cont, registered = contains(env)
    bad = set(focus["structs"])
    changed = True
    while changed:
        changed = False
        for n, r in cont.items():
            if n not in bad and r & bad:
                bad.add(n); changed = True
    meths = set(tuple(x) for x in focus["methods"])
    def uses(t):
        n = t["name"]
        if n == "anydata": return bool(bad & set(registered))
        if n in bad: return True
        return any(uses(x) for x in (t["template"] or []))
    for p in env.protos:
        for m in p["methods"]:
            if p["name"] in focus["protocols"] or any(uses(v["type"]) for v in m["request"] + m["response"]):
                meths.add((p["name"], m["name"]))
    return bad, meths


def innermost(env, names):
    """those of `names` that do not (transitively) contain another of `names`: the root causes among differing structures"""
    cont, _ = contains(env)
    def reach(n, seen):
        for r in cont.get(n, ()):
            if r not in seen:
                seen.add(r); reach(r, seen)
        return seen
    names = set(names)
    return {n for n in names if not ((reach(n, set()) - {n}) & names)}


# ---------------------------------------------------------------------------------------------
# marker values: every attribute set, non-default, distinguishable from its neighbours

class Marker:
    def __init__(self, gen, start=0):
        self.g = gen
        self.k = start

    def nxt(self):
        self.k += 1
        return self.k

    def pattern(self, nbytes, k):
        """little-endian integer whose bytes are all non-zero and start at a per-attribute value"""
        return int.from_bytes(bytes((k * 7 + j * 3) % 255 + 1 for j in range(nbytes)), "little")

    def val(self, t, cfg, depth=0):
        n = t["name"]
        k = self.nxt()
        if n in ("uint8", "uint16", "uint32", "uint64"): return ("int", self.pattern(int(n[4:]) // 8, k))
        if n in ("sint8", "sint16", "sint32", "sint64"):
            bits = int(n[4:])
            v = self.pattern(bits // 8, k) & ((1 << (bits - 1)) - 1)
            return ("int", -v if k % 2 == 0 else v)
        if n == "pid": return ("int", self.pattern(cfg[2], k))
        if n == "result": return ("int", self.pattern(4, k))
        if n == "datetime": return ("int", self.pattern(8, k))
        if n == "bool": return ("bool", True)
        if n == "float": return ("f32", struct.unpack("<I", struct.pack("<f", k + 0.5))[0])
        if n == "double": return ("f64", struct.unpack("<Q", struct.pack("<d", k + 0.25))[0])
        if n == "string": return ("str", "m%d%s" % (k, "é☃"[k % 2] if k % 3 == 0 else ""))
        if n == "stationurl": return ("url", SV.URLS[1 + k % 3])
        if n in ("buffer", "qbuffer"): return ("bytes", bytes((k + j) % 255 + 1 for j in range(1 + k % 5)))
        if n == "variant":
            return [("int", -self.pattern(7, k)), ("int", self.pattern(8, k)), ("dbl", struct.unpack("<Q", struct.pack("<d", k + 0.75))[0]),
                    ("bool", True), ("str", "v%d" % k), ("dt", self.pattern(8, k))][k % 6]
        if n == "anydata":
            reg = self.g.registered
            cls = "NullData" if depth >= 3 else reg[k % len(reg)]
            return self.obj(cls, cfg, depth + 1)
        if n == "list":
            cnt = 2 if depth < 2 else 1
            return ("list", [self.val(t["template"][0], cfg, depth + 1) for _ in range(cnt)])
        if n == "map":
            out, seen = [], set()
            for _ in range(2 if depth < 2 else 1):
                key = self.val(t["template"][0], cfg, depth + 1)
                if key in seen: continue
                seen.add(key)
                out.append((key, self.val(t["template"][1], cfg, depth + 1)))
            return ("map", out)
        return self.obj(n, cfg, depth + 1)

    def obj(self, name, cfg, depth=0):
        return ("obj", name, [self.val(v["type"], cfg, depth) for v, _ in self.g.fields(name)])


# ---------------------------------------------------------------------------------------------
# zero values and shrinking

def zero(gen, t, cfg):
    n = t["name"]
    if n in ("uint8", "uint16", "uint32", "uint64", "sint8", "sint16", "sint32", "sint64", "pid", "datetime"): return ("int", 0)
    if n == "result": return ("int", 0x10001)
    if n == "bool": return ("bool", False)
    if n == "float": return ("f32", 0)
    if n == "double": return ("f64", 0)
    if n == "string": return ("str", "")
    if n == "stationurl": return ("url", "prudp:/")
    if n in ("buffer", "qbuffer"): return ("bytes", b"")
    if n == "variant": return ("int", 0)
    if n == "anydata": return ("obj", "NullData", [])
    if n == "list": return ("list", [])
    if n == "map": return ("map", [])
    return ("obj", n, [zero(gen, v["type"], cfg) for v, _ in gen.fields(n)])


def shrink_struct(gen, sname, cfg, tree, differs, budget=80):
    """reset attributes to their zero value (and shorten lists) while `differs(tree)` stays true.
    Returns (tree, [names of the attributes that still hold a non-zero value])."""
    flds = gen.fields(sname)
    cur = list(tree[2])
    zs = [zero(gen, v["type"], cfg) for v, _ in flds]
    for i in range(len(cur)):
        if budget <= 0: break
        if cur[i] == zs[i]: continue
        cand = cur[:i] + [zs[i]] + cur[i + 1:]
        budget -= 1
        if differs(("obj", sname, cand)):
            cur = cand
    # second pass inside what is left: shorten lists / maps to one element
    for i in range(len(cur)):
        if budget <= 0: break
        if cur[i][0] in ("list", "map") and len(cur[i][1]) > 1:
            cand = cur[:i] + [(cur[i][0], cur[i][1][:1])] + cur[i + 1:]
            budget -= 1
            if differs(("obj", sname, cand)):
                cur = cand
    need = [flds[i][0]["name"] for i in range(len(cur)) if cur[i] != zs[i]]
    return ("obj", sname, cur), need


def first_diff_offset(a_hex, b_hex):
    a, b = bytes.fromhex(a_hex) if a_hex != "-" else b"", bytes.fromhex(b_hex) if b_hex != "-" else b""
    for i, (x, y) in enumerate(zip(a, b)):
        if x != y: return i
    return min(len(a), len(b)) if len(a) != len(b) else None


def theirs_env(protodir, name, theirs_ast):
    try:
        return SchemaEnv(protodir, name, theirs_ast)
    except Exception:
        return None


def reorder(gm, gt, t):
    """the value tree `t` (attributes in the order of the definition as gm's environment reads it) with the attributes
    of every object put in the order of gt's environment (same attribute names, else ValueError)"""
    k = t[0]
    if k == "list": return ("list", [reorder(gm, gt, x) for x in t[1]])
    if k == "map": return ("map", [(reorder(gm, gt, a), reorder(gm, gt, b)) for a, b in t[1]])
    if k == "obj":
        fm = [v["name"] for v, _ in gm.fields(t[1])]
        ft = [v["name"] for v, _ in gt.fields(t[1])]
        if sorted(fm) != sorted(ft) or len(fm) != len(t[2]): raise ValueError("attribute sets differ for %s" % t[1])
        byname = dict(zip(fm, t[2]))
        return ("obj", t[1], [reorder(gm, gt, byname[n]) for n in ft])
    return t
