"""C05 — the hand-over of an endpoint's table entry from one user to the next (virtual time, real client and real keyed server).

The previous connection of an endpoint (address, PRUDP port, stream type) has ENDED, but the server application's handler of that
connection has not returned yet, so the server's table still holds its entry.  ANOTHER user (or the same user with a new ticket)
connects from the same endpoint — a client transport that is reused hands out the same local port again; a new transport from the
same address does too — and the old handler returns at a controlled moment relative to the server's process_connect:

    release = ("at", off)           off seconds relative to the start of the second handshake (before it, while the SYN travels, ...)
              ("rx", k)             k event-loop turns after the server's socket handed the CONNECT datagram to the server
              ("send-start", r)     r seconds (r = 0: at once) after the server began to send the CONNECT acknowledgement
              ("send-done", r)      r seconds after that send completed
              ("never", 0)          not before the second connection attempt is over
    hold    = ("yield", n)          the server's socket spends n event-loop turns inside send() for a CONNECT acknowledgement
              ("time", d)           ... d seconds (a congested socket)
              ("none", 0)           send() does not yield

(the server's socket is the simulation's; the hold is applied from outside by wrapping its send(), the server code is unchanged).
The old handler ends by returning or by raising.  The old connection ended by the peer's disconnect, by a dark link (both sides
timed out), by the server application's close(), or (`vanished`) the client went away silently and the server has not noticed yet.

Oracle on the real code (C05): during the second attempt only CONNECTs carrying the second ticket arrive, so
  * every handler invocation in that window observes exactly the second ticket's user id (never the previous user's, never None)
    and the second ticket's session key, and keeps observing it; at most one invocation;
  * the handler of the previous connection keeps observing the previous ticket's user id until it returns;
  * if the second ticket is stale (older than 120 s) nothing is created and nothing is acknowledged;
  * if a connection was created and the client's handshake completed, the client's traffic (keyed with the ticket's session key)
    is echoed;
  * when the old handler had returned (entry gone) before the second handshake began, a valid fresh ticket is admitted;
  * afterwards (old handler returned, everything settled) a third user with a valid fresh ticket is admitted and observed as such.
Whether a valid request is turned down while the entry is still there is NOT judged (the property says 'only if')."""
import os, random, time, traceback
import anyio
import prudp_session as ps
from sim import Sim, Deadlock, quant
from nintendo.nex import prudp
from c05_lifecycle import make_ticket, decode, SERVER, SERVER_KEY, ENCODINGS


def run_case(spec):
    os.environ["TZ"] = spec.get("tz", "UTC0"); time.tzset()
    transport, version = ENCODINGS[spec["enc"]]
    cfg = ps.Cfg(transport=transport, version=version, credentials=True, pid_size=spec.get("pid_size", 4), key_size=spec.get("key_size", 32),
                 ticket_version=spec.get("ticket_version", 0), fragment_size=50, resend_timeout=0.5, resend_limit=2, ping_timeout=1.0)
    bound = cfg.ping_timeout + (cfg.resend_limit + 1) * cfg.resend_timeout
    end, release, hold = spec["end"], tuple(spec["release"]), tuple(spec["hold"])
    rng = random.Random(spec.get("seed", 0))
    bad, facts = [], {}
    with Sim(spec.get("seed", 0) & 0xFFFF) as sim:
        s = cfg.settings()
        sim.install_factories(fixed_client_addr=True)
        sim.net.fate = lambda tx: [0.01]
        top = 2 ** (8 * cfg.pid_size) - 1
        pid_a = rng.choice([1000, 1, top, 0x12345678])
        pid_b = ((pid_a ^ 0x5A5A) or 7) if spec.get("user", "other") == "other" else pid_a
        pid_c = (pid_a ^ 0x3C3C3) & top or 9
        sk_a, sk_b, sk_c = (rng.randbytes(cfg.key_size) for _ in range(3))
        log = sim.net.log
        inv = []
        st = {"armed": False, "phase": 1}
        ev = {"release": anyio.Event(), "rx": anyio.Event(), "send_start": anyio.Event(), "send_done": anyio.Event(), "close": anyio.Event()}
        ref = {}

        # ---- the server's socket: controllable send() for CONNECT acknowledgements, observation of the CONNECT's hand-over in recv()
        def is_connect(data, ack):
            return any(p.type == 1 and bool(p.flags & 1) == ack for p in decode(s, data))

        def old_in():
            """is the PREVIOUS connection's entry (that very object) in the server's table?"""
            return int(any(c is ref.get("old_client") for c in ref["stream"].clients.values()))

        def wrap(sock):
            osend, orecv = sock.send, sock.recv
            async def send(data, *a):
                if st["armed"] and is_connect(data, True):
                    facts["ack_sends"] = facts.get("ack_sends", 0) + 1
                    facts.setdefault("table_at_send_start", old_in())
                    ev["send_start"].set()
                    if hold[0] == "yield":
                        for _ in range(hold[1]):
                            await anyio.sleep(0)
                    elif hold[0] == "time":
                        await anyio.sleep(quant(hold[1]))
                    facts.setdefault("table_at_send_end", old_in())
                    facts.setdefault("old_returned_during_send", bool(inv) and inv[0]["returned"] is not None)
                    await osend(data, *a)
                    ev["send_done"].set()
                    return
                await osend(data, *a)
            async def recv():
                r = await orecv()
                data = r[0] if isinstance(r, tuple) else r
                if st["armed"] and is_connect(data, False):
                    ev["rx"].set()
                return r
            sock.send, sock.recv = send, recv
            return sock

        obind, opair = sim.net.bind, sim.net.stream_pair
        sim.net.bind = lambda addr: wrap(obind(addr))
        def pair(a_addr, b_addr):
            a, b = opair(a_addr, b_addr)
            return a, wrap(b)          # b: the server's end
        sim.net.stream_pair = pair

        async def handler(client):
            idx = len(inv)
            rec = {"t": sim.now(), "phase": st["phase"], "pid": client.pid(), "key": getattr(client, "session_key", None), "echoed": 0, "ended": None, "returned": None}
            inv.append(rec)
            if idx == 0: ref["old_client"] = client
            try:
                async with anyio.create_task_group() as tg:
                    async def on_signal():
                        if idx == 0 and end == "close":
                            await ev["close"].wait()
                            await client.close()
                        if idx == 0 and end == "vanished":
                            await ev["release"].wait()
                            tg.cancel_scope.cancel()
                    tg.start_soon(on_signal)
                    try:
                        while True:
                            d = await client.recv()
                            await client.send(b"echo:" + d)
                            rec["echoed"] += 1
                    except anyio.EndOfStream:
                        pass
                    tg.cancel_scope.cancel()
            except Exception as e:
                rec["error"] = repr(e)
            rec["ended"] = sim.now()
            if idx == 0:
                # the application is busy with the user's state after it saw the end of the connection
                await ev["release"].wait()
            rec["pid_end"], rec["key_end"] = client.pid(), getattr(client, "session_key", None)
            rec["returned"] = sim.now()
            if idx == 0 and spec.get("how") == "raise":
                raise RuntimeError("the application's handler failed")

        def table():
            return len(ref["stream"].clients)

        def dark(on):
            if on:
                sim.net.fate = lambda tx: []
                sim.net.stream_fate = lambda src, dst, n, chunk: "drop"
            else:
                sim.net.fate = lambda tx: [0.01]
                sim.net.stream_fate = None

        def connect_acks_since(pos):
            n = 0
            for e in log[pos:]:
                data = e[5] if e[0] == "tx" and e[3] == SERVER else e[4] if e[0] == "stx" and e[2] == SERVER else None
                if data is not None:
                    n += sum(1 for p in decode(s, data) if p.type == 1 and p.flags & 1)
            return n

        async def talk(client, msg):
            try:
                await client.send(msg)
                with anyio.fail_after(quant(bound + 5)):
                    d = await client.recv()
                return "ok" if d == b"echo:" + msg else "wrong-echo:%r" % d[:24]
            except anyio.EndOfStream:
                return "no-echo (connection ended)"
            except TimeoutError:
                return "no-echo (nothing arrived)"
            except anyio.ClosedResourceError:
                return "closed"
            except Exception as e:
                return "error:" + repr(e)[:60]

        async def attempt(tr, creds, msg):
            """one connection attempt over a client transport -> (handshake completed, talk outcome)"""
            done = False
            try:
                async with tr.connect(1, 10, credentials=creds, disconnect_timeout=quant(bound)) as c:
                    done = True
                    out = await talk(c, msg)
                    await anyio.sleep(quant(0.25))
                return True, out
            except BaseException as e:
                if isinstance(e, (KeyboardInterrupt, SystemExit)): raise
                return done, "failed:" + repr(e)[:60]

        def judge(new, pos, ticket_pid, ticket_key, age, what, completed, outcome):
            acks = connect_acks_since(pos)
            if age > 120.5:
                if new:
                    bad.append("%s: the ticket is %g s old (older than 120 s), yet the server created a connection and invoked the handler, which observed user id %r"
                               % (what, age, [r["pid"] for r in new]))
                if acks:
                    bad.append("%s: the ticket is %g s old (older than 120 s), yet the server acknowledged the CONNECT (%d CONNECT ACK)" % (what, age, acks))
                if completed:
                    bad.append("%s: the ticket is %g s old (older than 120 s), yet the client's handshake completed" % (what, age))
            if len(new) > 1:
                bad.append("%s: one connection request, %d handler invocations" % (what, len(new)))
            for r in new:
                if r["pid"] != ticket_pid:
                    bad.append("%s: the handler of the connection it created observes user id %r; the ticket was issued to %r%s"
                               % (what, r["pid"], ticket_pid, " (that is the PREVIOUS connection's user)" if r["pid"] == pid_a and pid_a != ticket_pid else ""))
                if r.get("pid_end", r["pid"]) != r["pid"]:
                    bad.append("%s: the handler's connection changed its user id from %r to %r" % (what, r["pid"], r["pid_end"]))
                if r["key"] is not None and r["key"] != ticket_key:
                    bad.append("%s: the connection it created is keyed with %s, the ticket's session key is %s%s"
                               % (what, r["key"].hex() or "the empty key", ticket_key.hex(), " (that is the PREVIOUS connection's key)" if r["key"] == sk_a else ""))
            if new and completed and outcome != "ok" and age <= 119 and all(r["pid"] == ticket_pid for r in new):
                bad.append("%s: a connection was created and the client's handshake completed, but the client's message (keyed with the ticket's session key) was not echoed (%s)" % (what, outcome))

        async def main():
            async with prudp.serve_transport(s, SERVER[0], SERVER[1]) as srv:
                async with srv.serve(handler, 1, 10, SERVER_KEY):
                    ref["stream"] = srv.ports.get(1, 10)
                    async with anyio.create_task_group() as ctl:
                        async def phase1(tr):
                            creds_a = make_ticket(s, sk_a, pid_a, sim.epoch + int(sim.now()))
                            try:
                                async with tr.connect(1, 10, credentials=creds_a, disconnect_timeout=quant(0.2) if end == "vanished" else quant(bound)) as c1:
                                    first = await talk(c1, b"hello")
                                    if first != "ok" or len(inv) != 1:
                                        bad.append("phase 1: the honest session with a fresh valid ticket did not work (message: %s, handler invocations: %d)" % (first, len(inv)))
                                        return
                                    if inv[0]["pid"] != pid_a:
                                        bad.append("phase 1: the handler observed user id %r, the ticket was issued to %r" % (inv[0]["pid"], pid_a))
                                    if end == "close":
                                        ev["close"].set()
                                        with anyio.move_on_after(quant(bound + 5)):
                                            try:
                                                await c1.recv()
                                            except anyio.EndOfStream:
                                                pass
                                    elif end == "timeout":
                                        dark(True)
                                        await anyio.sleep(quant(2 * bound + 1))
                                        dark(False)
                                    elif end == "vanished":
                                        dark(True)
                                    # peer-disconnect: leaving the block disconnects
                            except BaseException as e:
                                if isinstance(e, (KeyboardInterrupt, SystemExit)) or isinstance(e, anyio.get_cancelled_exc_class()): raise
                                bad.append("phase 1: the honest session raised %r" % (e,))
                                return
                            if end == "vanished":
                                dark(False)
                            else:
                                await anyio.sleep(quant(0.5))
                                if inv[0]["ended"] is None:
                                    bad.append("phase 1: the server application never saw the end of the connection (%s)" % end)
                                    return
                            return True
                        async def phase23(tr, reuse):
                            # ---- phase 2: user B from the same endpoint
                            st["phase"], st["armed"] = 2, True
                            t2 = sim.now()
                            facts["table_before"] = table()
                            async def releaser():
                                k, v = release
                                if k == "at":
                                    await anyio.sleep(max(0.0, quant(t2 + v - sim.now())))
                                elif k == "rx":
                                    await ev["rx"].wait()
                                    for _ in range(v): await anyio.sleep(0)
                                elif k == "send-start":
                                    await ev["send_start"].wait()
                                    if v: await anyio.sleep(quant(v))
                                elif k == "send-done":
                                    await ev["send_done"].wait()
                                    if v: await anyio.sleep(quant(v))
                                elif k == "never":
                                    return
                                facts["released_at"] = round(sim.now() - t2, 6)
                                ev["release"].set()
                            if release[0] == "at" and release[1] < 0:
                                # released before the second handshake begins
                                facts["released_at"] = release[1]
                                ev["release"].set()
                                await anyio.sleep(quant(-release[1]))
                                t2 = sim.now()
                            else:
                                ctl.start_soon(releaser)
                            facts["old_returned_before"] = inv[0]["returned"] is not None
                            facts["table_at_start"] = table()
                            before, pos = len(inv), len(log)
                            age = spec.get("age", 0)
                            creds_b = make_ticket(s, sk_b, pid_b, sim.epoch + int(sim.now()) - age)
                            real_age = sim.now() - (int(sim.now()) - age)
                            what = ("a CONNECT with a %s ticket (%g s old) of %s from the same endpoint (%s) while the entry of its previous connection (ended by %s) is %s; "
                                    "the previous handler %s %s, the server's socket spends %s inside send() for the CONNECT acknowledgement") % (
                                "valid, fresh" if real_age <= 120 else "stale", real_age, "another user" if pid_b != pid_a else "the same user",
                                "client transport reused, same local port" if reuse else "new client transport, same address and port", end,
                                "still in the server's table" if facts["table_at_start"] else "gone", "raises" if spec.get("how") == "raise" else "returns",
                                {"at": "%+g s relative to the start of the handshake", "rx": "%d event-loop turns after the server read the CONNECT", "send-start": "%g s after the server began to send the CONNECT acknowledgement",
                                 "send-done": "%g s after the CONNECT acknowledgement was sent", "never": "only after the attempt%.0s"}[release[0]] % release[1],
                                {"yield": "%d event-loop turns", "time": "%g s", "none": "no time%.0s"}[hold[0]] % hold[1])
                            completed, outcome = await attempt(tr, creds_b, b"again")
                            await anyio.sleep(quant(0.3))
                            new = inv[before:]
                            st["armed"] = False
                            facts["second"] = {"created": len(new), "completed": completed, "outcome": outcome, "pids": [r["pid"] for r in new]}
                            judge(new, pos, pid_b, sk_b, real_age, what, completed, outcome)
                            if inv[0].get("pid_end", pid_a) != pid_a or (inv[0]["returned"] is None and ref_old_pid() != pid_a):
                                bad.append("%s: the handler of the PREVIOUS connection (admitted for user %r) now observes user id %r" % (what, pid_a, inv[0].get("pid_end", ref_old_pid())))
                            if real_age <= 119 and facts["old_returned_before"] and facts["table_at_start"] == 0 and not (len(new) == 1 and completed and outcome == "ok"):
                                bad.append("%s: a holder of a valid fresh ticket was not admitted although the entry was gone (handler invocations %d, handshake %s, message %s)" % (what, len(new), completed, outcome))
                            if real_age > 120.5 and table() > facts["table_at_start"]:
                                bad.append("%s: the server's client table grew" % what)
                            # ---- phase 3: the old handler has returned, everything settled: user C
                            if not ev["release"].is_set():
                                facts["released_at"] = "after the attempt"
                                ev["release"].set()
                            await anyio.sleep(quant(2 * bound + 3))
                            st["phase"] = 3
                            if inv[0]["returned"] is None:
                                bad.append("the previous handler was released and never returned")
                                return
                            before, pos = len(inv), len(log)
                            creds_c = make_ticket(s, sk_c, pid_c, sim.epoch + int(sim.now()))
                            completed, outcome = await attempt(tr, creds_c, b"later")
                            await anyio.sleep(quant(0.3))
                            new = inv[before:]
                            what3 = "a CONNECT with a valid, fresh ticket of a third user from the same endpoint after the handler of the first connection (ended by %s) returned and the second attempt was over" % end
                            judge(new, pos, pid_c, sk_c, 1.0, what3, completed, outcome)
                            facts["third"] = {"created": len(new), "completed": completed, "outcome": outcome}
                            if not (len(new) == 1 and completed and outcome == "ok"):
                                bad.append("%s: not admitted (handler invocations %d, handshake %s, message %s)" % (what3, len(new), completed, outcome))

                        def ref_old_pid():
                            return ref.get("old_client").pid() if ref.get("old_client") is not None else pid_a

                        reuse = spec.get('reuse', True)
                        if reuse:
                            async with prudp.connect_transport(s, SERVER[0], SERVER[1]) as tr:
                                if await phase1(tr):
                                    await phase23(tr, True)
                        else:
                            ok = False
                            async with prudp.connect_transport(s, SERVER[0], SERVER[1]) as tr:
                                ok = await phase1(tr)
                            if ok:
                                await anyio.sleep(quant(0.05))
                                async with prudp.connect_transport(s, SERVER[0], SERVER[1]) as tr:
                                    await phase23(tr, False)
                        ev["release"].set()
                        ctl.cancel_scope.cancel()
                    await anyio.sleep(quant(bound + 2))
                    facts["table_end"] = table()

        async def guarded():
            with anyio.move_on_after(60 * bound + 200) as scope:
                await main()
            facts["timed_out"] = scope.cancelled_caught

        try:
            sim.run(guarded())
        except Deadlock as e:
            bad.append("the scenario deadlocked: %s" % e)
        if facts.get("timed_out"):
            bad.append("the scenario did not finish in its (virtual) time")
        if facts.get("table_end"):
            bad.append("at the end (all handlers returned, all clients gone) the server still holds %d table entries" % facts["table_end"])
        facts["invocations"] = [(round(r["t"], 3), r["phase"], r["pid"]) for r in inv]
        facts["pids"] = {"a": pid_a, "b": pid_b, "c": pid_c}
    return bad, facts


def work(spec):
    try:
        bad, facts = run_case(spec)
        return spec, bad, facts, None
    except Exception:
        return spec, [], {}, traceback.format_exc()
    finally:
        os.environ["TZ"] = "UTC0"; time.tzset()


RELEASES = ([("at", -0.5), ("at", -0.002), ("at", 0.0), ("at", 0.005), ("at", 0.015), ("at", 0.025)] +
                  [("rx", k) for k in (0, 1, 2, 3, 5, 8)] +
                  [("send-start", 0), ("send-start", 0.001), ("send-start", 0.02)] +
                  [("send-done", 0), ("send-done", 0.001), ("send-done", 0.2)] + [("never", 0)])


def cases(rng, quick):
    out = []
    encs = ("v1", "v0", "lite")
    def base(enc):
        return dict(enc=enc, pid_size=rng.choice([4, 8]), key_size=rng.choice([16, 32]), ticket_version=rng.choice([0, 1]),
                    tz=rng.choice(["UTC0", "JST-9", "EST5"]), seed=rng.getrandbits(32))
    ends = ("peer-disconnect", "timeout", "close")
    for rep in range(1 if quick else 4):
        for enc in encs:
            # H1. the old handler returns WHILE the CONNECT acknowledgement is being sent: every number of event-loop turns inside send(),
            #     released the moment the send begins (the entry disappears before / at / after the send completes), and timed holds
            for n in range(0, 13):
                out.append(dict(base(enc), name="handoff-during-send", end=rng.choice(ends), release=("send-start", 0), hold=("yield", n),
                                reuse=rng.random() < 0.6, user="other", how=rng.choice(["return", "return", "raise"]), age=rng.choice([0, 0, 60, 117])))
            for d, r in ((0.05, 0), (0.05, 0.001), (0.05, 0.049), (0.4, 0.1), (2.0, 0.7)):
                for end in ends:
                    out.append(dict(base(enc), name="handoff-during-send", end=end, release=("send-start", r), hold=("time", d),
                                    reuse=rng.random() < 0.6, user=rng.choice(["other", "other", "same"]), how=rng.choice(["return", "return", "raise"]),
                                    age=rng.choice([0, 0, 60, 117])))
            # H2. every other moment relative to process_connect x every hold
            for rel in RELEASES:
                for hold in (("none", 0), ("yield", rng.choice([1, 2, 4, 7])), ("time", rng.choice([0.03, 0.3]))):
                    out.append(dict(base(enc), name="handoff-moment", end=rng.choice(ends), release=rel, hold=hold, reuse=rng.random() < 0.6,
                                    user=rng.choice(["other", "other", "other", "same"]), how=rng.choice(["return", "return", "raise"]), age=rng.choice([0, 0, 30, 117])))
            # H3. the second ticket is stale: nothing may be created or acknowledged at any of these moments
            for rel in (("send-start", 0), ("rx", 1), ("rx", 3), ("at", 0.025), ("never", 0), ("at", -0.5)):
                out.append(dict(base(enc), name="handoff-stale-ticket", end=rng.choice(ends), release=rel, hold=rng.choice([("yield", 3), ("time", 0.05)]),
                                reuse=rng.random() < 0.6, user="other", how="return", age=rng.choice([122, 130, 600, 86400])))
            # H4. the previous client vanished silently: the server has not noticed yet when the next user connects
            for rel in (("send-start", 0), ("send-start", 0.01), ("rx", 1), ("never", 0)):
                out.append(dict(base(enc), name="handoff-previous-vanished", end="vanished", release=rel, hold=rng.choice([("yield", 4), ("time", 0.05), ("time", 3.0)]),
                                reuse=True, user="other", how="return", age=0))
    return out


if __name__ == "__main__":
    import sys
    rng = random.Random(int(sys.argv[1]) if len(sys.argv) > 1 else 0)
    cs = cases(rng, True)
    t0 = time.time()
    nb = 0
    for c in cs:
        spec, bad, facts, err = work(c)
        nb += bool(bad or err)
        print(c["name"], c["enc"], c["end"], c["release"], c["hold"], "reuse" if c["reuse"] else "new", c["how"], c["age"], "->",
              {k: facts.get(k) for k in ("table_at_start", "table_at_send_start", "table_at_send_end", "old_returned_during_send", "released_at", "second", "third", "invocations")},
              "BAD" if bad else "", bad[:2], err or "")
    print(len(cs), "cases", nb, "bad", time.time() - t0, "s")
