import NxModel.Bytes
/-!
# Bit streams — mirrors `anynet.streams.BitStreamOut` / `BitStreamIn` (big-endian bit order)

`BitStreamOut.bit` writes bit `7 - bitpos` of the current byte, `bits(value, num)` writes
`(value >> (num-i-1)) & 1` for `i = 0..num-1` (most significant first; *no range check*: a value that does
not fit is silently truncated), `write/u8/u16` go through `bits(value, 8)` when unaligned and overwrite
whole bytes when aligned — in both cases eight bits, MSB first. `get()` returns the bytes written so
far; a partial last byte has its unwritten low bits zero.

So an output stream *is* a list of bits and `get()` is `packBits`; an input stream over `data` is
`unpackBits data` consumed from the front; running out of bits is `OverflowError`.
-/
namespace Nx.Misc
open Nx

abbrev Bits := List Bool

/-- `BitStreamOut.bits(v, w)` -/
def natToBits : Nat → Nat → Bits
  | 0, _ => []
  | w + 1, v => v.testBit w :: natToBits w v

/-- `BitStreamIn.bits(n)`: `value = (value << 1) | bit` -/
def bitsToNat (bs : Bits) : Nat := bs.foldl (fun a b => 2 * a + b.toNat) 0

def byteOfBits (bs : Bits) : UInt8 := b8 (bitsToNat bs)

/-- `BitStreamOut.get()` of a stream into which `bs` was written -/
def packBits : Bits → Bytes
  | b0 :: b1 :: b2 :: b3 :: b4 :: b5 :: b6 :: b7 :: r => byteOfBits [b0, b1, b2, b3, b4, b5, b6, b7] :: packBits r
  | [] => []
  | l => [byteOfBits (l ++ List.replicate (8 - l.length) false)]

/-- the bit sequence a `BitStreamIn` delivers -/
def unpackBits (d : Bytes) : Bits := d.flatMap fun b => natToBits 8 b.toNat

/-- split into `n` chunks of `k` bits (callers guarantee the length) -/
def chunkBits (k : Nat) : Nat → Bits → List Bits
  | 0, _ => []
  | n + 1, bs => bs.take k :: chunkBits k n (bs.drop k)

end Nx.Misc
