import NxProofs.PrudpBasic
/-! option TLVs: round trip and rejection (prudp.py `encode_options` / `decode_options`) -/
namespace Nx.Prudp
open Nx

/-- a well-formed dict entry: known key, value of the right kind and range -/
def OptEntryWF : Nat → OptVal → Prop
  | 0, .int n => n < 4294967296
  | 1, .bytes b => b.length = 16
  | 2, .int n => n < 256
  | 3, .int n => n < 65536
  | 4, .int n => n < 256
  | 128, .bytes b => b.length = 16
  | _, _ => False

def OptsWF (o : Opts) : Prop := o.keys.Nodup ∧ ∀ kv ∈ o, OptEntryWF kv.1 kv.2

theorem OptEntryWF_cases {k : Nat} {v : OptVal} (h : OptEntryWF k v) :
    (k = 0 ∧ ∃ n, v = .int n ∧ n < 4294967296) ∨ (k = 1 ∧ ∃ b, v = .bytes b ∧ b.length = 16) ∨
    (k = 2 ∧ ∃ n, v = .int n ∧ n < 256) ∨ (k = 3 ∧ ∃ n, v = .int n ∧ n < 65536) ∨
    (k = 4 ∧ ∃ n, v = .int n ∧ n < 256) ∨ (k = 128 ∧ ∃ b, v = .bytes b ∧ b.length = 16) := by
  unfold OptEntryWF at h
  split at h <;> simp_all

theorem pad16_of_length {b : Bytes} (h : b.length = 16) : pad16 b = b := by
  unfold pad16; rw [List.take_append_of_le_length (by omega)]; exact List.take_of_length_le (by omega)

/-- how the loop consumes the encoding of a well-formed entry -/
theorem decodeOptionsLoop_entry (fuel : Nat) (seen : List Nat) (k : Nat) (v : OptVal) (rest : Bytes)
    (h : OptEntryWF k v) :
    decodeOptionsLoop (fuel + 1) seen (encodeOption k v ++ rest) =
      if seen.contains k then .error .value
      else (decodeOptionsLoop fuel (k :: seen) rest).map ((k, v) :: ·) := by
  rcases OptEntryWF_cases h with ⟨rfl, n, rfl, hn⟩ | ⟨rfl, b, rfl, hb⟩ | ⟨rfl, n, rfl, hn⟩ | ⟨rfl, n, rfl, hn⟩ | ⟨rfl, n, rfl, hn⟩ | ⟨rfl, b, rfl, hb⟩
  all_goals simp only [encodeOption, optInfo, decodeOptionsLoop, u8, List.cons_append, List.nil_append, rdU8]
  · simp [rdOptVal, Except.map, rdU32_u32le _ _ hn]
    split
    · rfl
    · cases decodeOptionsLoop fuel (0 :: seen) rest <;> rfl
  · simp [rdOptVal, Except.map, pad16_of_length hb, rd_append' _ _ hb]
    split
    · rfl
    · cases decodeOptionsLoop fuel (1 :: seen) rest <;> rfl
  · simp [rdOptVal, Except.map, rdU8, Nat.mod_eq_of_lt hn]
    split
    · rfl
    · cases decodeOptionsLoop fuel (2 :: seen) rest <;> rfl
  · simp [rdOptVal, Except.map, rdU16_u16le _ _ hn]
    split
    · rfl
    · cases decodeOptionsLoop fuel (3 :: seen) rest <;> rfl
  · simp [rdOptVal, Except.map, rdU8, Nat.mod_eq_of_lt hn]
    split
    · rfl
    · cases decodeOptionsLoop fuel (4 :: seen) rest <;> rfl
  · simp [rdOptVal, Except.map, pad16_of_length hb, rd_append' _ _ hb]
    split
    · rfl
    · cases decodeOptionsLoop fuel (128 :: seen) rest <;> rfl

theorem encodeOption_length {k : Nat} {v : OptVal} (h : OptEntryWF k v) :
    2 < (encodeOption k v).length ∧ (encodeOption k v).length ≤ 18 := by
  rcases OptEntryWF_cases h with ⟨rfl, n, rfl, hn⟩ | ⟨rfl, b, rfl, hb⟩ | ⟨rfl, n, rfl, hn⟩ | ⟨rfl, n, rfl, hn⟩ | ⟨rfl, n, rfl, hn⟩ | ⟨rfl, b, rfl, hb⟩
  all_goals simp [encodeOption, optInfo, pad16_of_length, *]

theorem decodeOptionsLoop_encode (o : Opts) : ∀ (fuel : Nat) (seen : List Nat),
    (∀ kv ∈ o, OptEntryWF kv.1 kv.2) → o.keys.Nodup → (∀ k ∈ o.keys, k ∉ seen) →
    (encodeOptions o).length < fuel →
    decodeOptionsLoop fuel seen (encodeOptions o) = .ok o := by
  induction o with
  | nil =>
    intro fuel seen _ _ _ hf
    cases fuel with
    | zero => simp [encodeOptions] at hf
    | succ f => simp [encodeOptions, decodeOptionsLoop]
  | cons kv o ih =>
    obtain ⟨k, v⟩ := kv
    intro fuel seen hwf hnd hseen hf
    have hkv : OptEntryWF k v := hwf (k, v) (by simp)
    have hl := encodeOption_length hkv
    cases fuel with
    | zero => simp at hf
    | succ f =>
      simp only [encodeOptions] at hf ⊢
      rw [decodeOptionsLoop_entry f seen k v _ hkv]
      have hk : ¬ seen.contains k = true := by
        have := hseen k (by simp [Opts.keys]); simpa using this
      rw [if_neg hk]
      simp only [Opts.keys, List.map_cons, List.nodup_cons] at hnd
      rw [ih f (k :: seen) (fun kv h => hwf kv (by simp [h])) hnd.2 ?_ ?_]
      · rfl
      · intro k' hk' hmem
        simp only [List.mem_cons] at hmem
        rcases hmem with rfl | hmem
        · exact hnd.1 hk'
        · exact hseen k' (by simp [Opts.keys] at hk' ⊢; right; exact hk') hmem
      · simp at hf; omega

theorem options_roundtrip (o : Opts) (h : OptsWF o) : decodeOptions (encodeOptions o) = .ok o :=
  decodeOptionsLoop_encode o _ [] h.2 h.1 (by simp) (by omega)


/-- the loop over `encodeOptions o ++ t`: consumes `o`, then continues on `t` with the keys of `o` seen -/
theorem decodeOptionsLoop_append (o : Opts) (t : Bytes) : ∀ (fuel : Nat) (seen : List Nat),
    (∀ kv ∈ o, OptEntryWF kv.1 kv.2) → o.keys.Nodup → (∀ k ∈ o.keys, k ∉ seen) → o.length ≤ fuel →
    decodeOptionsLoop fuel seen (encodeOptions o ++ t) =
      (decodeOptionsLoop (fuel - o.length) (o.keys.reverse ++ seen) t).map (o ++ ·) := by
  induction o with
  | nil =>
    intro fuel seen _ _ _ _
    simp only [encodeOptions, List.nil_append, List.length_nil, Nat.sub_zero, Opts.keys, List.map_nil, List.reverse_nil]
    cases decodeOptionsLoop fuel seen t <;> rfl
  | cons kv o ih =>
    obtain ⟨k, v⟩ := kv
    intro fuel seen hwf hnd hseen hf
    have hkv : OptEntryWF k v := hwf (k, v) (by simp)
    cases fuel with
    | zero => simp at hf
    | succ f =>
      simp only [encodeOptions, List.append_assoc]
      rw [decodeOptionsLoop_entry f seen k v _ hkv]
      have hk : ¬ seen.contains k = true := by
        have := hseen k (by simp [Opts.keys]); simpa using this
      rw [if_neg hk]
      simp only [Opts.keys, List.map_cons, List.nodup_cons] at hnd
      rw [ih f (k :: seen) (fun kv h => hwf kv (by simp [h])) hnd.2 ?_ (by simp at hf; omega)]
      · have e1 : f + 1 - ((k, v) :: o).length = f - o.length := by simp
        have e2 : (Opts.keys ((k, v) :: o)).reverse ++ seen = (Opts.keys o).reverse ++ k :: seen := by
          simp [Opts.keys]
        rw [e1, e2]
        cases decodeOptionsLoop (f - o.length) ((Opts.keys o).reverse ++ k :: seen) t <;> rfl
      · intro k' hk' hmem
        simp only [List.mem_cons] at hmem
        rcases hmem with rfl | hmem
        · exact hnd.1 hk'
        · exact hseen k' (by simp [Opts.keys] at hk' ⊢; right; exact hk') hmem

/-! ### rejection -/

/-- an unknown option type is rejected (after both the type and the length byte were read) -/
theorem decodeOptionsLoop_unknown (fuel : Nat) (seen : List Nat) (t l : UInt8) (r : Bytes)
    (h : optInfo t.toNat = none) : decodeOptionsLoop (fuel + 1) seen (t :: l :: r) = .error .value := by
  simp [decodeOptionsLoop, rdU8, h]

/-- a length byte different from the table's size is rejected -/
theorem decodeOptionsLoop_badlen (fuel : Nat) (seen : List Nat) (t l : UInt8) (r : Bytes) (size : Nat) (fmt : OptFmt)
    (h : optInfo t.toNat = some (size, fmt)) (hl : l.toNat ≠ size) :
    decodeOptionsLoop (fuel + 1) seen (t :: l :: r) = .error .value := by
  simp [decodeOptionsLoop, rdU8, h, hl]

/-- an option whose type is already in the dict is rejected -/
theorem decodeOptionsLoop_dup (fuel : Nat) (seen : List Nat) (k : Nat) (v : OptVal) (rest : Bytes)
    (h : OptEntryWF k v) (hk : k ∈ seen) :
    decodeOptionsLoop (fuel + 1) seen (encodeOption k v ++ rest) = .error .value := by
  rw [decodeOptionsLoop_entry fuel seen k v rest h, if_pos (by simpa using hk)]

theorem encodeOptions_length_ge (o : Opts) (h : ∀ kv ∈ o, OptEntryWF kv.1 kv.2) : o.length ≤ (encodeOptions o).length := by
  induction o with
  | nil => simp
  | cons kv o ih =>
    obtain ⟨k, v⟩ := kv
    have hx : OptEntryWF k v := h (k, v) (by simp)
    have := encodeOption_length hx
    have := ih (fun kv hm => h kv (by simp [hm]))
    simp [encodeOptions]; omega

/-- a second occurrence of a key anywhere after a well-formed block is rejected -/
theorem decodeOptions_dup (o : Opts) (k : Nat) (v : OptVal) (rest : Bytes) (ho : OptsWF o)
    (hk : k ∈ o.keys) (hv : OptEntryWF k v) :
    decodeOptions (encodeOptions o ++ (encodeOption k v ++ rest)) = .error .value := by
  unfold decodeOptions
  have h1 := encodeOptions_length_ge o ho.2
  have h2 := encodeOption_length hv
  rw [decodeOptionsLoop_append o _ _ [] ho.2 ho.1 (by simp) (by simp; omega)]
  have : (encodeOptions o ++ (encodeOption k v ++ rest)).length + 1 - o.length =
      ((encodeOptions o ++ (encodeOption k v ++ rest)).length - o.length) + 1 := by simp; omega
  rw [this, decodeOptionsLoop_dup _ _ k v rest hv (by simpa using hk)]
  rfl

/-- the keys of a decoded dict are pairwise distinct (what `set(options)` relies on) -/
theorem decodeOptionsLoop_keys (fuel : Nat) : ∀ (seen : List Nat) (d : Bytes) (o : Opts),
    decodeOptionsLoop fuel seen d = .ok o → o.keys.Nodup ∧ ∀ k ∈ o.keys, k ∉ seen := by
  induction fuel with
  | zero => intro seen d o h; simp [decodeOptionsLoop] at h
  | succ f ih =>
    intro seen d o h
    unfold decodeOptionsLoop at h
    split at h
    · cases h; simp [Opts.keys]
    · split at h; · cases h
      split at h; · cases h
      split at h; · cases h
      split at h; · cases h
      split at h; · cases h
      split at h; · cases h
      split at h; · cases h
      cases h
      rename_i t _ _ _ _ _ _ _ _ _ _ _ hns _ _ _ _ _ rest hrest
      obtain ⟨hnd, hmem⟩ := ih _ _ _ hrest
      simp only [Opts.keys, List.map_cons, List.nodup_cons, List.mem_cons] at hnd hmem ⊢
      refine ⟨⟨fun hin => (hmem t hin) (Or.inl rfl), hnd⟩, ?_⟩
      intro k hk
      rcases hk with rfl | hk
      · simpa using hns
      · exact fun hs => hmem k hk (Or.inr hs)

/-! ### bytes → dict → bytes -/

theorem optInfo_some {k s : Nat} {f : OptFmt} (h : optInfo k = some (s, f)) :
    (k = 0 ∧ s = 4 ∧ f = .I) ∨ (k = 1 ∧ s = 16 ∧ f = .S16) ∨ (k = 2 ∧ s = 1 ∧ f = .B) ∨
    (k = 3 ∧ s = 2 ∧ f = .H) ∨ (k = 4 ∧ s = 1 ∧ f = .B) ∨ (k = 128 ∧ s = 16 ∧ f = .S16) := by
  unfold optInfo at h
  split at h <;> simp_all

theorem rdOptVal_inv {t size : Nat} {fmt : OptFmt} {r2 r3 : Bytes} {v : OptVal}
    (hi : optInfo t = some (size, fmt)) (h : rdOptVal fmt r2 = .ok (v, r3)) :
    encodeOption t v ++ r3 = u8 t ++ (u8 size ++ r2) ∧ OptEntryWF t v := by
  rcases optInfo_some hi with ⟨rfl, rfl, rfl⟩ | ⟨rfl, rfl, rfl⟩ | ⟨rfl, rfl, rfl⟩ | ⟨rfl, rfl, rfl⟩ | ⟨rfl, rfl, rfl⟩ | ⟨rfl, rfl, rfl⟩
  all_goals simp only [rdOptVal, Except.map] at h
  all_goals split at h
  all_goals first | (cases h; done) | skip
  all_goals simp only [Except.ok.injEq, Prod.mk.injEq] at h
  all_goals obtain ⟨rfl, rfl⟩ := h
  · obtain ⟨rfl, hn⟩ := rdU32_inv ‹rdU32 r2 = _›
    simp [encodeOption, optInfo, OptEntryWF, hn]
  · obtain ⟨rfl, hn⟩ := rd_inv ‹rd 16 r2 = _›
    simp [encodeOption, optInfo, OptEntryWF, hn, pad16_of_length hn]
  · obtain ⟨rfl, hn⟩ := rdU8_inv ‹rdU8 r2 = _›
    simp [encodeOption, optInfo, OptEntryWF, hn]
  · obtain ⟨rfl, hn⟩ := rdU16_inv ‹rdU16 r2 = _›
    simp [encodeOption, optInfo, OptEntryWF, hn]
  · obtain ⟨rfl, hn⟩ := rdU8_inv ‹rdU8 r2 = _›
    simp [encodeOption, optInfo, OptEntryWF, hn]
  · obtain ⟨rfl, hn⟩ := rd_inv ‹rd 16 r2 = _›
    simp [encodeOption, optInfo, OptEntryWF, hn, pad16_of_length hn]

/-- whatever `decode_options` accepts is exactly the encoding of the dict it returns (wire order = dict order):
    an option block has one reading only -/
theorem decodeOptionsLoop_sound (fuel : Nat) : ∀ (seen : List Nat) (d : Bytes) (o : Opts),
    decodeOptionsLoop fuel seen d = .ok o → encodeOptions o = d ∧ ∀ kv ∈ o, OptEntryWF kv.1 kv.2 := by
  induction fuel with
  | zero => intro seen d o h; simp [decodeOptionsLoop] at h
  | succ f ih =>
    intro seen d o h
    unfold decodeOptionsLoop at h
    split at h
    · cases h
      rename_i he
      simp only [List.isEmpty_iff] at he
      simp [encodeOptions, he]
    · repeat' split at h
      all_goals first | (cases h; done) | skip
      simp only [Except.ok.injEq] at h
      subst h
      obtain ⟨rfl, -⟩ := rdU8_inv ‹rdU8 d = _›
      rename_i hA hB
      clear hA hB
      obtain ⟨rfl, -⟩ := rdU8_inv ‹rdU8 _ = _›
      obtain ⟨e1, w1⟩ := rdOptVal_inv ‹optInfo _ = _› ‹rdOptVal _ _ = _›
      obtain ⟨e2, w2⟩ := ih _ _ _ ‹decodeOptionsLoop f _ _ = _›
      refine ⟨?_, ?_⟩
      · simp only [encodeOptions, e2, e1]
        simp_all
      · intro kv hkv
        simp only [List.mem_cons] at hkv
        rcases hkv with rfl | hkv
        · exact w1
        · exact w2 kv hkv

/-- an accepted option block is exactly the encoding of the dict it yields, and that dict is well-formed -/
theorem decodeOptions_sound (d : Bytes) (o : Opts) (h : decodeOptions d = .ok o) : encodeOptions o = d ∧ OptsWF o := by
  obtain ⟨e, w⟩ := decodeOptionsLoop_sound _ [] d o h
  exact ⟨e, (decodeOptionsLoop_keys _ [] d o h).1, w⟩

end Nx.Prudp
