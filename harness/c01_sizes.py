"""C01 — payload sizes over the whole legal range, and endpoints that do not share a fragment size.

`prudp.fragment_size` is a LOCAL sending parameter: how the sender cuts a message. It is not negotiated and it is no limit on what
the other endpoint may put into one DATA packet. The property quantifies over fragment sizes 1..1400, compression off / zlib, and
over every message; so the sizes that matter are

  * fragment sizes above the default: 1301..1400 (and, as far as a datagram can carry: 1472, 2048, 9000, 32768, 60000), with
    messages whose single fragments are longer than 1300 bytes (exactly one fragment of fs bytes, fs+1, 2*fs+17, 3*fs, 1301 bytes);
  * zlib: the payload ON THE WIRE is `ratio byte ++ zlib stream` of one fragment. For compressible data a short wire payload
    inflates to more than 1300 bytes (ratio bytes 2..100+); for incompressible data the wire payload is LONGER than the fragment
    it carries (1300 -> 1312 bytes), i.e. longer than the fragment size of sender and receiver;
  * two endpoints with DIFFERENT Settings objects: a conforming peer with a larger (or smaller) fragment size than the receiver's
    own - 1400 vs 1300, 1300 vs 962 (the shipped 3ds / friends configurations against the default), 1364 vs 1300, and extreme
    pairs (1300 vs 50, 7 vs 1400) - in either direction;
  * reliable and unreliable DATA (send_unreliable does not fragment: payloads of the sender's fragment size and of 1400 bytes);
  * v1 (one and two substreams), v0 in its 8 variants, lite (whole writes, and writes cut into TCP-like segments of 536 / 1448 bytes).

Every session sends, in both directions at once, a fixed menu of message sizes built fragment by fragment from four kinds of data
(incompressible / one short unit repeated / random head + repetitive tail / small alphabet) on a network that is perfect, faulty
within the retransmission budget (losses aimed at the big datagrams, duplicates, jitter) or hostile.
Oracle = corr_C01.judge (delivered is a prefix of sent, unreliable payloads byte-identical to a sent one; within budget: everything
delivered, connection up, no send raised). Datagram sessions and whole-write lite sessions are also replayed through the L2 channel
model (corr_C01.to_lines: per direction the SENDER's fragment size; zlib sessions with the validated deflate oracle and the model's
own inflater), wires compared byte for byte.

Fragment sizes above 1400 are outside the property's configuration range; they are explored with data whose ratio byte fits in
one byte (ZlibCompression.compress raises for a ratio above 255, which needs a fragment of several thousand highly compressible
bytes - impossible up to 1400).
"""
import hashlib, random, traceback, zlib
import prudp_session as ps

SYM = [1301, 1350, 1364, 1399, 1400]
CONTROL = [1300, 962]
BIG = [1472, 2048, 9000, 32768, 60000]
ASYM = [(1400, 1300), (1300, 1400), (1300, 962), (962, 1300), (1400, 962), (1364, 1300), (1300, 50), (7, 1400)]     # (client, server)
ENCS = ["v1", "v0", "lite", "v1s"]            # v1s = v1 with two substreams
FAULTS = ["perfect", "budget", "perfect", "budget", "hostile"]


def cases(quick):
    """enumerated: fragment-size pair x compression x encoding, the fault regime and the v0 variant rotating with the index
    (thorough: x every fault regime x all v0 variants)"""
    pairs = [(f, f) for f in SYM] + ASYM + [(f, f) for f in CONTROL] + [(f, f) for f in BIG]
    out = []
    n = 0
    for comp in (1, 0):
        for pair in pairs:
            big = pair[0] > 1400
            for enc in (ENCS[:3] if quick else ENCS):
                if quick and big and enc == "lite" and pair[0] not in (1472, 60000): continue
                variants = [n % 8] if quick or enc != "v0" else range(8)
                for var in variants:
                    for faults in ([FAULTS[n % len(FAULTS)]] if quick else ["perfect", "budget", "hostile"]):
                        out.append({"client_fs": pair[0], "server_fs": pair[1], "compression": comp, "enc": enc, "v0": var,
                                    "faults": "perfect" if enc == "lite" else faults, "segment": (0, 536, 1448)[n % 3] if enc == "lite" else 0})
                        n += 1
    return out


def ratio_ok(chunk):
    return len(chunk) / len(zlib.compress(chunk)) + 1 < 256


def chunk_of(rng, kind, n):
    """one fragment's worth of data of the given kind; whatever the kind, a fragment that would compress more than 255-fold is
    replaced by random bytes (ZlibCompression.compress cannot represent the ratio: it raises - possible only beyond the property's
    range of fragment sizes, e.g. 9000 equal bytes)"""
    c = chunk_of0(rng, kind, n)
    return c if (n <= 1400 or ratio_ok(c)) else rng.randbytes(n)


def chunk_of0(rng, kind, n):
    if n <= 0: return b""
    if kind == "rand":
        return rng.randbytes(n)
    if kind == "rep":
        unit = rng.randbytes(rng.choice([1, 2, 5]))
        c = (unit * (n // len(unit) + 1))[:n]
        return c if ratio_ok(c) else chunk_of0(rng, "alpha", n)
    if kind == "tail":
        noise = min(n, rng.choice([100, 200, 300, 600, 900]))
        return rng.randbytes(noise) + bytes(i % 7 for i in range(n - noise))
    alphabet = rng.randbytes(rng.choice([2, 4, 16]))
    return bytes(rng.choice(alphabet) for _ in range(n))


KINDS_Z = ["rand", "rep", "tail", "alpha", "tail", "rand"]
KINDS_PLAIN = ["rand", "rand", "rep", "tail"]


def message(rng, n, fs, comp):
    """n bytes, composed fragment by fragment (fs = the sender's fragment size), each fragment of its own kind of data"""
    out = b""
    while len(out) < n:
        k = min(fs, n - len(out))
        out += chunk_of(rng, rng.choice(KINDS_Z if comp else KINDS_PLAIN), k)
    return out


def script_for(rng, spec):
    fsz = {"c": spec["client_fs"], "s": spec["server_fs"]}
    comp = spec["compression"]
    nsub = 2 if spec["enc"] == "v1s" else 1
    phases = []
    for ph in range(2):
        phase = []
        for side in "cs":
            fs = fsz[side]
            other = fsz["s" if side == "c" else "c"]
            if ph == 0:
                sizes = [rng.randint(1, 40), fs, fs, 2 * fs + 17, rng.randint(1, 40)]
                if fs >= 1301: sizes.insert(3, 1301)
            else:
                sizes = [fs + 1, max(1, fs - 1), 3 * fs, rng.randint(1, 40)]
                if other < fs: sizes.append(other + 1)          # just above the RECEIVER's fragment size, one fragment for the sender
            sizes = [min(s, 255 * fs) for s in sizes]
            items = [(side, (i % nsub), message(rng, s, fs, comp)) for i, s in enumerate(sizes)]
            # unreliable DATA is never fragmented: one packet of the sender's fragment size, one of 1400 bytes, one short
            us = [fs, rng.randint(1, 64)] if ph == 0 else [1400 if fs <= 1400 else fs]
            if spec["enc"] == "v0" and spec["faults"] == "budget":
                # v0 numbers unreliable and reliable DATA from the same start: with a loss, known finding D15 (the acknowledgement of
                # unreliable id X cancels the timer of reliable id X) would stall the session; the generic family reports that one
                us = []
            for u in us:
                items.insert(rng.randint(0, len(items)), (side, 0, ("u", message(rng, u, max(fs, u), comp))))
            phase += items
        # (the order within one side is the order of its sends; the two sides run concurrently)
        phases.append(phase)
    return phases


def fate_factory(cfg, faults):
    rt = cfg.resend_timeout
    def make(sim, rng):
        if faults == "perfect":
            d = rng.choice([0.0, 0.002, 0.02])
            return lambda tx: [d]
        if faults == "hostile":
            lossy = ps.lossy_fate(rng, drop=rng.choice([0.05, 0.15, 0.3]), dup=rng.choice([0, 0.1, 0.3]), delay=rng.choice([0.1, 0.5]),
                                  max_delay=rng.choice([0.1, 1.0, 2.5]) * rt)
            # (the handshake is left alone: this family is about the data that follows it)
            return lambda tx: [0.005] if tx.g <= 4 else lossy(tx)
        # within the budget: at most resend_limit losses in the whole session, preferably of big datagrams (first transmissions and
        # retransmissions alike); delays well below half the resend timeout; duplicates
        left = [cfg.resend_limit]
        q_big, q_small = rng.choice([0.1, 0.3, 0.6]), rng.choice([0.0, 0.02, 0.1])
        def fate(tx):
            if left[0] and rng.random() < (q_big if len(tx.data) > 1300 else q_small):
                left[0] -= 1; return []
            d = rng.random() * 0.2 * rt if rng.random() < 0.5 else 0.005
            if rng.random() < 0.1: return [d, rng.random() * 0.2 * rt]
            return [d]
        return fate
    return make


def wire_stats(sess):
    """statistics (not an oracle): the largest DATA payload on the wire per direction, how many DATA payloads were longer than the
    receiving endpoint's own fragment size / than 1300 bytes"""
    obs = ps.Observer(sess.settings, sess.cfg)
    saddr = sess.addr["s"]
    rfs = {"c": sess.cfg_s.fragment_size, "s": sess.cfg.fragment_size}       # direction -> the receiver's fragment size
    mx, over_recv, over_1300, unrel_big = 0, 0, 0, 0
    seen = set()
    for e in sess.netlog:
        if e[0] == "tx": d, pkts = ("c" if e[4] == saddr else "s"), obs.decode(e[5])
        elif e[0] == "stx": d, pkts = ("c" if e[3] == saddr else "s"), obs.decode(e[4], (e[2], e[3]))
        else: continue
        for p in pkts:
            if p.type != ps.TYPE_DATA or p.flags & (ps.F_ACK | ps.F_MULTI): continue
            key = (d, p.flags & ps.F_REL, p.substream_id, p.packet_id)
            if key in seen: continue
            seen.add(key)
            n = len(p.payload)
            mx = max(mx, n)
            over_recv += n > rfs[d]
            over_1300 += n > 1300
            unrel_big += (not p.flags & ps.F_REL) and n > 1300
    return mx, over_recv, over_1300, unrel_big


def describe_msg(m):
    b = m if isinstance(m, bytes) else m[1]
    return b.hex() if len(b) <= 48 else "(%d bytes, sha1 %s)" % (len(b), hashlib.sha1(b).hexdigest())


def explain(sess, bad):
    """adds the sizes to the oracle's finding (the first message that differs, what was sent and what arrived)"""
    cfg, cfg_s = sess.cfg, sess.cfg_s
    head = "[fragment size client %d / server %d, compression %s] " % (cfg.fragment_size, cfg_s.fragment_size, "zlib" if cfg.compression else "off")
    sent = {}
    for side, sub, m in sess.accepted:
        if not isinstance(m, tuple): sent.setdefault((side, sub), []).append(m)
    detail = []
    for (side, sub), got in sorted(sess.got.items()):
        other = "s" if side == "c" else "c"
        s = sent.get((other, sub), [])
        for i, m in enumerate(s):
            if i >= len(got):
                detail.append("%s->%s substream %d: message %d of %d (%d bytes) and everything after it not delivered" % (other, side, sub, i + 1, len(s), len(m))); break
            if got[i] != m:
                detail.append("%s->%s substream %d: message %d was sent with %d bytes, delivered with %d bytes%s" % (
                    other, side, sub, i + 1, len(m), len(got[i]), " (a prefix of it)" if m.startswith(got[i]) else "")); break
    tail = ("; " + "; ".join(detail[:3])) if detail else ""
    return [(k, head + w + tail) for k, w in bad]


def work(idx, seed, quick, judge, to_lines):
    """seed = 'sizes:<k>:<seed>'; same result tuple as corr_C01.work"""
    _, k, s = seed.split(":")
    k, s = int(k), int(s)
    cfg = None
    try:
        spec = cases(quick)[k]
        rng = random.Random(s)
        enc = spec["enc"]
        kw = dict(fragment_size=spec["client_fs"], compression=spec["compression"], resend_timeout=1.0, resend_limit=3, ping_timeout=1e6)
        if enc == "lite": kw.update(transport="lite", version=1)
        elif enc == "v0": kw.update(version=0, v0=((spec["v0"] >> 2) & 1, (spec["v0"] >> 1) & 1, spec["v0"] & 1))
        else: kw.update(version=1, max_substream=1 if enc == "v1s" else 0)
        if enc != "lite" and rng.random() < 0.3:
            kw.update(credentials=True, pid_size=rng.choice([4, 8]), key_size=rng.choice([16, 32]))
        cfg = ps.Cfg(**kw)
        cfg_s = ps.Cfg(**dict(kw, fragment_size=spec["server_fs"])) if spec["server_fs"] != spec["client_fs"] else None
        script = script_for(rng, spec)
        faults = spec["faults"]
        kwargs = {}
        seg = spec["segment"]
        if seg:
            # a byte stream has no message boundaries: TCP hands the big packets over in segments
            def setup(sim, out):
                sim.net.chunker = lambda data: [data[i:i + seg] for i in range(0, len(data), seg)]
            kwargs["setup"] = setup
        sseed = rng.getrandbits(40)
        sess = ps.run_session(cfg, sseed, script, fate_factory(cfg, faults), cfg_s=cfg_s, max_time=600.0, **kwargs)
        regime = "stream" if enc == "lite" else ("hostile" if faults == "hostile" else "budget")
        bad = explain(sess, judge(sess, regime)) if not sess.crash else judge(sess, regime)
        lines, expect = ([], [])
        # (fragments of 32768 / 60000 bytes are judged on the real code only: the replay of such a session costs the model seconds)
        if not sess.crash and not seg and len(sess.netlog) <= 20000 and max(spec["client_fs"], spec["server_fs"]) <= 9000:
            lines, expect = to_lines(sess, "s%d" % idx)
        mx, over_recv, over_1300, unrel_big = wire_stats(sess) if not sess.crash else (0, 0, 0, 0)
        delivered = sum(len(g) for g in sess.got.values())
        stats = {"tx": sum(1 for e in sess.netlog if e[0] in ("tx", "stx")), "regime": "sizes-" + (faults if enc != "lite" else "stream"),
                 "enc": "lite" if enc == "lite" else "v%d" % cfg.version, "msgs": len(sess.accepted),
                 "connect_error": bool(sess.connect_error), "timed_out": sess.timed_out,
                 "sizes": {"pair": "%d/%d" % (spec["client_fs"], spec["server_fs"]), "asymmetric": cfg_s is not None, "compression": spec["compression"],
                           "largest_data_payload_on_wire": mx, "data_payloads_longer_than_receivers_fragment_size": over_recv,
                           "data_payloads_longer_than_1300": over_1300, "unreliable_payloads_longer_than_1300": unrel_big,
                           "delivered": delivered, "delivered_unreliable": sum(len(g) for g in sess.gotu.values()),
                           "messages_longer_than_1300_delivered": sum(1 for g in sess.got.values() for m in g if len(m) > 1300),
                           "segmented_stream": bool(seg)}}
        scr = [[(a, b, describe_msg(c), isinstance(c, tuple)) for a, b, c in ph] for ph in script]
        d = cfg.describe()
        d["sizes"] = spec
        d["server_fragment_size"] = spec["server_fs"]
        return idx, seed, d, scr, "sizes-" + regime, sseed, bad, lines, expect, stats, None
    except Exception:
        return idx, seed, cfg.describe() if cfg else {"scenario": seed}, None, "sizes", 0, [], [], [], {}, traceback.format_exc()
