#!/usr/bin/env python3
"""re-run the property's check against recorded seeds on the current /verif and /repo HEAD; record under meta['recheck']"""
import json, os, subprocess, sys, time
def sh(cmd, cwd=None, env=None, timeout=3000):
    p = subprocess.run(cmd, shell=True, cwd=cwd, env=env, stdout=subprocess.PIPE, stderr=subprocess.STDOUT, text=True, timeout=timeout)
    return p.returncode, p.stdout
pid = sys.argv[1]; ks = sys.argv[2:]
wt = "/tmp/seed_%s" % pid
head = sh("git -C /repo rev-parse --short HEAD")[1].strip()
sh("git checkout -q -- . && git clean -fdq -e OUT && git checkout -q --detach %s" % head, cwd=wt)
for k in ks:
    d = "/verif/seeded/%s-%s" % (pid, k)
    rc, out = sh("git apply %s/patch.diff" % d, cwd=wt)
    if rc != 0:
        print(pid, k, "patch does not apply at", head, out[-300:]); continue
    try:
        t = time.time()
        rc, out = sh("./check %s --tier quick" % pid, cwd="/verif", env=dict(os.environ, NX_REPO=wt))
        viol = [l for l in out.splitlines() if l.startswith("VIOLATION")]
        noin = [l for l in viol if "no-failing-input-found" in l]
        what = [l.strip() for l in out.splitlines() if l.startswith("  ")][:2]
        m = json.load(open(d + "/meta.json"))
        m["recheck"] = {"verif_commit": sh("git -C /verif rev-parse --short HEAD")[1].strip(), "repo_head": head, "exit": rc,
                        "violations": len(viol), "without_input": len(noin), "what": what, "wall_s": round(time.time() - t, 1)}
        m["caught_by_after_strengthening"] = [pid] if rc == 1 and len(viol) > len(noin) else ([pid + " (no input)"] if rc == 1 and viol else [])
        json.dump(m, open(d + "/meta.json", "w"), indent=1)
        print(pid, k, "exit", rc, "violations", len(viol), "no-input", len(noin), what[:1])
    finally:
        sh("git checkout -q -- . && git clean -fdq -e OUT", cwd=wt)
