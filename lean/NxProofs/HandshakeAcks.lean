import NxProofs.HandshakeClient
/-!
# C06 / C07 — which acknowledgements a client waits for during its handshake

`AckInv c`: every acknowledgement the client waits for is that of ITS SYN (key (SYN, 0, 0)) or of a CONNECT. Sending a SYN or a
CONNECT and handling SYN / CONNECT packets keep it; once a SYN/ACK has been accepted the SYN's entry is gone for good — so every
later SYN packet is inert (`late_syn_inert`) and the CONNECT is sent exactly once, whatever SYN and CONNECT packets the client is
handed, in whatever order and number (`client_any_handshake_packets`).
-/
namespace Nx.L1
open Nx Nx.Prudp Nx.Chan Nx.Crypto

def keyOK (k : AckKey) : Prop := k = (TYPE_SYN, 0, 0) ∨ k.1 = TYPE_CONNECT

def AckInv (c : Conn) : Prop := ∀ e ∈ c.ackEvents, keyOK e.1

theorem ackSet_mem (k : AckKey) (h : Nat) : ∀ (l : List (AckKey × Nat)) (e : AckKey × Nat), e ∈ ackSet k h l → e = (k, h) ∨ e ∈ l := by
  intro l
  induction l with
  | nil => intro e he; simp [ackSet] at he; exact Or.inl he
  | cons x r ih =>
    intro e he
    obtain ⟨k', h'⟩ := x
    unfold ackSet at he
    split at he
    · rcases List.mem_cons.mp he with h1 | h1
      · exact Or.inl h1
      · exact Or.inr (List.mem_cons_of_mem _ h1)
    · rcases List.mem_cons.mp he with h1 | h1
      · exact Or.inr (by rw [h1]; exact List.mem_cons_self)
      · rcases ih e h1 with h2 | h2
        · exact Or.inl h2
        · exact Or.inr (List.mem_cons_of_mem _ h2)

theorem arm_ack (c : Conn) (now : Time) (p : Packet) (k : Nat) (h : AckInv c) (hk : keyOK (ackKeyOf p)) : AckInv (c.arm now p k) := by
  unfold Conn.arm
  cases c.sched with
  | none => exact h
  | some s =>
    intro e he
    rcases ackSet_mem _ _ _ e he with h1 | h1
    · rw [h1]; exact hk
    · exact h e h1

theorem transmit_ack (env : Env) (now : Time) (c : Conn) (q : Packet) (h : AckInv c) (hk : keyOK (ackKeyOf q)) :
    AckInv (c.transmit env now q).c := by
  unfold Conn.transmit
  split
  · exact h
  · cases encodeChecked env.cfg q with
    | error e => exact h
    | ok data =>
      simp only []
      split
      · exact arm_ack c now q 0 h hk
      · exact h

/-- sending the SYN (not reliable, substream 0) or a CONNECT keeps the invariant -/
theorem sendPacket_ack (env : Env) (now : Time) (c : Conn) (p : Packet) (h : AckInv c)
    (hp : (p.type = TYPE_SYN ∧ p.substreamId = 0 ∧ hasReliable p.flags = false) ∨ p.type = TYPE_CONNECT)
    (hna : (hasAck p.flags || hasMultiAck p.flags) = false) : AckInv (c.sendPacket env now p).c := by
  have hnd : p.type ≠ TYPE_DATA := by rcases hp with ⟨h1, _⟩ | h1 <;> rw [h1] <;> decide
  have hnp : p.type ≠ TYPE_PING := by rcases hp with ⟨h1, _⟩ | h1 <;> rw [h1] <;> decide
  unfold Conn.sendPacket
  simp only [hna, Conn.assignIf, Bool.false_eq_true, if_false, Conn.assign]
  by_cases hr : hasReliable p.flags = true
  · have hcon : p.type = TYPE_CONNECT := by
      rcases hp with ⟨_, _, h3⟩ | h1
      · rw [hr] at h3; cases h3
      · exact h1
    simp only [hr, if_true]
    cases hk : c.counters[p.substreamId]? with
    | none => exact h
    | some k =>
      simp only [hcon, ne_eq, show ¬ TYPE_CONNECT = TYPE_SYN by decide, not_false_eq_true, if_true, Conn.encodeIf,
        show TYPE_CONNECT ≠ TYPE_DATA by decide, false_and, if_false]
      exact transmit_ack env now _ _ (by exact h) (Or.inr rfl)
  · simp only [hr, Bool.false_eq_true, if_false, hnd, hnp]
    by_cases hsyn : p.type = TYPE_SYN
    · have hsub : p.substreamId = 0 := by
        rcases hp with ⟨_, h2, _⟩ | h1
        · exact h2
        · rw [hsyn] at h1; exact absurd h1 (by decide)
      simp only [hsyn, ne_eq, not_true_eq_false, if_false, Conn.encodeIf, show TYPE_SYN ≠ TYPE_DATA by decide, false_and]
      refine transmit_ack env now c _ h (Or.inl ?_)
      show (TYPE_SYN, p.substreamId, 0) = (TYPE_SYN, 0, 0)
      rw [hsub]
    · have hcon : p.type = TYPE_CONNECT := by
        rcases hp with ⟨h1, _⟩ | h1
        · exact absurd h1 hsyn
        · exact h1
      simp only [hcon, ne_eq, show ¬ TYPE_CONNECT = TYPE_SYN by decide, not_false_eq_true, if_true, Conn.encodeIf,
        show TYPE_CONNECT ≠ TYPE_DATA by decide, false_and, if_false]
      exact transmit_ack env now c _ h (Or.inr rfl)

theorem ackErase_sub (k : AckKey) (l : List (AckKey × Nat)) : ∀ e ∈ ackErase k l, e ∈ l ∧ e.1 ≠ k := by
  intro e he
  unfold ackErase at he
  have := List.mem_filter.mp he
  exact ⟨this.1, by simpa using this.2⟩

theorem ackRemoval_ack (c : Conn) (key : AckKey) (hd : Nat) (h : AckInv c) :
    AckInv ({ c with ackEvents := ackErase key c.ackEvents, sched := c.sched.map (·.remove hd) } : Conn) :=
  fun e he => h e (ackErase_sub key c.ackEvents e he).1

theorem ackLookup_of_mem : ∀ (l : List (AckKey × Nat)) (e : AckKey × Nat), e ∈ l → ackLookup e.1 l ≠ none := by
  intro l
  induction l with
  | nil => intro e he; cases he
  | cons x r ih =>
    intro e he
    obtain ⟨k', h'⟩ := x
    unfold ackLookup
    by_cases hk : k' = e.1
    · rw [if_pos hk]; exact fun h => by cases h
    · rw [if_neg hk]
      rcases List.mem_cons.mp he with h1 | h1
      · rw [h1] at hk; exact absurd rfl hk
      · exact ih e h1

/-- **the client handles a SYN packet while CONNECTING**: the invariant is kept, and if the step raised nothing and the client is
    CONNECTED afterwards, no SYN is waiting for its acknowledgement any more -/
theorem handle_syn_ack (env : Env) (now : Time) (c : Conn) (p : Packet) (h : AckInv c) (hp : p.type = TYPE_SYN)
    (hst : c.state = STATE_CONNECTING) :
    AckInv (c.handle env now p).c ∧
    ((c.handle env now p).err = none → (c.handle env now p).c.state = STATE_CONNECTED →
      ∀ e ∈ (c.handle env now p).c.ackEvents, e.1.1 ≠ TYPE_SYN) := by
  have hnd : c.state ≠ STATE_DISCONNECTED := by rw [hst]; decide
  unfold Conn.handle
  rw [if_neg hnd, if_neg (by intro hh; exact hh.2 hp)]
  simp only [hp, if_true]
  -- process_syn: the invariant, and either CONNECTING still or all gates passed
  have hps : AckInv (c.processSyn env now p).c ∧
      ((c.processSyn env now p).c.state = STATE_CONNECTING ∨ (p.packetId = 0 ∧ p.substreamId = 0 ∧ hasAck p.flags = true)) := by
    unfold Conn.processSyn
    split
    · exact ⟨h, Or.inl hst⟩
    · split
      · exact ⟨h, Or.inl hst⟩
      · rename_i hack
        split
        · exact ⟨h, Or.inl hst⟩
        · rename_i hg
          have hz : p.packetId = 0 ∧ p.substreamId = 0 ∧ hasAck p.flags = true := by
            refine ⟨?_, ?_, ?_⟩
            · exact Classical.byContradiction (fun hh => hg (Or.inr (Or.inl hh)))
            · exact Classical.byContradiction (fun hh => hg (Or.inr (Or.inr (Or.inr hh))))
            · cases hh : hasAck p.flags with
              | true => rfl
              | false => rw [hh] at hack; exact absurd rfl hack
          split
          · exact ⟨h, Or.inl hst⟩
          · split
            · simp only []
              unfold Conn.sendConnect
              refine ⟨sendPacket_ack env now _ _ (by exact h) (Or.inr rfl)
                (by show (hasAck (FLAG_RELIABLE + FLAG_NEED_ACK + FLAG_HAS_SIZE) || hasMultiAck (FLAG_RELIABLE + FLAG_NEED_ACK + FLAG_HAS_SIZE)) = false; decide), Or.inr hz⟩
            · exact ⟨h, Or.inl hst⟩
  unfold R.bind
  cases he : (c.processSyn env now p).err with
  | some e => simp only []; exact ⟨hps.1, fun herr => by rw [he] at herr; cases herr⟩
  | none =>
    simp only []
    split
    · split
      · rename_i hd hlk
        simp only [show ¬ TYPE_SYN = TYPE_DISCONNECT by decide, if_false, R.ok]
        refine ⟨ackRemoval_ack _ _ hd hps.1, fun _ hcon e he' => ?_⟩
        obtain ⟨hmem, hne⟩ := ackErase_sub _ _ e he'
        rcases hps.2 with hcg | hz
        · have : (c.processSyn env now p).c.state = STATE_CONNECTED := hcon
          rw [hcg] at this; exact absurd this (by decide)
        · intro hsyn
          rcases hps.1 e hmem with hk | hk
          · apply hne
            rw [hk]
            show (TYPE_SYN, 0, 0) = (p.type, p.substreamId, p.packetId)
            rw [hp, hz.1, hz.2.1]
          · rw [hsyn] at hk; exact absurd hk (by decide)
      · rename_i hlk
        -- no acknowledgement was pending for this packet: then process_syn did not accept it either
        refine ⟨hps.1, fun _ hcon e he' hsyn => ?_⟩
        have hcon' : (c.processSyn env now p).c.state = STATE_CONNECTED := hcon
        rcases hps.2 with hcg | hz
        · rw [hcg] at hcon'; exact absurd hcon' (by decide)
        · rcases hps.1 e he' with hk | hk
          · have hkey : ackKeyOf p = e.1 := by
              rw [hk]; show (p.type, p.substreamId, p.packetId) = (TYPE_SYN, 0, 0); rw [hp, hz.1, hz.2.1]
            have : ackLookup (ackKeyOf p) (c.processSyn env now p).c.ackEvents ≠ none := by
              rw [hkey]
              exact ackLookup_of_mem _ _ he'
            exact this hlk
          · rw [hsyn] at hk; exact absurd hk (by decide)
    · -- the packet is not an acknowledgement: process_syn refused it
      rename_i hna
      refine ⟨hps.1, fun _ hcon e he' hsyn => ?_⟩
      have hcon' : (c.processSyn env now p).c.state = STATE_CONNECTED := hcon
      rcases hps.2 with hcg | hz
      · rw [hcg] at hcon'; exact absurd hcon' (by decide)
      · exact absurd hz.2.2 hna

/-- handling a CONNECT packet only ever removes entries -/
theorem handle_connect_acks_sub (env : Env) (now : Time) (c : Conn) (p : Packet) (hp : p.type = TYPE_CONNECT) :
    ∀ e ∈ (c.handle env now p).c.ackEvents, e ∈ c.ackEvents := by
  unfold Conn.handle
  split
  · exact fun e he => he
  · split
    · exact fun e he => he
    · simp only [hp, show (TYPE_CONNECT = TYPE_SYN) = False by decide, if_false, if_true]
      have hpc : (c.processConnect env p).c.ackEvents = c.ackEvents := by
        unfold Conn.processConnect
        split
        · rfl
        · split
          · rfl
          · split
            · rfl
            · split
              · rfl
              · split
                · split
                  · rfl
                  · rfl
                · rfl
      unfold R.bind
      cases he : (c.processConnect env p).err with
      | some e => simp only []; rw [hpc]; exact fun e he => he
      | none =>
        simp only []
        split
        · split
          · rename_i hd hlk
            simp only [show ¬ TYPE_CONNECT = TYPE_DISCONNECT by decide, if_false, R.ok]
            intro e he'
            have := (ackErase_sub _ _ e he').1
            rw [hpc] at this; exact this
          · intro e he'; have he'' : e ∈ (c.processConnect env p).c.ackEvents := he'; rw [hpc] at he''; exact he''
        · intro e he'; have he'' : e ∈ (c.processConnect env p).c.ackEvents := he'; rw [hpc] at he''; exact he''

/-- a packet of the handshake, as the client's `handle` is handed them -/
structure HsPkt where
  now : Time
  p : Packet
  ok : p.type = TYPE_SYN ∨ p.type = TYPE_CONNECT

/-- the client is handed a sequence of SYN / CONNECT packets; `none` if the step that made it CONNECTED raised (the CONNECT could
    not be sent: a field out of range for the encoding) -/
def clientRun (env : Env) : Conn → List HsPkt → Option Conn
  | c, [] => some c
  | c, x :: xs =>
    let r := c.handle env x.now x.p
    if c.state = STATE_CONNECTING ∧ r.c.state = STATE_CONNECTED ∧ r.err ≠ none then none
    else clientRun env r.c xs

/-- the invariant of the client between `handshake()` and its return -/
structure HsInv (c : Conn) (n : Nat) (ks : List Bytes) (on : Bool) : Prop where
  fresh : HsFresh c n ks on
  acks : AckInv c
  phase : (c.state = STATE_CONNECTING ∧ c.counters = List.replicate n 1) ∨
          (c.state = STATE_CONNECTED ∧ c.counters = setAt (List.replicate n 1) 0 2 ∧ ∀ e ∈ c.ackEvents, e.1.1 ≠ TYPE_SYN)

theorem hsInv_step (env : Env) (n : Nat) (hn : 0 < n) {ks : List Bytes} {on : Bool} (c : Conn) (x : HsPkt) (h : HsInv c n ks on)
    (hgo : ¬ (c.state = STATE_CONNECTING ∧ (c.handle env x.now x.p).c.state = STATE_CONNECTED ∧ (c.handle env x.now x.p).err ≠ none)) :
    HsInv (c.handle env x.now x.p).c n ks on := by
  rcases x.ok with hsyn | hcon
  · -- a SYN packet
    rcases h.phase with ⟨hst, hc⟩ | ⟨hst, hc, hno⟩
    · obtain ⟨f2, e2⟩ := handle_syn_hs env x.now c n x.p h.fresh hsyn hst
      obtain ⟨a2, n2⟩ := handle_syn_ack env x.now c x.p h.acks hsyn hst
      refine ⟨f2, a2, ?_⟩
      rcases e2 with ⟨s2, k2⟩ | ⟨s2, k2⟩
      · exact Or.inl ⟨s2, k2.trans hc⟩
      · have herr : (c.handle env x.now x.p).err = none := by
          cases he : (c.handle env x.now x.p).err with
          | none => rfl
          | some e => exact absurd ⟨hst, s2, by rw [he]; exact fun hh => by cases hh⟩ hgo
        refine Or.inr ⟨s2, ?_, n2 herr s2⟩
        have := k2 1 (by rw [hc]; exact replicate_get _ _ _ hn)
        rw [this, hc]; rfl
    · have := late_syn_inert env x.now c x.p hsyn hst hno
      rw [this]; exact h
  · -- a CONNECT packet
    obtain ⟨f2, s2, k2⟩ := handle_connect_hs env x.now c n x.p h.fresh hcon
    have hsub := handle_connect_acks_sub env x.now c x.p hcon
    refine ⟨f2, fun e he => h.acks e (hsub e he), ?_⟩
    rcases h.phase with ⟨hst, hc⟩ | ⟨hst, hc, hno⟩
    · exact Or.inl ⟨s2.trans hst, k2.trans hc⟩
    · exact Or.inr ⟨s2.trans hst, k2.trans hc, fun e he => hno e (hsub e he)⟩

theorem hsInv_run (env : Env) (n : Nat) (hn : 0 < n) {ks : List Bytes} {on : Bool} : ∀ (xs : List HsPkt) (c c' : Conn),
    HsInv c n ks on → clientRun env c xs = some c' → HsInv c' n ks on := by
  intro xs
  induction xs with
  | nil => intro c c' h hr; cases hr; exact h
  | cons x xs ih =>
    intro c c' h hr
    unfold clientRun at hr
    simp only [] at hr
    split at hr
    · cases hr
    · rename_i hgo
      exact ih _ _ (hsInv_step env n hn c x h hgo) hr

theorem clientReady_of_fresh {c : Conn} {n : Nat} {ks : List Bytes} {on : Bool} (f : HsFresh c n ks on)
    (hk : c.counters = setAt (List.replicate n 1) 0 2) (sub : Nat) (hn : sub < n) : ClientReady c sub := by
  obtain ⟨hkl, hrk⟩ := f.keys
  have hsl : sub < ks.length := by omega
  refine ⟨?_, ?_, ?_, ?_, ⟨f.eof, f.link⟩, ?_, ?_, ?_⟩
  · rw [hk]
    by_cases h0 : sub = 0
    · subst h0
      simp only [setAt, if_true]
      rw [List.getElem?_set_self (by simpa using hn)]
    · simp only [setAt, h0, if_false]
      rw [List.getElem?_set_ne (by omega)]
      exact replicate_get _ _ _ hn
  · rw [f.win]; exact replicate_get _ _ _ hn
  · rw [f.q]; exact replicate_get _ _ _ hn
  · rw [f.fb]; exact replicate_get _ _ _ hn
  · rw [hrk, List.getElem?_map, List.getElem?_eq_getElem hsl]; rfl
  · rw [hrk, List.getElem?_map, List.getElem?_eq_getElem hsl]; rfl
  · intro p hp
    rcases f.only p hp with h1 | h1 <;> simp [relevant, h1]

/-- the invariant holds when `handshake()` has sent the SYN -/
theorem hsInv_start (env : Env) (version : Option Nat) (u chk sid : Nat) (la : Addr) (lp lt : Nat) (ra : Addr) (rp rt : Nat)
    (t0 : Time) (creds : Option Creds) :
    HsInv ((Conn.new env version u chk sid la lp lt ra rp rt).handshake env t0 creds).c (env.s.maxSubstreamId + 1)
      (clientKeys env creds) (env.s.transport == TRANSPORT_UDP) := by
  obtain ⟨f1, s1, k1⟩ := handshake_start_hs env version u chk sid la lp lt ra rp rt t0 creds
  refine ⟨f1, ?_, Or.inl ⟨s1, k1⟩⟩
  unfold Conn.handshake
  simp only []
  unfold Conn.sendSyn
  apply sendPacket_ack
  · intro e he
    cases creds <;> simp [Conn.login, Conn.new] at he
  · exact Or.inl ⟨rfl, rfl, by show hasReliable FLAG_NEED_ACK = false; decide⟩
  · show (hasAck FLAG_NEED_ACK || hasMultiAck FLAG_NEED_ACK) = false; decide

/-- **the client's half, for ANY handshake packets**: after `handshake()` the client is handed any sequence of SYN and CONNECT packets
    — genuine, duplicated, reordered, late, crafted with any parameters and signatures, in any number — and then `handshake()`
    resumes. Unless sending the CONNECT itself raised, a client that ends up CONNECTED is `ClientReady` on every substream the
    settings allow, with the keys and the cipher setting it started with: the CONNECT went out exactly once, nothing of the
    receiver role or the ciphers was touched. -/
theorem client_half_any_packets (env : Env) (version : Option Nat) (u chk sid : Nat) (la : Addr) (lp lt : Nat) (ra : Addr) (rp rt : Nat)
    (t0 t3 : Time) (creds : Option Creds) (xs : List HsPkt) (c' : Conn)
    (hr : clientRun env ((Conn.new env version u chk sid la lp lt ra rp rt).handshake env t0 creds).c xs = some c')
    (sub : Nat) (hsub : sub ≤ env.s.maxSubstreamId) (hconn : (c'.resumeHandshake t3).c.state = STATE_CONNECTED) :
    ClientReady (c'.resumeHandshake t3).c sub ∧
    (c'.resumeHandshake t3).c.relCiphers = (clientKeys env creds).map (fun k => { key := k }) ∧
    (c'.resumeHandshake t3).c.cipherOn = (env.s.transport == TRANSPORT_UDP) := by
  have h0 := hsInv_start env version u chk sid la lp lt ra rp rt t0 creds
  have h1 := hsInv_run env _ (by omega) xs _ c' h0 hr
  obtain ⟨f4, s4, k4⟩ := resume_hs t3 c' _ h1.fresh
  have hst : c'.state = STATE_CONNECTED := by rw [← s4]; exact hconn
  rcases h1.phase with ⟨hc, _⟩ | ⟨_, hk, _⟩
  · rw [hst] at hc; exact absurd hc (by decide)
  · exact ⟨clientReady_of_fresh f4 (k4.trans hk) sub (by omega), f4.keys.2, f4.con⟩

end Nx.L1
