import NxModel.Prudp.PacketIO
import NxModel.DriverUtil
/-! line-protocol driver for the PRUDP L0 codecs (packet syntax: see NxModel/Prudp/PacketIO.lean)

  v0enc  sv cv fv key <packet>          -> ok <hex> | err <Name>          (checked encoder)
  v0enct sv cv fv key <packet>          -> ok <hex>                       (total encoder)
  v0dec  sv cv fv key <hex>             -> ok [<packet> | <packet> …] | err <Name>
  v0wf   sv cv fv key <packet>          -> true | false
  v0ck   cv key <hex>                   -> <nat>
  v1enc / v1enct / v1wf <packet>, v1dec <hex>, v1hdr <optsize> <packet>, v1opts <packet>
  liteenc / liteenct / litewf <packet>, litehdr <optsize> <packet>, liteopts <packet>
  litefeed <bufhex> <chunkhex>          -> ok [<packets>] buf <hex> | err <Name> buf <hex>
  optenc <k=v,…>                        -> ok <hex> | err <Name>
  optdec <hex>                          -> ok [k=v,…] | err <Name>
  sel <transport> <version> <pver|none> -> v0 | v1 | lite
  ana <transport> <version> <hex>       -> v0 | v1 | lite
  selenc <transport> <version> sv cv fv key <packet>
  seldec <transport> <version> sv cv fv key <bufhex> <hex>  -> like litefeed
-/
open Nx Nx.Prudp

def showCodec : Codec → String
  | .v0 => "v0"
  | .v1 => "v1"
  | .lite => "lite"

def showFeed (r : Except Err (List Packet) × Bytes) : String :=
  showDec r.1 ++ " buf " ++ hexOut r.2

def showBool (b : Bool) : String := if b then "true" else "false"

def step (line : String) : String :=
  match line.splitOn " " with
  | "v0enc" :: sv :: cv :: fv :: key :: pk =>
    match parseV0Cfg sv cv fv key, parsePacket pk with
    | some c, some p => showRes (v0EncodeChecked c p)
    | _, _ => "bad-op"
  | "v0enct" :: sv :: cv :: fv :: key :: pk =>
    match parseV0Cfg sv cv fv key, parsePacket pk with
    | some c, some p => "ok " ++ hexOut (v0Encode c p)
    | _, _ => "bad-op"
  | "v0wf" :: sv :: cv :: fv :: key :: pk =>
    match parseV0Cfg sv cv fv key, parsePacket pk with
    | some c, some p => showBool (decide (V0WF c p))
    | _, _ => "bad-op"
  | ["v0dec", sv, cv, fv, key, data] =>
    match parseV0Cfg sv cv fv key, fromHex data with
    | some c, some d => showDec (v0Decode c d)
    | _, _ => "bad-op"
  | ["v0ck", cv, key, data] =>
    match parseV0Cfg "0" cv "0" key, fromHex data with
    | some c, some d => toString (v0Checksum c d)
    | _, _ => "bad-op"
  | "v1enc" :: pk =>
    match parsePacket pk with
    | some p => showRes (v1EncodeChecked p)
    | none => "bad-op"
  | "v1enct" :: pk =>
    match parsePacket pk with
    | some p => "ok " ++ hexOut (v1Encode p)
    | none => "bad-op"
  | "v1wf" :: pk =>
    match parsePacket pk with
    | some p => showBool (decide (V1WF p))
    | none => "bad-op"
  | "v1hdr" :: os :: pk =>
    match os.toNat?, parsePacket pk with
    | some os, some p => "ok " ++ hexOut (v1EncodeHeader p os)
    | _, _ => "bad-op"
  | "v1opts" :: pk =>
    match parsePacket pk with
    | some p => showRes (encodeOptionsChecked (v1Options p))
    | none => "bad-op"
  | ["v1dec", data] =>
    match fromHex data with
    | some d => showDec (v1Decode d)
    | none => "bad-op"
  | "liteenc" :: pk =>
    match parsePacket pk with
    | some p => showRes (liteEncodeChecked p)
    | none => "bad-op"
  | "liteenct" :: pk =>
    match parsePacket pk with
    | some p => "ok " ++ hexOut (liteEncode p)
    | none => "bad-op"
  | "litewf" :: pk =>
    match parsePacket pk with
    | some p => showBool (decide (LiteWF p))
    | none => "bad-op"
  | "litehdr" :: os :: pk =>
    match os.toNat?, parsePacket pk with
    | some os, some p => "ok " ++ hexOut (liteEncodeHeader p os)
    | _, _ => "bad-op"
  | "liteopts" :: pk =>
    match parsePacket pk with
    | some p => showRes (encodeOptionsChecked (liteOptions p))
    | none => "bad-op"
  | ["litefeed", buf, chunk] =>
    match fromHex buf, fromHex chunk with
    | some b, some c => showFeed (liteFeed b c)
    | _, _ => "bad-op"
  | ["optenc", o] =>
    match parseOpts o with
    | some o => showRes (encodeOptionsChecked o)
    | none => "bad-op"
  | ["optdec", data] =>
    match fromHex data with
    | some d =>
      match decodeOptions d with
      | .ok o => showOpts o
      | .error e => "err " ++ e.name
    | none => "bad-op"
  | ["sel", t, v, pv] =>
    match t.toNat?, v.toNat?, parseOptNat pv with
    | some t, some v, some pv => showCodec (select { transport := t, version := v } pv)
    | _, _, _ => "bad-op"
  | ["ana", t, v, data] =>
    match t.toNat?, v.toNat?, fromHex data with
    | some t, some v, some d => showCodec (analyze { transport := t, version := v } d)
    | _, _, _ => "bad-op"
  | "selenc" :: t :: v :: sv :: cv :: fv :: key :: pk =>
    match t.toNat?, v.toNat?, parseV0Cfg sv cv fv key, parsePacket pk with
    | some t, some v, some c, some p =>
      showRes (encodeChecked { v0 := c, sel := { transport := t, version := v } } p)
    | _, _, _, _ => "bad-op"
  | ["seldec", t, v, sv, cv, fv, key, buf, data] =>
    match t.toNat?, v.toNat?, parseV0Cfg sv cv fv key, fromHex buf, fromHex data with
    | some t, some v, some c, some b, some d =>
      showFeed (decode { v0 := c, sel := { transport := t, version := v } } b d)
    | _, _, _, _, _ => "bad-op"
  | _ => "bad-op"

def main : IO Unit := runLines step
