/-!
# Bytes, little/big-endian integers, stream readers

Mirrors `anynet.streams.StreamIn/StreamOut` as used by NintendoClients:
a reader either returns the value and the rest of the buffer or fails with
`Err.overflow` (Python: `OverflowError("Buffer overflow")`).

No Mathlib imports (this file is linked into the compiled drivers).
-/
namespace Nx

abbrev Bytes := List UInt8

/-- Python exception classes as far as the correspondence distinguishes them. -/
inductive Err where
  | overflow      -- OverflowError (anynet stream read past the end)
  | value         -- ValueError
  | key           -- KeyError
  | type          -- TypeError
  | struct        -- struct.error (value out of range for a pack format)
  | unicode       -- UnicodeDecodeError
  | index         -- IndexError
  | closed        -- anyio.ClosedResourceError / RuntimeError("... closed")
  | other
  deriving DecidableEq, Repr, Inhabited

def Err.name : Err → String
  | .overflow => "OverflowError"
  | .value => "ValueError"
  | .key => "KeyError"
  | .type => "TypeError"
  | .struct => "StructError"
  | .unicode => "UnicodeError"
  | .index => "IndexError"
  | .closed => "Closed"
  | .other => "Other"

deriving instance DecidableEq for Except

/-- `stream.read(n)`. -/
def rd (n : Nat) (b : Bytes) : Except Err (Bytes × Bytes) :=
  if n ≤ b.length then .ok (b.take n, b.drop n) else .error .overflow

def b8 (n : Nat) : UInt8 := UInt8.ofNat n

def u8 (n : Nat) : Bytes := [b8 n]
def u16le (n : Nat) : Bytes := [b8 n, b8 (n / 256)]
def u16be (n : Nat) : Bytes := [b8 (n / 256), b8 n]
def u32le (n : Nat) : Bytes := [b8 n, b8 (n / 256), b8 (n / 65536), b8 (n / 16777216)]
def u32be (n : Nat) : Bytes := [b8 (n / 16777216), b8 (n / 65536), b8 (n / 256), b8 n]
def u64le (n : Nat) : Bytes := u32le n ++ u32le (n / 4294967296)

def n8 (b : Bytes) : Nat := match b with | [a] => a.toNat | _ => 0
def n16le (b : Bytes) : Nat := match b with | [a, c] => a.toNat + 256 * c.toNat | _ => 0
def n16be (b : Bytes) : Nat := match b with | [a, c] => 256 * a.toNat + c.toNat | _ => 0
def n32le (b : Bytes) : Nat :=
  match b with
  | [a, c, d, e] => a.toNat + 256 * c.toNat + 65536 * d.toNat + 16777216 * e.toNat
  | _ => 0
def n32be (b : Bytes) : Nat :=
  match b with
  | [a, c, d, e] => 16777216 * a.toNat + 65536 * c.toNat + 256 * d.toNat + e.toNat
  | _ => 0
def n64le (b : Bytes) : Nat := n32le (b.take 4) + 4294967296 * n32le (b.drop 4)

def rdU8 (b : Bytes) : Except Err (Nat × Bytes) :=
  match b with
  | a :: r => .ok (a.toNat, r)
  | [] => .error .overflow

def rdU16 (b : Bytes) : Except Err (Nat × Bytes) :=
  match b with
  | a :: c :: r => .ok (a.toNat + 256 * c.toNat, r)
  | _ => .error .overflow

def rdU32 (b : Bytes) : Except Err (Nat × Bytes) :=
  match b with
  | a :: c :: d :: e :: r =>
      .ok (a.toNat + 256 * c.toNat + 65536 * d.toNat + 16777216 * e.toNat, r)
  | _ => .error .overflow

def rdU64 (b : Bytes) : Except Err (Nat × Bytes) :=
  match rdU32 b with
  | .error e => .error e
  | .ok (lo, r) =>
    match rdU32 r with
    | .error e => .error e
    | .ok (hi, r') => .ok (lo + 4294967296 * hi, r')

/-! ## hex (driver I/O only) -/

def hexDigit (n : Nat) : Char :=
  if n < 10 then Char.ofNat (48 + n) else Char.ofNat (87 + n)

def toHex (b : Bytes) : String :=
  String.ofList (b.flatMap fun x => [hexDigit (x.toNat / 16), hexDigit (x.toNat % 16)])

def hexVal (c : Char) : Option Nat :=
  if '0' ≤ c ∧ c ≤ '9' then some (c.toNat - 48)
  else if 'a' ≤ c ∧ c ≤ 'f' then some (c.toNat - 87)
  else if 'A' ≤ c ∧ c ≤ 'F' then some (c.toNat - 55)
  else none

def fromHexAux : List Char → Bytes → Option Bytes
  | [], acc => some acc.reverse
  | [_], _ => none
  | a :: c :: r, acc =>
    match hexVal a, hexVal c with
    | some x, some y => fromHexAux r (b8 (16 * x + y) :: acc)
    | _, _ => none

/-- `-` denotes the empty byte string on the wire protocol of the drivers. -/
def fromHex (s : String) : Option Bytes :=
  if s = "-" then some [] else fromHexAux s.toList []

def hexOut (b : Bytes) : String := if b.isEmpty then "-" else toHex b

end Nx
