"""C12 — checked-in protocol stubs and docs are exactly the generator's output.

 (a) the repository's generator is re-run in a scratch copy (generate_protocols.py + nintendo/files/proto, empty
     output directories, outside /repo and /verif) and every produced module/page is byte-compared with the
     working tree — exhaustive over the finite set of programs; the set of files THIS run wrote is checked from the
     definitions' side (every definition: its module and its page were written, nothing else was; kernel-checked
     bijection on the written names), the exit status is not trusted;
 (a") the same run "in place": a copy of both output directories in which every expected output holds a sentinel —
     afterwards the directories must equal the working tree file for file (no stale output survives a regeneration,
     no hand-written file is touched);
 (a"') exit status is faithful: with one definition damaged (cut short, illegal character, unknown parent / import /
     type, undecodable bytes) a run that reports success must still have written both outputs of every definition;
 (b) inventory bijection, kernel-checked on Nat-coded name lists collected from the working tree: every
     definition has its module and page, every *generated* module (generator's header comment) and every
     *generated* page ("generated automatically from" sentence) has its definition — the generator never
     deletes, so (a) cannot see an orphan;
 (c) S_py = S_proto: tables recovered by `ast` from the checked-in modules (classes, parents, DataHolder
     registrations, __init__ defaults, load/save bodies with gates, protocol ids, method ids, NORESPONSE,
     client request/response layouts) equal those of the definitions — kernel-checked equalities.
"""
import concurrent.futures, os, re, shutil, subprocess
import vf
from schema_proto2lean import my_ast, cross_check, code, uncode
import schema_py2tables as PT

LEVEL = "translation_validation"
PAGE_SENTENCE = re.compile(r"This page was generated automatically from `([^`]*)\.proto`")


def first_diff(a, b):
    la, lb = a.split(b"\n"), b.split(b"\n")
    for i, (x, y) in enumerate(zip(la, lb)):
        if x != y:
            return i + 1, x[:200].decode("utf8", "replace"), y[:200].decode("utf8", "replace")
    return min(len(la), len(lb)) + 1, "<end of file>" if len(la) <= len(lb) else la[len(lb)][:200].decode("utf8", "replace"), \
        "<end of file>" if len(lb) <= len(la) else lb[len(la)][:200].decode("utf8", "replace")


SENTINEL = b"@@ C12 sentinel: stale content that a regeneration must overwrite @@\n"
NOISE = re.compile(r"^(Parsing|Importing) \S+\.proto$")
COMPLAINT = re.compile(r"(?i)error|exception|traceback|fail|skip|warn|invalid|unexpected|unknown|cannot|could not")
FAULTS = ("cut", "char", "parent", "import", "type", "bytes", "brace")


def scratch_tree(repo, g, protodir):
    os.makedirs(os.path.join(g, "nintendo/files")); os.makedirs(os.path.join(g, "nintendo/nex")); os.makedirs(os.path.join(g, "docs/reference/nex"))
    shutil.copy(os.path.join(repo, "generate_protocols.py"), g)
    shutil.copytree(protodir, os.path.join(g, "nintendo/files/proto"))


def run_generator(g, script="generate_protocols.py", *args):
    try:
        return subprocess.run([vf.PY, "-W", "ignore", script] + list(args), cwd=g, stdout=subprocess.PIPE, stderr=subprocess.STDOUT, text=True, errors="replace", timeout=600)
    except subprocess.TimeoutExpired as e:
        out = e.stdout if isinstance(e.stdout, str) else (e.stdout or b"").decode("utf8", "replace")
        return subprocess.CompletedProcess(e.cmd, -9, stdout=out[-2000:] + "\n(the generator did not end within 600 s)")


def log_about(log, name):
    """lines of the generator's log that are not its ordinary progress lines: those naming the definition, then those that read like a complaint"""
    odd = [l.strip() for l in log.splitlines() if l.strip() and not NOISE.match(l.strip())]
    return [l for l in odd if name in l] + [l for l in odd if name not in l and COMPLAINT.search(l)]


def damage(rng, text, kind):
    """one realistic mistake in a definition file; returns (bytes, description) or None if the file offers no site"""
    if kind == "cut":          # file cut short (interrupted write)
        at = rng.randrange(len(text) // 5, max(len(text) * 4 // 5, len(text) // 5 + 1))
        return text[:at].encode(), "cut short after %d of %d characters" % (at, len(text))
    if kind == "char":         # a character the tokenizer does not know
        sites = [m.start() for m in re.finditer(r"[;{(]", text)]
        if not sites: return None
        at = rng.choice(sites); ch = rng.choice("$`@~?")
        return (text[:at] + ch + text[at:]).encode(), "character %r inserted at offset %d" % (ch, at)
    if kind == "brace":        # a closing brace too many / too few
        sites = [m.start() for m in re.finditer(r"\}", text)]
        if not sites: return None
        at = rng.choice(sites)
        if rng.random() < 0.5:
            return (text[:at] + text[at + 1:]).encode(), "closing brace at offset %d removed" % at
        return (text[:at] + "}" + text[at:]).encode(), "closing brace at offset %d doubled" % at
    if kind == "parent":       # protocol inherits from a protocol nobody defines
        ms = list(re.finditer(r"(?m)^(\s*protocol\s+\w+\s*:\s*)([A-Za-z_]\w*)", text))
        if not ms: return None
        m = rng.choice(ms)
        return (text[:m.start(2)] + "NoSuchProtocol" + text[m.end(2):]).encode(), "protocol at offset %d now inherits from NoSuchProtocol (was %s)" % (m.start(), m.group(2))
    if kind == "import":       # import of a definition file that does not exist
        return ("import no_such_definition;\n" + text).encode(), "'import no_such_definition;' prepended"
    if kind == "type":         # a field of a type nobody defines
        ms = list(re.finditer(r"(?m)^(\s+)(\w+)(\s+\w+\s*(?:=[^;\n]*)?;)", text))
        if not ms: return None
        m = rng.choice(ms)
        return (text[:m.start(2)] + "NoSuchType" + text[m.end(2):]).encode(), "field at offset %d now has type NoSuchType (was %s)" % (m.start(2), m.group(2))
    if kind == "bytes":        # bytes that are not UTF-8
        at = rng.randrange(len(text) + 1)
        return text[:at].encode() + b"\xff\xfe" + text[at:].encode(), "bytes ff fe inserted at character offset %d" % at
    raise ValueError(kind)


def run(ctx):
    repo = vf.REPO
    protodir = os.path.join(repo, "nintendo/files/proto")
    moddir = os.path.join(repo, "nintendo/nex")
    pagedir = os.path.join(repo, "docs/reference/nex")
    protos = sorted(f[:-6] for f in os.listdir(protodir) if f.endswith(".proto"))
    stray = sorted(f for f in os.listdir(protodir) if not f.endswith(".proto"))
    ctx.rule = ("programs = the generated module and the generated page of every definition file (2 per .proto): the repository's generator is re-run "
                "in a scratch copy and each output is byte-compared with the working tree (exhaustive), and re-run with the directory of definitions listed in sorted, reversed and shuffled order (same bytes required); the files that one run wrote into empty output directories are checked from the definitions' side (each definition: module and page written by this run, nothing else written; exit status not trusted), "
                "the generator is run in place over sentinels (no stale output may survive, no other file may change) and with one damaged definition per run (exit status 0 must mean that every definition got both outputs); plus kernel-checked obligations: inventory bijection "
                "(definitions <-> generated modules <-> generated pages) and S_py = S_proto (tables recovered by ast from each checked-in module). "
                "distinct non-trivial = files compared byte for byte that are non-empty")
    # ---------------- (a) re-generation
    gen = os.path.join(ctx.scratch, "regen")
    scratch_tree(repo, gen, protodir)
    p = run_generator(gen)
    produced_m = sorted(os.listdir(os.path.join(gen, "nintendo/nex")))
    produced_d = sorted(os.listdir(os.path.join(gen, "docs/reference/nex")))
    if p.returncode != 0:
        ctx.violation("regen:generator-fails", "generate_protocols.py fails on the working tree's definitions: %s" % p.stdout[-400:].strip(),
                      {"output": p.stdout[-3000:], "how": "copy generate_protocols.py and nintendo/files/proto to an empty directory with nintendo/nex and docs/reference/nex, run it"})
    # ---------------- (a0) the set of files this run wrote, from the definitions' side: the output directories were empty, so
    # whatever is there now was written by this run. Every definition must have its module and its page among them and nothing
    # else may be there; the exit status and the log are reported, not trusted.
    HOW0 = ("copy generate_protocols.py and nintendo/files/proto to an empty directory with EMPTY nintendo/nex and docs/reference/nex, run it, "
            "then list what it wrote (in place the checked-in files would stand in for what the generator no longer writes)")
    written = {"nintendo/nex": (".py", produced_m), "docs/reference/nex": (".md", produced_d)}
    for sub, (ext, files) in written.items():
        for n in protos:
            rel = "%s/%s%s" % (sub, n, ext)
            okw = n + ext in files
            ctx.case(key="written:" + rel, nontrivial=True, tag="written:" + ("yes" if okw else "NO"))
            if not okw and p.returncode == 0:
                about = log_about(p.stdout, n)
                ctx.violation("regen:unwritten:" + rel, "the generator (exit status 0) run on the working tree's definitions writes no %s for definition %s.proto: the checked-in %s is not the output of any "
                              "generator run%s" % (rel, n, rel, ("; its log says: %s" % about[0][:200]) if about else ""),
                              {"definition": n + ".proto", "missing_output": rel, "exit_status": p.returncode, "log_lines": about[:20], "written_modules": produced_m, "written_pages": produced_d, "how": HOW0})
        for f in files:
            if not (f.endswith(ext) and f[:-len(ext)] in protos):
                ctx.violation("regen:%s/%s" % (sub, f), "the generator writes %s/%s, which belongs to no definition file in nintendo/files/proto" % (sub, f),
                              {"output": sub + "/" + f, "definitions": protos, "how": HOW0})
    lst = lambda l: "[" + ", ".join(map(str, l)) + "]"
    cs = lambda l: ",".join(map(str, l)) if l else "-"
    stems = lambda files, ext: [code(f[:-len(ext)] if f.endswith(ext) else f) for f in files]
    P0, M0, D0 = [code(x) for x in protos], stems(produced_m, ".py"), stems(produced_d, ".md")
    wok, wout = ctx.lean_check("WrittenInventory", "\n".join([
        "import NxProofs.SchemaInventory", "open Nx.Schema.Inv",
        "-- names of the files one generator run wrote into empty output directories (harness/corr_C12.py)",
        "def protos : List Nat := " + lst(P0), "def writtenModules : List Nat := " + lst(M0), "def writtenPages : List Nat := " + lst(D0),
        "theorem written : inventoryOK protos writtenModules writtenPages = true := by decide +kernel",
        "theorem complete : (∀ x ∈ protos, x ∈ writtenModules ∧ x ∈ writtenPages) ∧ (∀ x, x ∈ writtenModules ∨ x ∈ writtenPages → x ∈ protos) := run_complete _ _ _ written"]) + "\n")
    ctx.obligation(wok); ctx.obligation(wok)
    winv = ctx.driver().batch(["inv %s %s %s" % (cs(P0), cs(M0), cs(D0))])[0]
    w_expected = p.returncode == 0 and not any(v[0].startswith("regen:") for v in ctx.violations)
    ctx.extra["written_by_one_run"] = {"definitions": len(P0), "modules": len(M0), "pages": len(D0), "exit_status": p.returncode, "kernel": wok, "model": winv.split("|")[0].strip()}
    if (winv.split("|")[0].strip() == "ok 1") != wok:
        ctx.corr_break("written-kernel-vs-driver", "kernel says %s, compiled checker says %s" % (wok, winv), {"lean_output": wout[-800:]})
    elif wok != w_expected and p.returncode == 0:
        ctx.corr_break("written-inventory", "the written-set obligation is %s but the per-definition comparison found %s" % (wok, "nothing" if w_expected else "missing/undefined outputs"),
                       {"driver": winv, "lean_output": wout[-800:]})
    ndiff = 0
    for sub, tree_dir, files in (("nintendo/nex", moddir, produced_m), ("docs/reference/nex", pagedir, produced_d)):
        for f in files:
            new = open(os.path.join(gen, sub, f), "rb").read()
            path = os.path.join(tree_dir, f)
            rel = sub + "/" + f
            if not os.path.exists(path):
                ndiff += 1
                ctx.case(key=rel, nontrivial=True, tag="missing")
                ctx.violation("regen:" + rel, "the generator produces %s but the working tree has no such file" % rel, {"file": rel})
                continue
            old = open(path, "rb").read()
            same = old == new
            ctx.case(key=rel, nontrivial=len(new) > 0, tag="same" if same else "differs",
                     sample={"file": rel, "bytes": len(new), "equal": same} if len(ctx.samples) < 3 else None)
            if not same:
                ndiff += 1
                ln, a, b = first_diff(old, new)
                ctx.violation("regen:" + rel, "%s differs from the generator's output at line %d: tree %r, generator %r" % (rel, ln, a[:80], b[:80]),
                              {"file": rel, "line": ln, "working_tree": a, "generator": b,
                               "how": "re-run generate_protocols.py on nintendo/files/proto in a scratch copy and compare bytes"})
    # ---------------- (a') the order in which the directory of definitions is listed is arbitrary (os.listdir): the generator's
    # output must not depend on it — re-run with the listing sorted, reversed and shuffled
    orders = ["sorted", "reversed"] + ["shuffle:%d" % ctx.rng.getrandbits(16) for _ in range(2 if ctx.tier == "quick" else 10)]
    WRAP = ("import os, sys, random, runpy\n"
            "order = sys.argv[1]\n"
            "_ld = os.listdir\n"
            "def listdir(path='.'):\n"
            "    l = sorted(_ld(path))\n"
            "    if order == 'reversed': l.reverse()\n"
            "    elif order.startswith('shuffle:'): random.Random(int(order[8:])).shuffle(l)\n"
            "    return l\n"
            "os.listdir = listdir\n"
            "sys.argv = ['generate_protocols.py']\n"
            "runpy.run_path('generate_protocols.py', run_name='__main__')\n")
    def regen_in_order(order):
        g = os.path.join(ctx.scratch, "regen_" + order.replace(":", "_"))
        scratch_tree(repo, g, protodir)
        open(os.path.join(g, "_ordered.py"), "w").write(WRAP)
        return order, g, run_generator(g, "_ordered.py", order)
    # ---------------- (a") in place: both output directories as they are in the working tree (hand-written files included), every
    # expected output replaced by a sentinel. After the run the directories must equal the working tree file for file.
    skip = lambda f: f == "__pycache__" or f.endswith((".pyc", ".pyo"))
    def regen_in_place(_):
        g = os.path.join(ctx.scratch, "regen_inplace")
        os.makedirs(os.path.join(g, "nintendo/files"))
        shutil.copy(os.path.join(repo, "generate_protocols.py"), g)
        shutil.copytree(protodir, os.path.join(g, "nintendo/files/proto"))
        for sub, tree_dir, ext in (("nintendo/nex", moddir, ".py"), ("docs/reference/nex", pagedir, ".md")):
            shutil.copytree(tree_dir, os.path.join(g, sub), ignore=lambda d, fs: [f for f in fs if skip(f)])
            for n in protos:
                open(os.path.join(g, sub, n + ext), "wb").write(SENTINEL)
        return g, run_generator(g)
    # ---------------- (a"') exit status: one definition damaged per run (empty output directories)
    nfault = 6 if ctx.tier == "quick" else 96
    kinds = list(FAULTS); ctx.rng.shuffle(kinds)
    plan = []
    for i in range(nfault):
        kind = kinds[i % len(kinds)]
        for _ in range(200):
            n = ctx.rng.choice(protos)
            try: text = open(os.path.join(protodir, n + ".proto"), encoding="utf8").read()
            except Exception: continue
            d = damage(ctx.rng, text, kind) if text else None
            if d: plan.append((i, n, kind, d[0], d[1])); break
    def regen_damaged(item):
        i, n, kind, data, desc = item
        g = os.path.join(ctx.scratch, "regen_fault_%d" % i)
        scratch_tree(repo, g, protodir)
        open(os.path.join(g, "nintendo/files/proto", n + ".proto"), "wb").write(data)
        q = run_generator(g)
        return item, q, set(os.listdir(os.path.join(g, "nintendo/nex"))), set(os.listdir(os.path.join(g, "docs/reference/nex")))
    with concurrent.futures.ThreadPoolExecutor(max_workers=12) as ex:
        f_orders = ex.map(regen_in_order, orders)
        f_place = ex.submit(regen_in_place, None)
        f_faults = ex.map(regen_damaged, plan)
        for order, g, q in f_orders:
            if q.returncode != 0:
                if p.returncode == 0:
                    ctx.violation("regen:order:" + order.split(":")[0], "generate_protocols.py fails when the definitions are listed in %s order: %s" % (order, q.stdout[-300:].strip()),
                                  {"order": order, "output": q.stdout[-3000:]})
                continue
            for sub, files in (("nintendo/nex", produced_m), ("docs/reference/nex", produced_d)):
                got = sorted(os.listdir(os.path.join(g, sub)))
                for f in sorted(set(files) | set(got)):
                    a = open(os.path.join(gen, sub, f), "rb").read() if f in files else None
                    b = open(os.path.join(g, sub, f), "rb").read() if f in got else None
                    ctx.case(key=("order", order, sub + "/" + f), nontrivial=bool(b), tag="order:" + order.split(":")[0] + (":same" if a == b else ":differs"))
                    if a != b:
                        ln, x, y = first_diff(a or b"", b or b"")
                        ctx.violation("regen:order-dependent:%s/%s" % (sub, f), "the generator's output for %s/%s depends on the order in which nintendo/files/proto is listed "
                                      "(%s order vs file-system order; first difference at line %d: %r / %r)" % (sub, f, order, ln, x[:80], y[:80]),
                                      {"file": sub + "/" + f, "order": order, "line": ln,
                                       "how": "run generate_protocols.py with os.listdir returning the definitions in the given order (harness/corr_C12.py regen_in_order)"})
        # ---- in place
        g, q = f_place.result()
        HOW1 = ("copy generate_protocols.py, nintendo/files/proto, nintendo/nex and docs/reference/nex to a scratch directory, overwrite <name>.py and <name>.md of every "
                "definition with a sentinel line, run the generator there, compare both directories with the working tree")
        stale = 0
        if q.returncode != 0 and p.returncode == 0:
            ctx.violation("regen:inplace:generator-fails", "generate_protocols.py succeeds with empty output directories but fails when the outputs already exist: %s" % q.stdout[-300:].strip(),
                          {"output": q.stdout[-3000:], "how": HOW1})
        elif q.returncode == 0:
            for sub, tree_dir, ext in (("nintendo/nex", moddir, ".py"), ("docs/reference/nex", pagedir, ".md")):
                want = sorted(f for f in os.listdir(tree_dir) if not skip(f) and os.path.isfile(os.path.join(tree_dir, f)))
                got = sorted(f for f in os.listdir(os.path.join(g, sub)) if not skip(f) and os.path.isfile(os.path.join(g, sub, f)))
                for f in sorted(set(want) | set(got)):
                    rel = sub + "/" + f
                    a = open(os.path.join(tree_dir, f), "rb").read() if f in want else None
                    b = open(os.path.join(g, sub, f), "rb").read() if f in got else None
                    expected_output = f.endswith(ext) and f[:-len(ext)] in protos
                    tag = "same" if a == b else "STALE" if b == SENTINEL else "differs"
                    ctx.case(key="inplace:" + rel, nontrivial=bool(b), tag="inplace:%s:%s" % ("output" if expected_output else "other", tag))
                    if a == b:
                        continue
                    if b == SENTINEL:
                        stale += 1
                        about = log_about(q.stdout, f[:-len(ext)])
                        ctx.violation("regen:unwritten:" + rel, "the generator (exit status 0) run where outputs already exist leaves %s untouched: stale content of that file survives a regeneration, "
                                      "the checked-in %s is not what this generator writes for %s.proto%s" % (rel, rel, f[:-len(ext)], ("; its log says: %s" % about[0][:200]) if about else ""),
                                      {"definition": f[:-len(ext)] + ".proto", "unwritten_output": rel, "exit_status": q.returncode, "log_lines": about[:20], "how": HOW1})
                    elif expected_output:
                        if not any(v[0] == "regen:" + rel for v in ctx.violations):
                            ln, x, y = first_diff(a or b"", b or b"")
                            ctx.violation("regen:inplace:" + rel, "%s as regenerated over existing outputs differs from the working tree at line %d: tree %r, generator %r (with empty output directories it does not)" % (rel, ln, x[:80], y[:80]),
                                          {"file": rel, "line": ln, "working_tree": x, "generator": y, "how": HOW1})
                    elif not any(v[0] == "regen:" + rel for v in ctx.violations):
                        ctx.violation("regen:inplace:clobbers:" + rel, "the generator %s %s, which is not the module/page of any definition file" % ("creates" if a is None else "deletes" if b is None else "rewrites", rel),
                                      {"file": rel, "definitions": protos, "how": HOW1})
        ctx.extra["in_place_run"] = {"exit_status": q.returncode, "sentinels_left": stale}
        # ---- damaged definitions
        fault_tags = {}
        for (i, n, kind, data, desc), q, wm, wd in f_faults:
            # outputs the undamaged run wrote and this one did not
            lacking = sorted(["nintendo/nex/" + f for f in produced_m if f not in wm] + ["docs/reference/nex/" + f for f in produced_d if f not in wd])
            outcome = "refused" if q.returncode != 0 else "tolerated" if not lacking else "SILENT"
            fault_tags[kind + ":" + outcome] = fault_tags.get(kind + ":" + outcome, 0) + 1
            ctx.case(key=("fault", n, kind, desc), nontrivial=True, tag="fault:%s:%s" % (kind, outcome))
            if outcome == "SILENT" and p.returncode == 0:
                about = log_about(q.stdout, n)
                ctx.violation("regen:exit-status", "with %s.proto damaged (%s) the generator ends with exit status 0 although it wrote no %s (%d of the %d outputs it writes for the undamaged definitions are missing): a run that reports success "
                              "does not mean that every definition has its generated files%s" % (n, desc, lacking[0], len(lacking), len(produced_m) + len(produced_d), ("; its log says: %s" % about[0][:200]) if about else ""),
                              {"definition": n + ".proto", "damage": kind, "description": desc, "damaged_text": data.decode("utf8", "backslashreplace"), "exit_status": q.returncode,
                               "outputs_not_written": lacking, "log_lines": about[:20],
                               "how": "copy generate_protocols.py and nintendo/files/proto to an empty directory with empty nintendo/nex and docs/reference/nex, replace the definition by damaged_text, run the generator, look at exit status and written files"})
        ctx.extra["damaged_definition_runs"] = fault_tags
    ctx.programs = len(produced_m) + len(produced_d)
    ctx.exhaustive = True
    ctx.extra["listing_orders"] = orders
    ctx.extra["regenerated_files"] = ctx.programs
    ctx.extra["byte_differences"] = ndiff
    # ---------------- (b) inventory
    gen_modules = []
    for f in sorted(os.listdir(moddir)):
        if f.endswith(".py"):
            head = open(os.path.join(moddir, f), errors="replace").read(400)
            if PT.HEADER in head.split("\n")[:4]:
                gen_modules.append(f[:-3])
    gen_pages, page_claims = [], {}
    for f in sorted(os.listdir(pagedir)):
        if f.endswith(".md"):
            m = PAGE_SENTENCE.search(open(os.path.join(pagedir, f), errors="replace").read(3000))
            if m:
                gen_pages.append(f[:-3]); page_claims[f[:-3]] = m.group(1)
    P, M, D = [code(x) for x in protos], [code(x) for x in gen_modules], [code(x) for x in gen_pages]
    lst = lambda l: "[" + ", ".join(map(str, l)) + "]"
    src = ["import NxProofs.SchemaInventory", "open Nx.Schema.Inv",
           "-- inventory collected from the working tree by harness/corr_C12.py",
           "def protos : List Nat := " + lst(P), "def modules : List Nat := " + lst(M), "def pages : List Nat := " + lst(D),
           "theorem inventory : inventoryOK protos modules pages = true := by decide +kernel",
           "theorem bijection : (∀ x, x ∈ protos ↔ x ∈ modules) ∧ (∀ x, x ∈ protos ↔ x ∈ pages) := inventoryOK_iff _ _ _ inventory"]
    ok, out = ctx.lean_check("Inventory", "\n".join(src) + "\n")
    ctx.obligation(ok); ctx.obligation(ok)
    cs = lambda l: ",".join(map(str, l)) if l else "-"
    inv = ctx.driver().batch(["inv %s %s %s" % (cs(P), cs(M), cs(D))])[0]
    parts = [x.strip() for x in inv.split("|")]
    model_ok = parts[0] == "ok 1"
    names = lambda s: [] if s == "-" else [uncode(int(x)) for x in s.split(",")]
    ctx.extra["inventory"] = {"definitions": len(P), "generated_modules": len(M), "generated_pages": len(D)}
    if model_ok != ok:
        ctx.corr_break("inventory-kernel-vs-driver", "kernel says %s, compiled checker says %s" % (ok, inv), {"lean_output": out[-800:]})
    if not ok or not model_ok:
        found = False
        for kind, what, items in (("proto-without-module", "definition %s.proto has no generated module nintendo/nex/%s.py", names(parts[1])),
                                  ("module", "generated module nintendo/nex/%s.py has no definition %s.proto", names(parts[2])),
                                  ("proto-without-page", "definition %s.proto has no generated page docs/reference/nex/%s.md", names(parts[3])),
                                  ("page", "generated page docs/reference/nex/%s.md has no definition %s.proto (the generator never deletes: stale output)", names(parts[4]))):
            for n in items:
                found = True
                ctx.violation("inventory:%s:%s" % (kind, n), what % (n, n),
                              {"item": n, "kind": kind, "definitions": protos, "generated_modules": gen_modules, "generated_pages": gen_pages,
                               "how": "ls nintendo/files/proto; grep -l 'generated automatically' nintendo/nex/*.py docs/reference/nex/*.md"})
        if not found:
            ctx.corr_break("inventory", "inventory obligation fails but no orphan was isolated", {"driver": inv, "lean_output": out[-800:]})
    for page, claim in page_claims.items():
        ctx.case(key="claim:" + page, nontrivial=True, tag="page-claim")
        if claim != page:
            ctx.violation("inventory:page-claims:%s" % page, "page %s.md says it was generated from %s.proto" % (page, claim), {"page": page, "claims": claim})
    if stray:
        ctx.extra["non_proto_files_in_proto_dir"] = stray
    # ---------------- (c) S_py = S_proto
    prepared = {}
    for n in protos:          # serial: the repository's parser prints and chdirs (not thread-safe)
        try:
            past, problem = cross_check(protodir, repo, n)
            if past is None:
                prepared[n] = (None, "definition unreadable: %s" % problem); continue
            path = os.path.join(moddir, n + ".py")
            if not os.path.exists(path):
                prepared[n] = (None, "module missing"); continue
            prepared[n] = PT.lean_tables(n, past, PT.module_tables(path))
        except Exception as e:
            prepared[n] = (None, "ast extraction failed: %r" % (e,))
    def one(n):
        src, names = prepared[n]
        if src is None: return n, None, names, []
        ok, out = ctx.lean_check("Tables_" + n, src)
        failed = set()
        if not ok:
            lines = src.split("\n")
            for m in re.finditer(r"\.lean:(\d+):\d+: error", out):
                for i in range(int(m.group(1)) - 1, -1, -1):
                    if i < len(lines) and lines[i].startswith("theorem "):
                        failed.add(lines[i].split()[1]); break
            if not failed: failed = set(names)
        return n, [(t, t not in failed) for t in names], out, names
    with concurrent.futures.ThreadPoolExecutor(max_workers=8) as ex:
        for n, res, out, names in ex.map(one, protos):
            if res is None:
                ctx.obligation(False)
                if not ctx.violations:
                    ctx.corr_break("tables:" + n, "S_py for %s could not be recovered: %s" % (n, out), {"module": n})
                continue
            for t, ok in res:
                ctx.obligation(ok)
                ctx.case(key="tables:%s:%s" % (n, t), nontrivial=True, tag="S_py=S_proto:" + ("ok" if ok else "FAILS"))
                if not ok:
                    # the property's own oracle is the byte comparison of (a); it names the file and line
                    if not any(v[0] in ("regen:nintendo/nex/%s.py" % n,) for v in ctx.violations) and "regen:generator-fails" not in [v[0] for v in ctx.violations]:
                        ctx.corr_break("tables:%s:%s" % (n, t), "semantic obligation %s (module %s.py vs %s.proto) does not check although the module is byte-identical to the generator's output" % (t, n, n),
                                       {"module": n, "theorem": t, "lean_output": out[-1200:]})
    ctx.assumptions.append("byte equality is established by re-running the repository's own generator (exhaustive over the 54 outputs), not by a Lean theorem")
    ctx.assumptions.append("a module counts as generated iff it carries the generator's header comment, a page iff it carries the 'generated automatically from' sentence")
