/-! Nat bit-operation lemmas that turn Python's `|`, `&`, `>>`, `<<` into arithmetic for `omega` -/
namespace Nx

theorem or_two_pow_of_lt {b : Nat} (i : Nat) (h : b < 2 ^ i) : b ||| 2 ^ i = b + 2 ^ i := by
  have := Nat.two_pow_add_eq_or_of_lt h 1
  rw [Nat.mul_one] at this
  rw [Nat.or_comm, ← this, Nat.add_comm]

theorem two_pow_or_of_lt {b : Nat} (i : Nat) (h : b < 2 ^ i) : 2 ^ i ||| b = 2 ^ i + b := by
  rw [Nat.or_comm, or_two_pow_of_lt i h, Nat.add_comm]

/-- `a | (x << i)` for `a < 2^i` -/
theorem or_shiftLeft_of_lt {a : Nat} (i x : Nat) (h : a < 2 ^ i) : a ||| (x <<< i) = a + x * 2 ^ i := by
  have := Nat.two_pow_add_eq_or_of_lt h x
  rw [Nat.shiftLeft_eq, Nat.or_comm, Nat.mul_comm x, ← this, Nat.add_comm]

theorem and_mask (x i : Nat) : x &&& (2 ^ i - 1) = x % 2 ^ i := Nat.and_two_pow_sub_one_eq_mod x i

theorem shr_eq_div (x i : Nat) : x >>> i = x / 2 ^ i := Nat.shiftRight_eq_div_pow x i

example : (5 : Nat) ||| 128 = 133 := or_two_pow_of_lt 7 (by omega)

end Nx
