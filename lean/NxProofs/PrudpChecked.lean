import NxProofs.PrudpV0
import NxProofs.PrudpLite
/-! on well-formed packets the checked encoders (which mirror Python's exceptions) succeed with the total encoders' bytes -/
set_option linter.unusedSimpArgs false
namespace Nx.Prudp
open Nx

theorem encodeOptionsErr_none (o : Opts) (h : ∀ kv ∈ o, OptEntryWF kv.1 kv.2) : encodeOptionsErr o = none := by
  induction o with
  | nil => rfl
  | cons kv o ih =>
    obtain ⟨k, v⟩ := kv
    have hkv : OptEntryWF k v := h (k, v) (by simp)
    have : encodeOptionErr k v = none := by
      rcases OptEntryWF_cases hkv with ⟨rfl, n, rfl, hn⟩ | ⟨rfl, b, rfl, hb⟩ | ⟨rfl, n, rfl, hn⟩ | ⟨rfl, n, rfl, hn⟩ | ⟨rfl, n, rfl, hn⟩ | ⟨rfl, b, rfl, hb⟩
      all_goals simp [encodeOptionErr, optInfo, *]
    simp only [encodeOptionsErr, this]
    exact ih (fun kv hm => h kv (by simp [hm]))

theorem v0EncodeChecked_wf (c : V0Cfg) (p : Packet) (h : V0WF c p) : v0EncodeChecked c p = .ok (v0Encode c p) := by
  obtain ⟨hver, hst, hsp, hdt, hdp, htf, hse, hpid, hsig, hcs, hfr, hsub, hiu, hms, hsf, hmv, hpl⟩ := h
  obtain ⟨sg, hsg, hsgl⟩ := optLen_some hsig
  have : v0EncodeErr c p = none := by
    unfold v0EncodeErr
    rw [pyOr4 _ hsp, pyOr4 _ hdp]
    rw [if_neg (by omega), if_neg (by omega)]
    by_cases hf : c.flagsVersion = 0
    · simp only [hf, if_true] at htf
      rw [pyOr3 _ htf.1, if_neg (by omega), if_neg (by simp [hf]), if_neg (by omega), if_neg (by simp [hsg]), if_neg (by omega)]
      have : ¬ (isSynOrConnect p.type = true ∧ p.connectionSignature = none) := by
        intro ⟨a, b⟩; simp only [a, if_true] at hcs; obtain ⟨x, hx, -⟩ := optLen_some hcs; simp [hx] at b
      rw [if_neg this]
      have : ¬ (p.type = 2 ∧ p.fragmentId ≥ 256) := by
        intro ⟨a, b⟩; simp only [a, if_true] at hfr; omega
      rw [if_neg this]
      have : ¬ (hasSize p.flags = true ∧ p.payload.length ≥ 65536) := by
        intro ⟨a, b⟩; have := hpl a; omega
      rw [if_neg this]
    · simp only [hf, if_false] at htf
      rw [pyOr4 _ htf.1, if_neg (by simp [hf]), if_neg (by omega), if_neg (by omega), if_neg (by simp [hsg]), if_neg (by omega)]
      have : ¬ (isSynOrConnect p.type = true ∧ p.connectionSignature = none) := by
        intro ⟨a, b⟩; simp only [a, if_true] at hcs; obtain ⟨x, hx, -⟩ := optLen_some hcs; simp [hx] at b
      rw [if_neg this]
      have : ¬ (p.type = 2 ∧ p.fragmentId ≥ 256) := by
        intro ⟨a, b⟩; simp only [a, if_true] at hfr; omega
      rw [if_neg this]
      have : ¬ (hasSize p.flags = true ∧ p.payload.length ≥ 65536) := by
        intro ⟨a, b⟩; have := hpl a; omega
      rw [if_neg this]
  simp [v0EncodeChecked, this]

theorem v1EncodeChecked_wf (p : Packet) (h : V1WF p) : v1EncodeChecked p = .ok (v1Encode p) := by
  have ho := encodeOptionsErr_none _ (v1Options_wf p h).2
  obtain ⟨hver, hst, hsp, hdt, hdp, hty, hfl, hse, hsub, hpid, hsig, hpl, -, -, -⟩ := h
  obtain ⟨sg, hsg, hsgl⟩ := optLen_some hsig
  have : v1HeaderErr p = none := by
    unfold v1HeaderErr
    rw [pyOr4 _ hsp, pyOr4 _ hdp, pyOr4 _ hty]
    rw [if_neg (by omega), if_neg (by omega), if_neg (by omega), if_neg (by omega), if_neg (by omega), if_neg (by omega),
      if_neg (by omega)]
  simp [v1EncodeChecked, v1EncodeErr, ho, this, hsg]

theorem liteEncodeChecked_wf (p : Packet) (h : LiteWF p) : liteEncodeChecked p = .ok (liteEncode p) := by
  have ho := encodeOptionsErr_none _ (liteOptions_wf p h).2
  obtain ⟨-, hst, hdt, hsp, hdp, hfr, hty, hfl, hpid, -, -, -, -, hpl, -⟩ := h
  have : liteHeaderErr p = none := by
    unfold liteHeaderErr
    rw [shl4_or _ hdt, pyOr4 _ hty]
    rw [if_neg (by omega), if_neg (by omega), if_neg (by omega), if_neg (by omega), if_neg (by omega), if_neg (by omega),
      if_neg (by omega)]
  simp [liteEncodeChecked, liteEncodeErr, ho, this]

end Nx.Prudp
