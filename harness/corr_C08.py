"""C08 — PRUDP bytes on the wire match the protocol specification.

The Lean functions in NxModel/Prudp/{V0,V1,Lite,Options,Sig,Payload}.lean are the independent, fixed reference.
This harness is the differential part: real PRUDPMessageV0/V1/Lite.calc_* / encode, PayloadEncoder, KerberosEncryption,
build_connection_request / check_connection_response / process_login_request versus the compiled reference, and the
reverse direction (reference-produced datagrams fed to the real decoders). Every disagreement is a concrete input on
which the emitted bytes differ from the specification, i.e. a violation of C08 itself."""
import inspect, json, socket, struct, time, types, zlib
from nintendo.nex import prudp, kerberos, common, settings as nexsettings
from codec_prudp import *

LEVEL = "proof"

SESSION_KEYS = [b"", bytes(16), bytes(range(32)), b"\xff" * 16, b"k"]
IPS = ["127.0.0.1", "0.0.0.0", "255.255.255.255", "10.0.0.1", "192.168.1.77", "1.2.3.4"]
PORTS = [0, 1, 80, 255, 256, 12345, 32767, 32768, 65534, 65535]


def res(x):
    return "err " + exc_name(x) if isinstance(x, Exception) else "ok " + hx(x)


def compressible(rng, n):
    if n == 0: return b""
    r = rng.random()
    if r < 0.3: return rng.randbytes(n)
    if r < 0.5: return bytes(n)
    if r < 0.7: return (b"abcdefgh" * (n // 8 + 1))[:n]
    word = rng.randbytes(rng.randint(1, 6))
    return (word * (n // len(word) + 1))[:n]


def run(ctx):
    rng = ctx.rng
    drv = ctx.driver()
    quick = ctx.tier == "quick"
    scale = 1 if quick else 25
    ctx.rule = ("reference (compiled Lean) vs real code on generated inputs: v0 checksums (2 versions x access keys incl. empty/non-ASCII x data "
                "lengths 0..70 and up to 1500); v0 data/packet/connection signatures (2 signature versions), v1 packet/connection signatures, "
                "lite connect signature over access keys x session keys (incl. empty) x connection signatures x addresses x well-formed packets "
                "of all types/flag subsets; signed datagrams (header, options, checksum, signature) emitted by real encode vs reference, and "
                "reference datagrams decoded and signature-checked by the real code; modify_key for key lengths 0..48, key chains for "
                "substreams 0..3, init/make_unreliable_key over packet ids (16-bit range exhaustive in thorough) x session ids; PayloadEncoder "
                "sessions (UDP/RC4 and stream/dummy x zlib on/off x max substream 0..3 x session keys incl. empty and 257 bytes) of 12..40 "
                "packets with payloads 0..1400, encode and decode with running cipher position, zlib output as oracle input; Kerberos envelope; "
                "connection request/response layouts for pid size 4/8. distinct non-trivial = distinct reference lines")
    lines, reals, meta = [], [], []

    def add(line, real, kind, replay=None):
        lines.append(line); reals.append(real); meta.append((kind, replay))

    keys = ACCESS_KEYS
    # ---- 1. v0 checksum ------------------------------------------------------------------------------
    for key in keys:
        for cv in (0, 1):
            c = prudp.PRUDPMessageV0(make_settings(cv=cv, key=key))
            lens = list(range(0, 24)) + [rng.randint(24, 70) for _ in range(6)] + [rng.randint(71, 1500) for _ in range(3 * scale)]
            for n in lens:
                for data in (rng.randbytes(n), b"\xff" * n):
                    add("v0ck %d %s %s" % (cv, hx(key.encode()), hx(data)), str(c.calc_checksum(data)), "v0-checksum",
                        {"checksum_version": cv, "access_key": key, "data": data.hex()})

    # ---- 2. signatures + signed datagrams -----------------------------------------------------------
    n_sig = 8000 * scale
    for i in range(n_sig):
        key = rng.choice(keys)
        kh = hx(key.encode())
        sk = rng.choice(SESSION_KEYS) if rng.random() < 0.7 else rng.randbytes(rng.randint(1, 40))
        r = i % 4
        if r < 2:
            sv, cv, fv = rng.choice(V0_VARIANTS)
            c = prudp.PRUDPMessageV0(make_settings(sv=sv, cv=cv, fv=fv, key=key))
            t = gen_v0(rng, fv)
            if rng.random() < 0.3: t = t[:-1] + (b"",)
            cs = rng.choice([None, b"", rng.randbytes(4)])
            p = make_packet(t)
            rp = {"codec": "v0", "variant": [sv, cv, fv], "access_key": key, "session_key": sk.hex(), "connection_signature": None if cs is None else cs.hex(),
                  "packet": fmt_fields(t)}
            add("v0datasig %d %s %s %s" % (sv, kh, hx(sk), fmt_fields(t)), hx(safe_b(c.calc_data_signature, p, sk)), "v0-data-signature", rp)
            sig = safe_b(c.calc_packet_signature, p, sk, cs)
            add("v0sig %d %s %s %s %s" % (sv, kh, hx(sk), hx(cs or b""), fmt_fields(t)), hx(sig), "v0-packet-signature", rp)
            p.signature = sig
            add("v0emit %d %d %d %s %s %s %s" % (sv, cv, fv, kh, hx(sk), hx(cs or b""), fmt_fields(t)), res(safe(c.encode, p)), "v0-datagram", rp)
        elif r == 2:
            c = prudp.PRUDPMessageV1(make_settings(key=key))
            t = gen_v1(rng)
            cs = rng.choice([b"", rng.randbytes(16)])
            p = make_packet(t)
            rp = {"codec": "v1", "access_key": key, "session_key": sk.hex(), "connection_signature": cs.hex(), "packet": fmt_fields(t)}
            sig = safe_b(c.calc_packet_signature, p, sk, cs)
            add("v1sig %s %s %s %s" % (kh, hx(sk), hx(cs), fmt_fields(t)), hx(sig), "v1-packet-signature", rp)
            p.signature = sig
            add("v1emit %s %s %s %s" % (kh, hx(sk), hx(cs), fmt_fields(t)), res(safe(c.encode, p)), "v1-datagram", rp)
        else:
            c = prudp.PRUDPLiteMessage(make_settings(transport=2, key=key))
            t = gen_lite(rng)
            if t[0] == 1 and not t[1] & 1: t = (t[0], t[1] | 4) + t[2:]          # client CONNECT always carries NEED_ACK
            cs = rng.choice([b"", rng.randbytes(16)])
            p = make_packet(t)
            rp = {"codec": "lite", "access_key": key, "connection_signature": cs.hex(), "packet": fmt_fields(t)}
            sig = c.calc_packet_signature(p, sk, cs)
            add("litesig %s %s %s" % (kh, hx(cs), fmt_fields(t)), optb(sig), "lite-packet-signature", rp)
            p.signature = sig
            add("liteemit %s %s %s" % (kh, hx(cs), fmt_fields(t)), res(safe(c.encode, p)), "lite-datagram", rp)
    # connection signatures over addresses
    v0c = prudp.PRUDPMessageV0(make_settings()); v1c = prudp.PRUDPMessageV1(make_settings()); ltc = prudp.PRUDPLiteMessage(make_settings())
    addrs = [(ip, port) for ip in IPS for port in PORTS] + [(socket.inet_ntoa(rng.randbytes(4)), rng.randint(0, 65535)) for _ in range(300 * scale)]
    for ip, port in addrs:
        iph = socket.inet_aton(ip).hex()
        rp = {"address": [ip, port]}
        add("v0connsig %s %d" % (iph, port), hx(v0c.calc_connection_signature((ip, port))), "v0-connection-signature", rp)
        add("v1connsig %s %d" % (iph, port), hx(v1c.calc_connection_signature((ip, port))), "v1-connection-signature", rp)
        add("liteconnsig %s %d" % (iph, port), hx(ltc.calc_connection_signature((ip, port))), "lite-connection-signature", rp)

    # ---- 3. key schedule -------------------------------------------------------------------------------
    pe = prudp.PayloadEncoder(make_settings())
    for n in list(range(0, 49)) + [64, 255, 256]:
        for k in (rng.randbytes(n), b"\xff" * n, bytes(n)):
            add("modkey " + hx(k), hx(pe.modify_key(k)), "modify-key", {"key": k.hex()})
    for _ in range(60 * scale):
        k = rng.randbytes(rng.choice([16, 32, 16, 32, rng.randint(1, 40)]))
        chain = [k]
        for _ in range(3): chain.append(pe.modify_key(chain[-1]))
        for n in range(4):
            add("subkeys %s %d" % (hx(k), n), ",".join(hx(x) for x in chain[:n + 1]), "substream-key-chain", {"key": k.hex(), "max_substream": n})
        add("unrelinit " + hx(k), hx(pe.init_unreliable_key(k)), "unreliable-key-init", {"key": k.hex()})
    add("unrelinit -", hx(pe.init_unreliable_key(b"")), "unreliable-key-init", {"key": ""})
    pids = range(65536) if not quick else sorted(set([0, 1, 0xFE, 0xFF, 0x100, 0x101, 0x7FFF, 0x8000, 0xFEFF, 0xFF00, 0xFFFE, 0xFFFF] + [rng.randint(0, 65535) for _ in range(3000)]))
    for sk in (bytes(16), rng.randbytes(32)):
        pe.set_session_key(sk) if sk else None
        uk = pe.unreliable_key
        for pid in pids:
            se = rng.choice([0, 1, 0x7F, 0x80, 0xFF, rng.randint(0, 255)])
            p = prudp.PRUDPPacket(2, 0); p.packet_id = pid; p.session_id = se
            add("unrelkey %s %d %d" % (hx(uk), pid, se), hx(pe.make_unreliable_key(p)), "unreliable-key", {"unreliable_key": uk.hex(), "packet_id": pid, "session_id": se})
    ctx.exhaustive = None if quick else "unreliable sequence ids 0..65535"

    # ---- 4. PayloadEncoder sessions (stateful: one reference state per session) ---------------------------
    n_sess = 120 * scale
    for sidx in range(n_sess):
        transport = rng.choice([0, 0, 0, 1, 2]); comp = rng.choice([0, 1]); maxsub = rng.randint(0, 3)
        s = make_settings(transport=transport)
        s["prudp.compression"] = comp; s["prudp.max_substream_id"] = maxsub
        enc = prudp.PayloadEncoder(s)
        s2 = s.copy(); s2["prudp.compression"] = 0
        twin = prudp.PayloadEncoder(s2)                     # same ciphers, no compression: yields the decrypted bytes
        add("pnew %d %d %d" % (transport, comp, maxsub), "ok", "payload-new")
        sess = {"transport": transport, "compression": comp, "max_substream": maxsub, "ops": []}
        def setkey(k):
            r = safe(enc.set_session_key, k); safe(twin.set_session_key, k)
            sess["ops"].append(["key", k.hex()])
            add("pkey " + hx(k), "err " + exc_name(r) if isinstance(r, Exception) else "ok", "payload-set-key", dict(sess, ops=list(sess["ops"])))
        if rng.random() < 0.8: setkey(rng.choice([rng.randbytes(16), rng.randbytes(32), b"", rng.randbytes(257), rng.randbytes(1)]))
        for j in range(rng.randint(12, 40)):
            if rng.random() < 0.04: setkey(rng.randbytes(rng.choice([16, 32])))
            ty = 2 if rng.random() < 0.85 else rng.choice([0, 1, 3, 4])
            fl = rng.choice([2, 2, 2, 6, 0, 4, 0x202])
            sub = rng.randint(0, maxsub) if rng.random() < 0.95 else maxsub + 1
            pid = rng.choice([0, 1, 0xFF, 0x100, 0xFFFF, rng.randint(0, 65535)]); se = rng.randint(0, 255)
            if j and rng.random() < 0.25 and sess["ops"] and sess["ops"][-1][0] in ("enc", "dec"):
                # the same ids again, back to back (a datagram delivered twice, a peer repeating an unreliable packet, the 16-bit
                # counter coming round): every unreliable packet is encrypted from the start of ITS key stream
                ty, fl, sub, pid, se = sess["ops"][-1][1:6]
            n = rng.choice([0, 1, 2, 7, 8, 100, 1399, 1400, rng.randint(0, 1400), rng.randint(0, 60)])
            payload = compressible(rng, n)
            p = prudp.PRUDPPacket(ty, fl); p.substream_id = sub; p.packet_id = pid; p.session_id = se; p.payload = payload
            z = zlib.compress(payload) if comp else b""
            out = safe(enc.encode, p)
            sess["ops"].append(["enc", ty, fl, sub, pid, se, payload.hex()])
            add("penc %d %d %d %d %d %s %s" % (ty, fl, sub, pid, se, hx(payload), hx(z)), res(out), "payload-encode", dict(sess, ops=list(sess["ops"])))
            if comp:
                # the deflate oracle is validated, not trusted: what zlib.compress returned must inflate (Lean inflater) to the payload
                add("zchk %s %s" % (hx(payload), hx(z)), "ok", "deflate-oracle-validated", {"payload": payload.hex(), "z": z.hex()})
            if isinstance(out, bytes):
                wire = out
                if rng.random() < 0.08 and wire:
                    m = bytearray(wire); m[rng.randrange(len(m))] ^= 1 << rng.randrange(8); wire = bytes(m)
                q = prudp.PRUDPPacket(ty, fl); q.substream_id = sub; q.packet_id = pid; q.session_id = se; q.payload = wire
                dec = safe(enc.decode, q)
                plain = safe(twin.decode, q)
                sess["ops"].append(["dec", ty, fl, sub, pid, se, wire.hex()])
                # the reference inflates by itself (NxModel/Crypto/Inflate.lean): no zlib output is handed to it on the decode side
                add("pdecz %d %d %d %d %d %s" % (ty, fl, sub, pid, se, hx(wire)), res(dec), "payload-decode", dict(sess, ops=list(sess["ops"])))
                if wire is out and ty == 2 and not isinstance(dec, Exception) and dec != payload:
                    ctx.violation("payload-roundtrip", "PayloadEncoder.decode(encode(payload)) != payload on the real code", dict(sess, ops=list(sess["ops"])))
    # frames of a conforming FOREIGN peer (the library deflates everything it sends; a peer may also store small or incompressible
    # payloads behind a ratio byte 0): produced by the framing rule + a second, compression-less encoder with the same keys
    for sidx in range(16 * scale):
        transport = rng.choice([0, 0, 1, 2]); maxsub = rng.randint(0, 2)
        s = make_settings(transport=transport)
        s["prudp.compression"] = 1; s["prudp.max_substream_id"] = maxsub
        s2 = s.copy(); s2["prudp.compression"] = 0
        enc, peer = prudp.PayloadEncoder(s), prudp.PayloadEncoder(s2)
        add("pnew %d %d %d" % (transport, 1, maxsub), "ok", "payload-new")
        sess = {"transport": transport, "compression": 1, "max_substream": maxsub, "foreign_peer": True, "ops": []}
        k = rng.choice([rng.randbytes(16), rng.randbytes(32), b""])
        r = safe(enc.set_session_key, k); safe(peer.set_session_key, k)
        sess["ops"].append(["key", k.hex()])
        add("pkey " + hx(k), "err " + exc_name(r) if isinstance(r, Exception) else "ok", "payload-set-key", dict(sess, ops=list(sess["ops"])))
        for j in range(rng.randint(8, 20)):
            fl = rng.choice([2, 2, 6, 0]); sub = rng.randint(0, maxsub)
            pid = rng.randint(0, 65535); se = rng.randint(0, 255)
            n = rng.choice([1, 2, 7, 40, 300, 1300, rng.randint(1, 1400)])
            payload = compressible(rng, n) if rng.random() < 0.7 else rng.randbytes(n)
            stored = rng.random() < 0.6
            z = zlib.compress(payload)
            frame = b"\x00" + payload if stored else bytes([len(payload) // len(z) + 1]) + z
            p = prudp.PRUDPPacket(2, fl); p.substream_id = sub; p.packet_id = pid; p.session_id = se; p.payload = frame
            wire = safe(peer.encode, p)
            if not isinstance(wire, bytes):
                break
            q = prudp.PRUDPPacket(2, fl); q.substream_id = sub; q.packet_id = pid; q.session_id = se; q.payload = wire
            dec = safe(enc.decode, q)
            sess["ops"].append(["dec", 2, fl, sub, pid, se, wire.hex()])
            add("pdecz %d %d %d %d %d %s" % (2, fl, sub, pid, se, hx(wire)), res(dec), "payload-decode-foreign-" + ("stored" if stored else "deflated"), dict(sess, ops=list(sess["ops"])))
            if dec != payload:
                ctx.violation("foreign-frame:" + ("stored" if stored else "deflated"),
                              "a %s compression frame as a conforming peer may send it (%d payload bytes, ratio byte %d) is not decoded to its payload by the real code: %s"
                              % ("stored" if stored else "deflated", len(payload), frame[0], repr(dec)[:100]), dict(sess, ops=list(sess["ops"])))
                break
    # ratio byte at its boundaries (compression framing given zlib's output)
    add("pnew 1 1 0", "ok", "payload-new")
    zc = prudp.ZlibCompression()
    for n in [1, 2, 10, 11, 12, 100, 1000, 1400, 2000, 2816, 2817, 3000] + [rng.randint(1, 1400) for _ in range(40 * scale)]:
        for payload in (bytes(n), compressible(rng, n)):
            z = zlib.compress(payload)
            out = safe(zc.compress, payload)
            add("penc 2 2 0 0 0 %s %s" % (hx(payload), hx(z)), res(out), "zlib-ratio-byte", {"payload": payload.hex()})
            if isinstance(out, bytes) and out[0] != len(payload) // len(z) + 1:
                ctx.violation("zlib-ratio", "ratio byte is not len(data)//len(compressed)+1", {"payload": payload.hex(), "ratio": out[0]})

    # ---- 4b. the inflater of the reference against zlib.decompress: valid streams of every kind, and damaged ones ------------
    def zadd(d, kind):
        try: real = "ok " + hx(zlib.decompress(d))
        except zlib.error: real = "err"
        add("zinf " + hx(d), real, kind, {"stream": d.hex()})
    zs = [b"", b"a", b"hello world" * 5, bytes(300), bytes(range(256)) * 3, rng.randbytes(500), b"abcabcabc" * 100,
          compressible(rng, 1400), rng.randbytes(1400), rng.randbytes(70000 if not quick else 20000)]
    zs += [compressible(rng, rng.randint(1, 1400)) for _ in range(30 * scale)]
    for d in zs:
        for lvl in range(10):
            zadd(zlib.compress(d, lvl), "inflate-level")
        for strat in (zlib.Z_FIXED, zlib.Z_HUFFMAN_ONLY, zlib.Z_RLE, zlib.Z_FILTERED):
            for wb in (9, 12, 15):
                c = zlib.compressobj(6, zlib.DEFLATED, wb, rng.choice([1, 8, 9]), strat)
                zadd(c.compress(d) + c.flush(), "inflate-strategy")
        c = zlib.compressobj(rng.choice([1, 6, 9]))
        h = len(d) // 2
        zadd(c.compress(d[:h]) + c.flush(zlib.Z_SYNC_FLUSH) + c.compress(d[h:]) + c.flush(zlib.Z_FULL_FLUSH) + c.flush(), "inflate-multi-block")
    bases = [zlib.compress(b"hello hello hello hello world, this is a test of the emergency broadcast system" * 2),
             zlib.compress(bytes(range(40)), 9), zlib.compress(bytes(rng.choice(b"abcdefgh") for _ in range(400)), 9),
             zlib.compress(rng.randbytes(30), 0)]
    for base in bases:
        for i in range(len(base) + 1):
            zadd(base[:i], "inflate-truncated")
        flips = range(len(base) * 8) if not quick else sorted(set(list(range(40)) + rng.sample(range(len(base) * 8), min(220, len(base) * 8))))
        for i in flips:
            b = bytearray(base); b[i // 8] ^= 1 << (i % 8)
            zadd(bytes(b), "inflate-bit-flip")
        zadd(base + b"trailing bytes", "inflate-trailing")
        zadd(base + base, "inflate-trailing")
        for hdr in (b"\x78\x9c", b"\x78\x01", b"\x08\x1d", b"\x78\xbb", b"\x88\x1c", b"\x79\x9c", b"\x00\x00"):
            zadd(hdr + base[2:], "inflate-header")

    # ---- 5. Kerberos envelope and connection request / response ---------------------------------------------
    for _ in range(150 * scale):
        k = rng.choice([rng.randbytes(16), rng.randbytes(32), b"", rng.randbytes(rng.randint(1, 40))])
        d = rng.randbytes(rng.choice([0, 1, 12, 16, 20, rng.randint(0, 80)]))
        e = safe(kerberos.KerberosEncryption(k).encrypt, d)
        add("kerbenc %s %s" % (hx(k), hx(d)), res(e), "kerberos-encrypt", {"key": k.hex(), "data": d.hex()})
        if isinstance(e, bytes):
            w = e
            if rng.random() < 0.3:
                m = bytearray(e); m[rng.randrange(len(m))] ^= 1 << rng.randrange(8); w = bytes(m)
            add("kerbdec %s %s" % (hx(k), hx(w)), res(safe(kerberos.KerberosEncryption(k).decrypt, w)), "kerberos-decrypt", {"key": k.hex(), "data": w.hex()})
    nparams = len(inspect.signature(prudp.PRUDPServerStream.process_login_request).parameters)
    for _ in range(120 * scale):
        pidsize = rng.choice([4, 8])
        s = make_settings()
        s["nex.pid_size"] = pidsize
        keysize = rng.choice([16, 32]); s["kerberos.key_size"] = keysize
        pid = rng.choice([0, 1, 0xFFFFFFFF, 100, rng.randint(0, 0xFFFFFFFF)]) if pidsize == 4 or rng.random() < .5 else rng.choice([0xFFFFFFFFFFFFFFFF, 1 << 32, rng.randint(0, (1 << 64) - 1)])
        if rng.random() < 0.05: pid = (1 << (8 * pidsize))            # out of range -> struct.error
        cid = rng.choice([0, 1, 0xFFFFFFFF, rng.randint(0, 0xFFFFFFFF)])
        check = rng.choice([0, 1, 0xFFFFFFFE, 0xFFFFFFFF, rng.randint(0, 0xFFFFFFFF)])
        sk = rng.randbytes(keysize) if rng.random() < 0.9 else b""
        server_key = rng.randbytes(16)
        st = kerberos.ServerTicket(); st.timestamp = common.DateTime.now(); st.source = pid; st.session_key = sk
        internal = safe(st.encrypt, server_key, s)
        if not isinstance(internal, bytes): internal = rng.randbytes(rng.randint(0, 60))
        ticket = kerberos.ClientTicket(); ticket.session_key = sk; ticket.internal = internal
        me = types.SimpleNamespace(credentials=kerberos.Credentials(ticket, pid, cid), settings=s, connection_check=check)
        req = safe(prudp.PRUDPClient.build_connection_request, me)
        rp = {"pid_size": pidsize, "pid": pid, "cid": cid, "connection_check": check, "session_key": sk.hex(), "ticket": internal.hex()}
        add("connreq %d %d %d %d %s %s" % (pidsize, pid, cid, check, hx(sk), hx(internal)), res(req), "connection-request", rp)
        # the real server parses the real request and answers; the reference predicts the answer
        if isinstance(req, bytes):
            logged = []
            srv = types.SimpleNamespace(key=server_key, settings=s)
            client = types.SimpleNamespace(login=lambda *a: logged.append(a))
            resp = safe(prudp.PRUDPServerStream.process_login_request, srv, req, client, *([True] if nparams >= 4 else []))
            add("connresp %d" % check, hx(resp) if isinstance(resp, bytes) else "err " + exc_name(resp), "connection-response", rp)
            if isinstance(resp, bytes) and logged and (logged[0][0], logged[0][1], logged[0][2]) != (pid, cid, sk):
                ctx.violation("connection-request-fields", "the real server extracted different pid/cid/session key from the real client's request", rp)
            for data in [resp if isinstance(resp, bytes) else b"", struct.pack("<II", 4, check), struct.pack("<II", 5, (check + 1) & 0xFFFFFFFF), b"", bytes(7), bytes(9),
                         struct.pack("<II", 4, (check + 1) & 0xFFFFFFFF), struct.pack("<II", 4, (check + 2) & 0xFFFFFFFF)]:
                r = safe(prudp.PRUDPClient.check_connection_response, me, data)
                add("chkresp %d %s" % (check, hx(data)), "err " + exc_name(r) if isinstance(r, Exception) else "ok", "connection-response-check", dict(rp, response=data.hex()))
            anon = types.SimpleNamespace(credentials=None, settings=s, connection_check=check)
            for data in (b"", b"\0"):
                r = safe(prudp.PRUDPClient.check_connection_response, anon, data)
                add("chkresp none %s" % hx(data), "err " + exc_name(r) if isinstance(r, Exception) else "ok", "connection-response-check", {"credentials": None, "response": data.hex()})

    # ---- run the reference ---------------------------------------------------------------------------------
    outs = drv.batch(lines)
    ndiff = 0
    class_diffs = 0
    sample_every = max(1, len(lines) // 6)
    emitted = []
    for idx, (line, real, model, (kind, rp)) in enumerate(zip(lines, reals, outs, meta)):
        ctx.case(key=hash(line), nontrivial=True, tag=kind + ":" + ("err" if model.startswith("err") else "ok"),
                 sample={"op": line[:160], "reference": model[:160], "real": real[:160]} if idx % sample_every == 0 else None)
        if kind.endswith("-datagram") and model.startswith("ok "):
            emitted.append((line, model[3:], rp))
        if real != model:
            if real.startswith("err ") and model.startswith("err "):
                class_diffs += 1
                continue
            ndiff += 1
            if ndiff <= 8:
                ctx.violation("wire-mismatch:" + kind, "%s: the real code and the protocol reference disagree (real %s, reference %s)" % (kind, real[:80], model[:80]),
                              {"kind": kind, "input": rp, "reference_op": line[:6000], "real": real[:6000], "reference": model[:6000]})
    ctx.traces_validated = len(lines)

    # ---- reverse direction: reference-produced datagrams are accepted by the real decoders with the same fields ----
    nrev = 0
    for line, data_hex, rp in emitted:
        data = unhx(data_hex)
        w = line.split(" ")
        if w[0] == "v0emit":
            sv, cv, fv = int(w[1]), int(w[2]), int(w[3]); key = rp["access_key"]
            c = prudp.PRUDPMessageV0(make_settings(sv=sv, cv=cv, fv=fv, key=key)); pk = w[7:]
            sk, cs = unhx(w[5]), unhx(w[6])
        elif w[0] == "v1emit":
            c = prudp.PRUDPMessageV1(make_settings(key=rp["access_key"])); pk = w[4:]; sk, cs = unhx(w[2]), unhx(w[3])
        else:
            c = prudp.PRUDPLiteMessage(make_settings(transport=2, key=rp["access_key"])); pk = w[3:]; sk, cs = b"", unhx(w[2])
        ps = safe(c.decode, data)
        nrev += 1
        ok = not isinstance(ps, Exception) and len(ps) == 1
        if ok:
            got = fmt_packet(ps[0]).split(" ")
            want = list(pk)
            sig_real = safe_b(c.calc_packet_signature, ps[0], sk, cs)
            if w[0] == "liteemit":
                # lite carries the signature on the wire only in a CONNECT without ACK
                carried = sig_real if (ps[0].type == 1 and not ps[0].flags & 1) else None
                ok = got[:16] == want[:16] and got[17] == want[17] and ps[0].signature == carried
            else:
                ok = got[:16] == want[:16] and got[17] == want[17] and ps[0].signature == sig_real
        ctx.case(key=hash(data_hex), nontrivial=True, tag="reverse:" + w[0] + (":accepted" if ok else ":REJECTED"))
        if not ok:
            ctx.violation("reference-datagram-rejected:" + w[0], "a datagram produced by the protocol reference is not decoded to the same fields / signature by the real code",
                          {"input": rp, "datagram": data_hex, "real": res_dec_safe(ps)})
    # ---- reference-produced packets aggregated in one datagram (a conforming peer may do that; the library never does): each
    # must decode to the same fields, and carry the same signature, as when it travels alone
    groups = {}
    for line, data_hex, rp in emitted:
        w = line.split(" ")
        cfgk = (w[0],) + (tuple(w[1:4]) if w[0] == "v0emit" else ()) + (rp["access_key"],)
        groups.setdefault(cfgk, []).append((line, data_hex, rp))
    nagg = 0
    for cfgk, items in sorted(groups.items(), key=lambda kv: repr(kv[0])):
        if len(items) < 2: continue
        for rep in range(12 if quick else 120):
            k = ctx.rng.choice([2, 2, 3, 4])
            pick = [ctx.rng.choice(items) for _ in range(k)]
            if cfgk[0] == "v0emit":
                c = prudp.PRUDPMessageV0(make_settings(sv=int(cfgk[1]), cv=int(cfgk[2]), fv=int(cfgk[3]), key=cfgk[-1]))
            elif cfgk[0] == "v1emit":
                c = prudp.PRUDPMessageV1(make_settings(key=cfgk[-1]))
            else:
                c = prudp.PRUDPLiteMessage(make_settings(transport=2, key=cfgk[-1]))
            singles = []
            usable = True
            for i, (line, data_hex, rp) in enumerate(pick):
                one = safe(c.decode, unhx(data_hex)) if cfgk[0] != "liteemit" else safe(prudp.PRUDPLiteMessage(make_settings(transport=2, key=cfgk[-1])).decode, unhx(data_hex))
                if isinstance(one, Exception) or len(one) != 1: usable = False; break
                # v0: only a packet that states its size can be followed by another one
                if cfgk[0] == "v0emit" and i < k - 1 and not one[0].flags & 8: usable = False; break
                singles.append(fmt_packet(one[0]))
            if not usable: continue
            data = b"".join(unhx(d) for _, d, _ in pick)
            dec = prudp.PRUDPLiteMessage(make_settings(transport=2, key=cfgk[-1])) if cfgk[0] == "liteemit" else c
            got = safe(dec.decode, data)
            nagg += 1
            ok = not isinstance(got, Exception) and [fmt_packet(p) for p in got] == singles
            ctx.case(key=("aggregate", hash(data)), nontrivial=True, tag="reverse-aggregated:" + cfgk[0] + (":accepted" if ok else ":REJECTED"))
            if ok and cfgk[0] == "liteemit":
                # a stream transport delivers the reference's bytes in whatever pieces it likes: the same packets at every cut in two
                cuts = range(1, len(data)) if len(data) <= 400 else sorted(ctx.rng.sample(range(1, len(data)), 400))
                for cut in cuts:
                    d2 = prudp.PRUDPLiteMessage(make_settings(transport=2, key=cfgk[-1]))
                    g2 = safe(lambda: d2.decode(data[:cut]) + d2.decode(data[cut:]))
                    ok2 = not isinstance(g2, Exception) and [fmt_packet(p) for p in g2] == singles and not d2.buffer
                    ctx.case(key=("segmented", hash(data), cut), nontrivial=True, tag="reverse-segmented:liteemit" + (":accepted" if ok2 else ":REJECTED"))
                    if not ok2:
                        ctx.violation("reference-stream-rejected:segmented:liteemit",
                                      "%d lite packets produced by the protocol reference (%d bytes), delivered by the stream in two reads cut at byte %d, are not decoded by the real code as they are one by one (%s)"
                                      % (k, len(data), cut, repr(g2)[:120] if isinstance(g2, Exception) else "%d packets, fields or residual buffer differ" % len(g2)),
                                      {"config": list(cfgk), "datagrams": [d for _, d, _ in pick], "cut": cut, "real": res_dec_safe(g2)})
                        break
            if not ok:
                ctx.violation("reference-datagram-rejected:aggregated:" + cfgk[0],
                              "%d packets produced by the protocol reference, aggregated in one datagram, are not decoded by the real code as they are one by one (%s)"
                              % (k, repr(got)[:120] if isinstance(got, Exception) else "%d packets, fields differ" % len(got)),
                              {"config": list(cfgk), "datagrams": [d for _, d, _ in pick], "real": res_dec_safe(got)})
    ctx.extra["reverse_direction_aggregated_datagrams"] = nagg
    # ---- whole sessions: every datagram the two real endpoints emit vs the reference endpoint (the Lean L1 model, whose signature
    # and key functions are proved equal to the reference functions used above: NxProps/C08 l1_*), including everything emitted
    # after the k-th datagram of the session was lost once (retransmitted SYN / CONNECT and their acknowledgements with the
    # Kerberos connection response, retransmitted data, late acknowledgements)
    import multiprocessing, os
    import l1_corr
    drv2 = ctx.driver("C02")
    jobs = []
    for version, v0 in ((1, (0, 0, 0)), (0, (0, 1, 1)), (0, (1, 0, 0))):
        for creds in (True, False):
            for k in (range(0, 9) if quick else range(0, 25)):
                jobs.append((version, v0, creds, k, ctx.rng.getrandbits(16)))
    # the same against a server configured for both encodings (prudp.version = 2): each peer is served in the encoding it speaks
    for version, v0 in ((0, (0, 1, 1)), (1, (0, 1, 1)), (0, (1, 0, 0))):
        for creds in (True, False):
            for k in ((0, 3, 6) if quick else range(0, 25, 2)):
                jobs.append((version, v0, creds, k, ctx.rng.getrandbits(16), True))
    # two endpoints that do not share a fragment size (it is a local sending parameter, not negotiated and no limit on what the peer
    # may put into one DATA packet): DATA payloads longer than the RECEIVER's own fragment size, in either direction
    for version, v0 in ((1, (0, 0, 0)), (0, (0, 1, 1)), (0, (1, 0, 0))):
        for fsizes in ((20, 9), (5, 9), (9, 4)):
            for k in ((0, 6) if quick else range(0, 25, 3)):
                jobs.append((version, v0, False, k, ctx.rng.getrandbits(16), False, fsizes))
    nsess = nsd = 0
    with multiprocessing.Pool(min(16, os.cpu_count() or 4)) as pool:
        for job, sess, err in pool.imap_unordered(session_job, jobs, chunksize=2):
            if err:
                ctx.corr_break("c08-session-harness", "session crashed in the harness", {"traceback": err, "job": list(job)})
                continue
            r = l1_corr.compare(drv2, sess, "x")
            nsess += 1
            ctx.case(key=("session",) + tuple(job[:4]) + (len(job),) + tuple(job[6:]), nontrivial=True, tag="session:v%d%s%s:%s:lost-%d" % (job[0], "-at-dual-stack-server" if len(job) > 5 and job[5] else "", ":fragment-sizes-%d/%d" % job[6] if len(job) > 6 else "", "creds" if job[2] else "nocreds", job[3]))
            if not r["ok"]:
                nsd += 1
                d = r["diffs"][0]
                if nsd <= 4:
                    ctx.violation("wire-mismatch:session:v%d" % job[0],
                                  ("session (prudp v%d" + (" client at a server configured for both encodings" if len(job) > 5 and job[5] else "") + (", fragment size client %d / server %d" % job[6] if len(job) > 6 else "") + ", v0 variant %r, %s credentials, genuine datagram #%d lost once): what the real endpoint '%s' emits differs from the protocol reference: %s")
                                  % (job[0], job[1], "with" if job[2] else "without", job[3], d.get("endpoint"), json.dumps(d, default=repr)[:600]),
                                  {"job": list(job), "first_difference": d, "how": "harness/corr_C08.py session_job(job) then l1_corr.compare(driver C02, session)"})
    ctx.extra["sessions_replayed"] = nsess
    ctx.extra["session_mismatches"] = nsd
    ctx.extra["reference_lines"] = len(lines)
    ctx.extra["mismatches"] = ndiff
    ctx.extra["exception_class_only_diffs"] = class_diffs
    ctx.extra["reverse_direction_datagrams"] = nrev
    ctx.assumptions.append("zlib.compress output is an oracle input of the reference (deflate cannot be reproduced byte for byte), validated on every use: it must inflate to the payload under the reference's own inflater (NxModel/Crypto/Inflate.lean, RFC 1950/1951), which replaces zlib.decompress on the decode side and is itself compared with zlib.decompress on valid streams of every level / strategy / window size / flush mode and on truncated, bit-flipped, re-headed and over-long ones; the ratio byte and framing are computed by the reference")
    ctx.assumptions.append("'equals the published protocol' is differential by nature: the Lean reference is fixed and self-consistent (theorems), its agreement with prudp.py is sampled (exhaustive on the small axes)")


def session_job(job):
    import traceback, random
    import prudp_session as psess
    version, v0, creds, k, seed = job[:5]
    dual = len(job) > 5 and job[5]
    try:
        cfg = psess.Cfg(version=version, v0=v0, credentials=creds, fragment_size=9, resend_timeout=0.5, resend_limit=3, max_substream=(1 if version else 0))
        cfg_s = psess.Cfg(**dict(cfg.describe(), version=2)) if dual else None      # a server that takes v0 and v1 peers on one port
        if len(job) > 6:
            cfg = psess.Cfg(**dict(cfg.describe(), fragment_size=job[6][0]))
            cfg_s = psess.Cfg(**dict(cfg.describe(), fragment_size=job[6][1]))
        rng = random.Random(seed)
        script = [[("c", 0, rng.randbytes(20)), ("s", 0, rng.randbytes(9)), ("c", 0, ("u", rng.randbytes(5)))],
                  [("s", (1 if version else 0), rng.randbytes(3)), ("c", 0, rng.randbytes(1))]]
        fate = lambda sim, r: (lambda tx: [] if tx.g == k else [0.01])
        sess = psess.run_session(cfg, seed, script, fate, phases_gap=1.0, cfg_s=cfg_s)
        sess.transport = None
        return job, sess, None
    except Exception:
        return job, None, traceback.format_exc()


def safe_b(fn, *a):
    r = safe(fn, *a)
    return r if isinstance(r, (bytes, type(None))) else b"\xee" + exc_name(r).encode()


def res_dec_safe(ps):
    if isinstance(ps, Exception): return "err " + exc_name(ps)
    try: return fmt_packets(ps)[:400]
    except Exception: return "?"


def replay(ctx, path):
    r = json.load(open(path))
    print(json.dumps({k: (v if len(repr(v)) < 600 else repr(v)[:600]) for k, v in r.items()}, indent=1))
    return 0
