import NxModel.Bytes
import NxModel.Nex.RmcServer
/-!
# Reading the parameters of an RMC request — the NESTED framing of a request body (C11)

Mirrors what a generated `handle_<method>` does before it calls the user's method: the `input.<type>(...)` statements, i.e.
`nintendo/nex/streams.py` `StreamIn` (on top of `anynet.streams.StreamIn`), `common.Structure.decode` (with and without
structure headers), `common.DataHolder.decode` and the `load` bodies of the structure classes.

The *schema* (types of the parameters, per structure class the fields each class of its hierarchy loads, with the
`if version >= k:` gates; `nex.version` gates are evaluated for the session) is read from the code under test with `ast`
by `harness/rmc_frames.py`; this file is the interpreter.

Framing facts mirrored here (they are what the property's "truncated request body" means below the top level):
* `stream.substream()` = `StreamIn(self.buffer(), settings)`: the `u32 size` bytes are *copied*; everything read from the
  substream is bounded by them, whatever follows in the outer stream (`decBuf` + continuing with the copy only);
* with structure headers every class of a structure's hierarchy is `u8 version, u32 size, size bytes`; bytes of the frame
  the fields do not consume are skipped (warning only), a frame the fields do not fit in is an `OverflowError`;
* `anydata`: name, `substream().substream()` (outer and inner length), then `object_map[name]` (`KeyError`), then the
  structure is read from the inner copy;
* list / map: `u32` count, then that many elements; strings: `u16` length (0 = `None`), strict UTF-8, last character dropped.
-/
namespace Nx.RmcRequest
open Nx

inductive Ty where
  | u8 | u16 | u32 | u64 | s8 | s16 | s32 | s64 | float | double | bool
  | string | buffer | qbuffer | datetime | stationurl | result | variant | anydata
  | list (t : Ty) | map (k v : Ty) | struct (id : Nat)
  deriving DecidableEq, Repr

/-- the body of a `load(self, stream, version)`: attribute assignments and `if version >= k:` blocks, in order -/
inductive Items where
  | nil
  | field (t : Ty) (rest : Items)
  | rev (k : Nat) (body rest : Items)
  deriving DecidableEq, Repr

structure Env where
  structs : List (Nat × List Items)   -- class id ↦ the `load` bodies of its hierarchy, base class first
  registry : List (Bytes × Nat)       -- `DataHolder.object_map`: name (UTF-8 bytes) ↦ class id

inductive Val where
  | none | int (i : Int) | bool (b : Bool) | str (s : Bytes) | bytes (b : Bytes)
  | f32 (bits : Nat) | f64 (bits : Nat) | dt (v : Nat) | res (v : Nat) | url
  | list (l : List Val) | map (l : List (Val × Val))
  | obj (fields : List Val)                      -- attributes in the order they were loaded (gated-out ones are not loaded)
  | any (name : Bytes) (fields : List Val)
  deriving Repr, Inhabited

/-! ## UTF-8 (Python's strict decoder), `[:-1]`, `StationURL.parse` -/

def cont (x : UInt8) : Bool := 0x80 ≤ x.toNat && x.toNat ≤ 0xBF
def inR (lo hi : Nat) (x : UInt8) : Bool := lo ≤ x.toNat && x.toNat ≤ hi

def utf8Valid : Bytes → Bool
  | [] => true
  | a :: r =>
    if a.toNat < 0x80 then utf8Valid r
    else if inR 0xC2 0xDF a then
      match r with | b :: r => cont b && utf8Valid r | _ => false
    else if inR 0xE0 0xEF a then
      match r with
      | b :: c :: r =>
        (if a.toNat = 0xE0 then inR 0xA0 0xBF b else if a.toNat = 0xED then inR 0x80 0x9F b else cont b) && cont c && utf8Valid r
      | _ => false
    else if inR 0xF0 0xF4 a then
      match r with
      | b :: c :: d :: r =>
        (if a.toNat = 0xF0 then inR 0x90 0xBF b else if a.toNat = 0xF4 then inR 0x80 0x8F b else cont b) && cont c && cont d
          && utf8Valid r
      | _ => false
    else false

/-- the UTF-8 bytes of `s[:-1]` for valid UTF-8 `s` -/
def dropLastChar (b : Bytes) : Bytes := ((b.reverse.dropWhile cont).drop 1).reverse

/-- `s.split(sep)` for a one- or two-byte separator -/
def splitGo (sep : Bytes) : Nat → Bytes → Bytes → List Bytes
  | 0, _, acc => [acc.reverse]
  | _, [], acc => [acc.reverse]
  | f + 1, x :: r, acc =>
    if sep.isPrefixOf (x :: r) ∧ !sep.isEmpty then acc.reverse :: splitGo sep f ((x :: r).drop sep.length) []
    else splitGo sep f r (x :: acc)

def split (sep s : Bytes) : List Bytes := splitGo sep (s.length + 1) s []

def asciiBytes (s : String) : Bytes := s.toList.map fun c => b8 c.toNat

/-- `StationURL.parse(string)`: `scheme, fields = string.split(":/")` and `dict(field.split("=") for field in
    fields.split(";"))` are `ValueError`s unless there are exactly two parts; `cls(scheme, **params)` is a `TypeError`
    for a parameter called `scheme` / `self` -/
def parseUrl : Option Bytes → Except Err Unit
  | none => .ok ()
  | some s =>
    if s.isEmpty then .ok () else
    match split (asciiBytes ":/") s with
    | [_, fields] =>
      if fields.isEmpty then .ok () else
      let kvs := (split (asciiBytes ";") fields).map (split (asciiBytes "="))
      if kvs.any (fun kv => kv.length != 2) then .error .value
      else if kvs.any (fun kv => kv.head? == some (asciiBytes "scheme") || kv.head? == some (asciiBytes "self")) then .error .type
      else .ok ()
    | _ => .error .value

/-! ## readers

A reader takes the bytes that are left and returns a value and the bytes left after it, or the exception. All readers
below are built from `rd` / `rdU8..64` with `seq` (do this, then that on what is left), `lift` (a computation that does not
touch the stream — e.g. everything done on the COPY a `substream()` made) and `map`: that is what makes the framing
theorems (`NxProofs/RmcRequest.lean`: `Local`) compositional. -/

abbrev Rd (α : Type) := Bytes → Except Err (α × Bytes)

def Rd.pure {α : Type} (a : α) : Rd α := fun b => .ok (a, b)
def Rd.fail {α : Type} (e : Err) : Rd α := fun _ => .error e
def Rd.lift {α : Type} (x : Except Err α) : Rd α := fun b => match x with | .ok a => .ok (a, b) | .error e => .error e
def Rd.seq {α β : Type} (f : Rd α) (g : α → Rd β) : Rd β := fun b =>
  match f b with
  | .error e => .error e
  | .ok (a, r) => g a r
def Rd.map {α β : Type} (h : α → β) (f : Rd α) : Rd β := f.seq fun a => Rd.pure (h a)

/-- `stream.read(n)` -/
def rdN (n : Nat) : Rd Bytes := rd n

/-- `StreamIn.string`: `none` = Python `None`; strict UTF-8, then `[:-1]` -/
def decStr : Rd (Option Bytes) :=
  Rd.seq rdU16 fun n =>
    if n = 0 then Rd.pure none
    else Rd.seq (rdN n) fun d => if utf8Valid d then Rd.pure (some (dropLastChar d)) else Rd.fail .unicode

/-- `stream.buffer()` — also the first half of `stream.substream()`, which wraps these bytes (a copy) in a new stream -/
def decBuf : Rd Bytes := Rd.seq rdU32 rdN
def decQBuf : Rd Bytes := Rd.seq rdU16 rdN

def signed (bits n : Nat) : Int := if n ≥ 2 ^ (bits - 1) then (n : Int) - (2 : Int) ^ bits else (n : Int)

def strVal : Option Bytes → Val | some s => .str s | none => .none

def decVariant : Rd Val :=
  Rd.seq rdU8 fun t =>
    if t = 0 then Rd.pure .none
    else if t = 1 then Rd.map (fun (n : Nat) => Val.int (signed 64 n)) rdU64
    else if t = 2 then Rd.map Val.f64 rdU64
    else if t = 3 then Rd.map (fun (n : Nat) => Val.bool (n != 0)) rdU8
    else if t = 4 then Rd.map strVal decStr
    else if t = 5 then Rd.map Val.dt rdU64
    else if t = 6 then Rd.map (fun (n : Nat) => Val.int n) rdU64
    else Rd.fail .value

/-- `[func() for i in range(count)]` -/
def decList (f : Rd Val) : Nat → Rd (List Val)
  | 0 => Rd.pure []
  | n + 1 => Rd.seq f fun v => Rd.map (v :: ·) (decList f n)

def decPairs (fk fv : Rd Val) : Nat → Rd (List (Val × Val))
  | 0 => Rd.pure []
  | n + 1 => Rd.seq fk fun k => Rd.seq fv fun v => Rd.map ((k, v) :: ·) (decPairs fk fv n)

/-- reading a whole structure instance of class `id` (`stream.extract(cls)`): supplied by `decObj` -/
abbrev Hook := Nat → Rd (List Val)

def lookupName (reg : List (Bytes × Nat)) (s : Bytes) : Option Nat :=
  match reg with
  | [] => none
  | (n, id) :: r => if n = s then some id else lookupName r s

/-- `DataHolder.decode` once the name and the outer frame have been taken from the stream: everything else happens on
    copies — the inner frame is cut from the outer one, `object_map[name]` is looked up, the structure is read from the
    inner copy (whatever of either copy is left over is ignored) -/
def holderBody (R : Hook) (env : Env) (nm : Option Bytes) (outer : Bytes) : Except Err Val :=
  match decBuf outer with
  | .error e => .error e
  | .ok (inner, _) =>
    match nm with
    | none => .error .key
    | some s =>
      match lookupName env.registry s with
      | none => .error .key
      | some id =>
        match R id inner with
        | .error e => .error e
        | .ok (fs, _) => .ok (.any s fs)

def decTy (R : Hook) (env : Env) : Ty → Rd Val
  | .u8 => Rd.map (fun (n : Nat) => Val.int n) rdU8
  | .u16 => Rd.map (fun (n : Nat) => Val.int n) rdU16
  | .u32 => Rd.map (fun (n : Nat) => Val.int n) rdU32
  | .u64 => Rd.map (fun (n : Nat) => Val.int n) rdU64
  | .s8 => Rd.map (fun (n : Nat) => Val.int (signed 8 n)) rdU8
  | .s16 => Rd.map (fun (n : Nat) => Val.int (signed 16 n)) rdU16
  | .s32 => Rd.map (fun (n : Nat) => Val.int (signed 32 n)) rdU32
  | .s64 => Rd.map (fun (n : Nat) => Val.int (signed 64 n)) rdU64
  | .float => Rd.map Val.f32 rdU32
  | .double => Rd.map Val.f64 rdU64
  | .bool => Rd.map (fun (n : Nat) => Val.bool (n != 0)) rdU8
  | .string => Rd.map strVal decStr
  | .buffer => Rd.map Val.bytes decBuf
  | .qbuffer => Rd.map Val.bytes decQBuf
  | .datetime => Rd.map Val.dt rdU64
  | .result => Rd.map Val.res rdU32
  | .stationurl => Rd.seq decStr fun s => Rd.lift (match parseUrl s with | .ok () => .ok Val.url | .error e => .error e)
  | .variant => decVariant
  | .list t => Rd.seq rdU32 fun n => Rd.map Val.list (decList (decTy R env t) n)
  | .map k v => Rd.seq rdU32 fun n => Rd.map Val.map (decPairs (decTy R env k) (decTy R env v) n)
  | .struct id => Rd.map Val.obj (R id)
  | .anydata => Rd.seq decStr fun nm => Rd.seq decBuf fun outer => Rd.lift (holderBody R env nm outer)

/-- a `load` body run with the given `version` -/
def decItems (R : Hook) (env : Env) (ver : Nat) : Items → Rd (List Val)
  | .nil => Rd.pure []
  | .field t rest => Rd.seq (decTy R env t) fun v => Rd.map (v :: ·) (decItems R env ver rest)
  | .rev k body rest =>
    if ver ≥ k then Rd.seq (decItems R env ver body) fun vs => Rd.map (vs ++ ·) (decItems R env ver rest)
    else decItems R env ver rest

/-- `load` on the COPY of a frame: the attribute values, or the exception; bytes the fields leave over are ignored
    ("Struct has unexpected size": a warning only) -/
def loadFrame (R : Hook) (env : Env) (ver : Nat) (items : Items) (frame : Bytes) : Except Err (List Val) :=
  match decItems R env ver items frame with
  | .error e => .error e
  | .ok (vs, _) => .ok vs

/-- one iteration of the hierarchy loop of `Structure.decode`: with structure headers the class's part is a frame
    `u8 version, u32 size, size bytes` and `load` reads from a COPY of those `size` bytes -/
def decLevel (R : Hook) (env : Env) (hdr : Bool) (items : Items) : Rd (List Val) :=
  if hdr then Rd.seq rdU8 fun ver => Rd.seq decBuf fun frame => Rd.lift (loadFrame R env ver items frame)
  else decItems R env 0 items

def decLevels (R : Hook) (env : Env) (hdr : Bool) : List Items → Rd (List Val)
  | [] => Rd.pure []
  | l :: ls => Rd.seq (decLevel R env hdr l) fun vs => Rd.map (vs ++ ·) (decLevels R env hdr ls)

def lookupStruct (structs : List (Nat × List Items)) (id : Nat) : Option (List Items) :=
  match structs with
  | [] => none
  | (i, ls) :: r => if i = id then some ls else lookupStruct r id

/-- `stream.extract(cls)`; the fuel bounds the nesting depth of structure instances (never reached by the harness) -/
def decObj (env : Env) (hdr : Bool) : Nat → Hook
  | 0, _ => Rd.fail .other
  | f + 1, id =>
    match lookupStruct env.structs id with
    | none => Rd.fail .other
    | some levels => decLevels (decObj env hdr f) env hdr levels

def fuel : Nat := 64

/-- the `input.<type>(...)` statements of a generated handler, in order -/
def decArgs (R : Hook) (env : Env) : List Ty → Rd (List Val)
  | [] => Rd.pure []
  | t :: ts => Rd.seq (decTy R env t) fun v => Rd.map (v :: ·) (decArgs R env ts)

/-- what reading the parameters of a request with body `b` does: the argument values, or the exception
    (left-over input is not looked at) -/
def readRequest (env : Env) (hdr : Bool) (tys : List Ty) (b : Bytes) : Except Err (List Val) :=
  match decArgs (decObj env hdr fuel) env tys b with
  | .error e => .error e
  | .ok (vs, _) => .ok vs

/-- how the `except` clauses of `handle_request` see the reader's exception -/
def excOf : Err → RmcServer.Exc
  | .key => .keyError
  | .type => .typeError
  | .index => .indexError
  | _ => .other

/-- the `extract` argument of `RmcServer.generatedHandle` / `invoked` / `dispatch`, computed from the request's own body -/
def extractOf (env : Env) (hdr : Bool) (tys : List Ty) (body : Bytes) : Option RmcServer.Exc :=
  match readRequest env hdr tys body with
  | .ok _ => none
  | .error e => some (excOf e)

/-- the PythonCore error code (with the error bit) the reader's exception is answered with -/
def errCode : Err → Nat
  | .key => 0x80040007
  | .type => 0x80040002
  | .index => 0x80040003
  | _ => 0x80040001

end Nx.RmcRequest
