import NxModel.Misc.Mii
import NxModel.Misc.Auth
import NxModel.Misc.AuthClients
import NxModel.DriverUtil
/-! line-protocol driver for C19 (bytes in hex, `-` = empty; text as comma-separated code points; see harness/corr_C19.py)
-/
open Nx Nx.Crypto Nx.Misc

def natList? (s : String) : Option (List Nat) :=
  if s = "-" then some [] else (s.splitOn ",").mapM String.toNat?

def showNatList (l : List Nat) : String := if l.isEmpty then "-" else ",".intercalate (l.map toString)

def parseVal (s : String) : Option Val :=
  if s.startsWith "l:" then (natList? (s.drop 2).toString |>.map Val.l) else s.toNat?.map Val.n

def showVal : Val → String
  | .n v => toString v
  | .l vs => "l:" ++ showNatList vs

def exc {α} (f : α → String) : Except Err α → String
  | .ok a => "ok " ++ f a
  | .error e => "err " ++ e.name

def hx (s : String) : Option Bytes := fromHex s

def hexS (s : String) : Bytes := (fromHex s).getD []

def selfTests : List (String × Bool) :=
  let pt := hexS "00112233445566778899aabbccddeeff"
  let ck := hexS "2b7e151628aed2a6abf7158809cf4f3c"
  let m := hexS "6bc1bee22e409f96e93d7e117393172aae2d8a571e03ac9c9eb76fac45af8e5130c81c46a35ce411e5fbc1191a0a52eff69f2445df4f9b17ad2b417be66c3710"
  let keyN (n : Nat) : Bytes := (List.range n).map UInt8.ofNat
  [ ("fips197-c1-enc", aesEcbEncrypt (keyN 16) pt = .ok (hexS "69c4e0d86a7b0430d8cdb78070b4c55a")),
    ("fips197-c2-enc", aesEcbEncrypt (keyN 24) pt = .ok (hexS "dda97ca4864cdfe06eaf70a0ec0d7191")),
    ("fips197-c3-enc", aesEcbEncrypt (keyN 32) pt = .ok (hexS "8ea2b7ca516745bfeafc49904b496089")),
    ("fips197-c1-dec", aesEcbDecrypt (keyN 16) (hexS "69c4e0d86a7b0430d8cdb78070b4c55a") = .ok pt),
    ("fips197-c2-dec", aesEcbDecrypt (keyN 24) (hexS "dda97ca4864cdfe06eaf70a0ec0d7191") = .ok pt),
    ("fips197-c3-dec", aesEcbDecrypt (keyN 32) (hexS "8ea2b7ca516745bfeafc49904b496089") = .ok pt),
    ("fips197-sbox", subByte 0x53 = 0xed ∧ subByte 0 = 0x63 ∧ invSubByte 0xed = 0x53),
    ("rfc4493-0", aesCmac ck [] = .ok (hexS "bb1d6929e95937287fa37d129b756746")),
    ("rfc4493-16", aesCmac ck (m.take 16) = .ok (hexS "070a16b46b4d4144f79bdd9dd04a287c")),
    ("rfc4493-40", aesCmac ck (m.take 40) = .ok (hexS "dfa66747de9ae63030ca32611497c827")),
    ("rfc4493-64", aesCmac ck m = .ok (hexS "51f0bebf7e3b9d92fc49741779363cfe")),
    ("fips180-abc", sha256 (ascii "abc") = hexS "ba7816bf8f01cfea414140de5dae2223b00361a396177a9cb410ff61f20015ad"),
    ("fips180-empty", sha256 [] = hexS "e3b0c44298fc1c149afbf4c8996fb92427ae41e4649b934ca495991b7852b855"),
    ("fips180-448", sha256 (ascii "abcdbcdecdefdefgefghfghighijhijkijkljklmklmnlmnomnopnopq") =
        hexS "248d6a61d20638b8e5c026930c3e6039a33ce45964ff2167f6ecedd419db06c1"),
    ("crc-xmodem-check", xmodem (ascii "123456789") = 0x31C3),
    ("crc-arc-check", refCrc16Arc 0 (ascii "123456789") = 0xBB3D),
    ("rfc4648", b2a (ascii "foobar") = ascii "Zm9vYmFy" ∧ b2a (ascii "fooba") = ascii "Zm9vYmE=" ∧ b2a (ascii "foob") = ascii "Zm9vYg=="),
    -- the three request snapshots of tests/switch/test_dauth.py (1200 / 1300 / 1800)
    ("dauth-1200", dauthTokenMac (hexS "485d45ad27c07c7e538c0183f90ee845") (hexS "37eed242e0f2ce6f8371e783c1a6a0ae")
        ((ascii "dlL7ZBNSLmYo1hUlKYZiUA==").map (·.toNat))
        (dauthForm (ascii "vaNgVZZH7gUse0y3t8Cksuln-TAVtvBmcD-ow59qp0E=") 0x8f849b5d34778d8e false 11
          (ascii "CusHY#000c0000#C-BynYNPXdQJNBZjx02Hizi8lRUSIKLwPGa5p8EY1uo=") none) = .ok (ascii "xRB_6mgnNqrnF9DRsEpYMg")),
    ("dauth-1300", dauthTokenMac (hexS "cae2728f56af642d5d59dfc23bd314a2") (hexS "f1642c98bddb5850eb23d0cebab7dc05")
        ((ascii "4SxW91vqVg6pz4CXMH2Ouw==").map (·.toNat))
        (dauthForm (ascii "TzJ0EB3EvsWvQI5aPj15uaNVH9paGdsWB4l-eI5uzW0=") 0x8f849b5d34778d8e false 13
          (ascii "CusHY#000d0000#r1xneESd4PiTRYIhVIl0bK1ST5L5BUmv_uGPLqc4PPo=") none) = .ok (ascii "dGMjt0ShsDr-uNrsHtCB1g")),
    ("dauth-1800", dauthTokenMac (hexS "1092ce3d2c208c250ebe248537f2df73") (hexS "2fcb5dd5355a220a12eaeb8069bb75e1")
        ((ascii "4SxW91vqVg6pz4CXMH2Ouw==").map (·.toNat))
        (dauthForm (ascii "TzJ0EB3EvsWvQI5aPj15uaNVH9paGdsWB4l-eI5uzW0=") 0x8f849b5d34778d8e false 17
          (ascii "CusHY#00120000#U531L4Si9RbhOVeyVppe18WHkJ0k4_KzrNtygsekMNo=") none) = .ok (ascii "c4SgqSjdfdNFoRM35ChrLw")) ]

def pairs : List String → Option (List (Bytes × Bytes))
  | [] => some []
  | k :: v :: r => do
    let k ← hx k; let v ← hx v; let r ← pairs r
    pure ((k, v) :: r)
  | _ => none

def showPairs (l : List (Bytes × Bytes)) : String :=
  if l.isEmpty then "-" else " ".intercalate (l.map fun (k, v) => hexOut k ++ " " ++ hexOut v)

/-! one client object, a sequence of operations (see NxModel/Misc/AuthClients.lean) -/

def splitAt1 (s : String) (sep : String) : String × String :=
  match s.splitOn sep with
  | [] => ("", "")
  | a :: r => (a, sep.intercalate r)

def hppOp? (tok : String) : Option HppOp :=
  let (name, arg) := splitAt1 tok "="
  match name with
  | "ak" => (hx arg).map .setAccessKey
  | "pw" => (hx arg).map .setPassword
  | "pid" => arg.toNat?.map .setPid
  | "cid" => arg.toNat?.map .setCallId
  | "nop" => some .other
  | "req" => (hx arg).map .request
  | _ => none

def showHppSent (r : HppSent) : String :=
  s!"{r.callId}:{hexOut r.pidHeader}:{hexOut r.signature1}:{hexOut r.signature2}"

def dictPairs? (s : String) : Option Dict :=
  if s = "-" then some [] else
  (s.splitOn ",").mapM fun kv =>
    match kv.splitOn ":" with
    | [k, v] => do let k ← hx k; let v ← hx v; pure (k, v)
    | _ => none

def bool? (s : String) : Option Bool := if s = "1" then some true else if s = "0" then some false else none

def dauthOp? (tok : String) : Option DAuthOp :=
  let (name, arg) := splitAt1 tok "="
  match name with
  | "key" => match arg.splitOn ":" with
    | [k, v] => do let k ← hx k; let v ← hx v; pure (.setKey k v)
    | _ => none
  | "del" => (hx arg).map .delKey
  | "keys" => (dictPairs? arg).map .setKeys
  | "ver" => match arg.splitOn ":" with
    | [g, d, a] => do let g ← g.toNat?; let d ← hx d; let a ← bool? a; pure (.setVersion g d a)
    | _ => none
  | "kg" => arg.toNat?.map .setKeygen
  | "ist" => (bool? arg).map .setIst
  | "nop" => some .other
  | "tok" => match arg.splitOn "/" with
    | [e, ch, dt, cid, v] => do
      let e ← bool? e; let ch ← hx ch; let dt ← natList? dt; let cid ← cid.toNat?; let v ← hx v
      pure (.token e ch dt cid v)
    | _ => none
  | "mac" => match arg.splitOn "/" with
    | [f, d] => do let f ← hx f; let d ← hx d; pure (.mac f d)
    | _ => none
  | _ => none

def showDAuthOut : DAuthOut → String
  | .token (.ok (m, f)) => "ok:" ++ hexOut m ++ ":" ++ hexOut f
  | .token (.error e) => "err:" ++ e.name
  | .mac (.ok m) => "ok:" ++ hexOut m
  | .mac (.error e) => "err:" ++ e.name

def step (line : String) : String :=
  match (line.splitOn " ").filter (· ≠ "") with
  | "hpp-walk" :: ak :: pw :: pid :: ops =>
    match hx ak, hx pw, pid.toNat?, ops.mapM hppOp? with
    | some ak, some pw, some pid, some ops =>
      " ".intercalate ("ok" :: (hppRun (HppClient.fresh ak pw pid) ops).2.map showHppSent)
    | _, _, _, _ => "bad-op"
  | "dauth-walk" :: ops =>
    match ops.mapM dauthOp? with
    | some ops => " ".intercalate ("ok" :: (dauthRun ⟨[], 0, [], false, false⟩ ops).2.map showDAuthOut)
    | none => "bad-op"
  | ["selftest"] =>
    match selfTests.filter (fun t => !t.2) with
    | [] => s!"ok {selfTests.length}"
    | l => "fail " ++ ",".intercalate (l.map (·.1))
  | "mii-build" :: vals =>
    match vals.mapM parseVal with
    | some vs => exc hexOut (miiBuild vs)
    | none => "bad-op"
  | "mii-inrange" :: vals =>
    match vals.mapM parseVal with
    | some vs => if ValsInRange miiLayout vs then "ok true" else "ok false"
    | none => "bad-op"
  | ["mii-parse", d] =>
    match hx d with
    | some d => exc (fun vs => " ".intercalate (vs.map showVal)) (miiParse d)
    | none => "bad-op"
  | ["mii-swap", d] =>
    match hx d with
    | some d => exc hexOut (swapEndian d)
    | none => "bad-op"
  | ["mii-crc", d] =>
    match hx d with
    | some d => s!"ok {miiCrc16 d}"
    | none => "bad-op"
  | ["mii-crc-ref", d] =>   -- CRC-16/XMODEM of the data = the library's crc16 of data ++ 00 00
    match hx d with
    | some d => s!"ok {xmodem d}"
    | none => "bad-op"
  | ["mii-names"] => "ok " ++ " ".intercalate (miiLayout.map (·.name))
  | ["bits-write", ws, vs] =>   -- generic BitStreamOut: widths, values -> bytes
    match natList? ws, natList? vs with
    | some ws, some vs => "ok " ++ hexOut (packBits ((List.zipWith natToBits ws vs).flatten))
    | _, _ => "bad-op"
  | ["bits-read", ws, d] =>     -- generic BitStreamIn: widths, bytes -> values | overflow
    match natList? ws, hx d with
    | some ws, some d =>
      let rec go (ws : List Nat) (bs : Bits) (acc : List Nat) : String :=
        match ws with
        | [] => "ok " ++ showNatList acc.reverse
        | w :: r => if bs.length < w then "err OverflowError" else go r (bs.drop w) (bitsToNat (bs.take w) :: acc)
      go ws (unpackBits d) []
    | _, _ => "bad-op"
  | ["prod-crc", d] =>
    match hx d with
    | some d => s!"ok {prodCrc16 d} {refCrc16Arc 0x55AA d}"
    | none => "bad-op"
  | ["prod-check", off, size, d] =>
    match off.toNat?, size.toNat?, hx d with
    | some o, some s, some d => exc (fun _ => "-") (prodCheck d o s) ++ " | " ++ exc (fun _ => "-") (prodCheckRef d o s)
    | _, _, _ => "bad-op"
  | ["prod-devid", d] =>
    match hx d with
    | some d => exc toString (prodDeviceId d)
    | none => "bad-op"
  | ["prod-tlsd", kek, d] =>
    match hx kek, hx d with
    | some k, some d => exc toString (prodTlsD d k)
    | _, _ => "bad-op"
  | ["prod-cert", d] =>
    match hx d with
    | some d => exc hexOut (prodTlsCert d)
    | none => "bad-op"
  | ["prod-certchk", d] =>   -- only the checks of get_tls_cert (header CRC, length limit, SHA-256 over `length` bytes)
    match hx d with
    | some d => (match prodTlsCert d with | .ok _ => "ok" | .error e => "err " ++ e.name)
    | none => "bad-op"
  | ["b64-enc", d] => match hx d with | some d => "ok " ++ hexOut (b2a d) | none => "bad-op"
  | ["b64-dec", t] => match natList? t with | some t => exc hexOut (asciiOf t >>= a2b) | none => "bad-op"
  | ["url-enc", d] => match hx d with | some d => "ok " ++ hexOut (b64urlEncode d) | none => "bad-op"
  | ["url-enc-nopad", d] => match hx d with | some d => "ok " ++ hexOut (b64urlEncodeNoPad d) | none => "bad-op"
  | ["url-dec", t] => match natList? t with | some t => exc hexOut (asciiOf t >>= b64urlDecode) | none => "bad-op"
  | ["url-dec-repad", t] => match natList? t with | some t => exc hexOut (asciiOf t >>= b64urlDecodeRepad) | none => "bad-op"
  | ["nasc-enc", d] => match hx d with | some d => "ok " ++ hexOut (nascEncode d) | none => "bad-op"
  | ["nasc-dec", t] => match natList? t with | some t => exc hexOut (nascDecodeStr t) | none => "bad-op"
  | "nasc-form-enc" :: kv => match pairs kv with | some f => "ok " ++ showPairs (nascEncodeForm f) | none => "bad-op"
  | "nasc-form-dec" :: kv => match pairs kv with | some f => exc showPairs (nascDecodeForm f) | none => "bad-op"
  | ["dauth-keyname", g] => match g.toNat? with | some g => "ok " ++ hexOut (masterKeyName g) | none => "bad-op"
  | ["dauth-mac", kek, mk, data, form] =>
    match hx kek, hx mk, hx data, hx form with
    | some kek, some mk, some data, some form => exc hexOut (dauthMac kek mk data form)
    | _, _, _, _ => "bad-op"
  | ["dauth-token", kek, mk, dataText, challenge, cid, ist, keygen, digest, vendor] =>
    match hx kek, hx mk, natList? dataText, hx challenge, cid.toNat?, keygen.toNat?, hx digest with
    | some kek, some mk, some dt, some ch, some cid, some kg, some dg =>
      let v := if vendor = "none" then some none else (hx vendor).map some
      match v with
      | some v =>
        let form := dauthForm ch cid (ist = "1") kg dg v
        exc (fun m => hexOut m ++ " " ++ hexOut form) (dauthTokenMac kek mk dt form)
      | none => "bad-op"
    | _, _, _, _, _, _, _ => "bad-op"
  | ["aauth-env", n, e, ticket, tid, pk, seed] =>
    match n.toNat?, e.toNat?, hx ticket, tid.toNat?, hx pk, hx seed with
    | some n, some e, some t, some tid, some pk, some seed =>
      let n := if n = 0 then rsaModulus else n
      let e := if e = 0 then rsaExponent else e
      exc (fun (c, k) => hexOut c ++ " " ++ hexOut k) (aauthEnvelope n e t tid pk seed)
    | _, _, _, _, _, _ => "bad-op"
  | ["aauth-const"] => s!"ok {rsaModulus} {rsaExponent}"
  | ["hpp-sig", ak, pw, pid, data] =>
    match hx ak, hx pw, pid.toNat?, hx data with
    | some ak, some pw, some pid, some data =>
      let (a, b) := hppSignatures ak pw pid data
      "ok " ++ hexOut a ++ " " ++ hexOut b
    | _, _, _, _ => "bad-op"
  | ["hpp-val", cid, meth, resp] =>
    match cid.toNat?, meth.toNat?, hx resp with
    | some cid, some m, some r =>
      match hppValidate cid m r with
      | .body b => "body " ++ hexOut b
      | .rmcError c => s!"rmcerror {c}"
      | .err e => "err " ++ e.name
    | _, _, _ => "bad-op"
  | ["nnas", pid, pw] =>
    match pid.toNat?, natList? pw with
    | some pid, some pw => exc hexOut (nnasHash pid pw)
    | _, _ => "bad-op"
  | ["sha256", d] => match hx d with | some d => "ok " ++ hexOut (sha256 d) | none => "bad-op"
  | ["aes-ecb-dec", k, d] => match hx k, hx d with | some k, some d => exc hexOut (aesEcbDecrypt k d) | _, _ => "bad-op"
  | ["aes-cbc-enc", k, d] => match hx k, hx d with | some k, some d => exc hexOut (aesCbcEncrypt k (List.replicate 16 0) (pkcs7Pad d)) | _, _ => "bad-op"
  | ["aes-ctr", k, iv, d] => match hx k, hx iv, hx d with | some k, some iv, some d => exc hexOut (aesCtr k iv d) | _, _, _ => "bad-op"
  | ["cmac", k, d] => match hx k, hx d with | some k, some d => exc hexOut (aesCmac k d) | _, _ => "bad-op"
  | ["derive-old", b, p, pw, pid] =>
    match b.toNat?, p.toNat?, hx pw, pid.toNat? with
    | some b, some p, some pw, some pid => if p = 0 then "err ZeroDivisionError" else "ok " ++ hexOut (deriveOld b p pw pid)
    | _, _, _, _ => "bad-op"
  | _ => "bad-op"

def main : IO Unit := runLines step
