import NxModel.Bytes
/-!
# RMC message framing — mirrors `nintendo/nex/rmc.py` `RMCMessage.encode/decode`

Python object fields: mode (0 request / 1 response), protocol, method (None until set),
call_id, error (-1 = none), body.
-/
namespace Nx.Rmc
open Nx

structure Msg where
  mode : Nat            -- 0 = REQUEST, 1 = RESPONSE (anything else is treated like RESPONSE by the code)
  protocol : Nat
  method : Option Nat   -- Python `None` until assigned
  callId : Nat
  error : Int           -- -1 = no error
  body : Bytes
  deriving DecidableEq, Repr

/-- `error != -1 and error & 0x80000000` for a Python int. -/
def hasErrorBit (e : Int) : Bool :=
  e != -1 && (if e ≥ 0 then (e.toNat / 2147483648) % 2 == 1
              else ((e % 4294967296).toNat / 2147483648) % 2 == 1)

/-- the protocol-id prefix (`flag` = 0x80 for requests). -/
def encProtocol (protocol flag : Nat) : Except Err Bytes :=
  if protocol < 0x7F then .ok (u8 (protocol ||| flag))
  else if protocol < 65536 then .ok (u8 (0x7F ||| flag) ++ u16le protocol)
  else .error .struct

/-- `RMCMessage.encode`. Range failures of `struct.pack` are `.struct`, a missing method is `.type`. -/
def encode (m : Msg) : Except Err Bytes := do
  let flag := if m.mode = 0 then 0x80 else 0
  let p ← encProtocol m.protocol flag
  let rest ←
    if m.mode = 0 then
      match m.method with
      | none => .error .struct
      | some meth =>
        if m.callId < 4294967296 ∧ meth < 4294967296 then
          pure (u32le m.callId ++ u32le meth ++ m.body)
        else .error .struct
    else if hasErrorBit m.error then
      if 0 ≤ m.error ∧ m.error < 4294967296 ∧ m.callId < 4294967296 then
        pure (u8 0 ++ u32le m.error.toNat ++ u32le m.callId)
      else .error .struct
    else
      -- evaluation order of the code: `u32(call_id)` precedes `self.method | 0x8000`
      if m.callId < 4294967296 then
        match m.method with
        | none => .error .type
        | some meth =>
          if (meth ||| 0x8000) < 4294967296 then
            pure (u8 1 ++ u32le m.callId ++ u32le (meth ||| 0x8000) ++ m.body)
          else .error .struct
      else .error .struct
  let payload := p ++ rest
  if payload.length < 4294967296 then pure (u32le payload.length ++ payload) else .error .struct

/-- `RMCMessage.decode` on a fresh message object. -/
def decode (data : Bytes) : Except Err Msg := do
  let (length, s) ← rdU32 data
  if length ≠ data.length - 4 then throw .value
  let (p, s) ← rdU8 s
  let p7 := p % 128
  let (protocol, s) ← if p7 = 0x7F then rdU16 s else pure (p7, s)
  if p ≥ 128 then
    let (callId, s) ← rdU32 s
    let (meth, s) ← rdU32 s
    pure { mode := 0, protocol, method := some meth, callId, error := -1, body := s }
  else
    let (ok, s) ← rdU8 s
    if ok ≠ 0 then
      let (callId, s) ← rdU32 s
      let (meth, s) ← rdU32 s
      -- `& ~0x8000`
      let meth' := if (meth / 32768) % 2 = 1 then meth - 32768 else meth
      pure { mode := 1, protocol, method := some meth', callId, error := -1, body := s }
    else
      let (err, s) ← rdU32 s
      let (callId, s) ← rdU32 s
      if !s.isEmpty then throw .value
      pure { mode := 1, protocol, method := none, callId, error := (err : Int), body := [] }

/-! ## Independent reference framing (written from the protocol description, not from the code)

```
u32 size | u8 proto (bit 7 = request; low 7 bits = id, 0x7F = "extended id follows as u16")
request : u32 call id | u32 method id | body
response: u8 1 | u32 call id | u32 (method id | 0x8000) | body
error   : u8 0 | u32 error code | u32 call id
```
-/
inductive Spec where
  | request (protocol callId method : Nat) (body : Bytes)
  | success (protocol callId method : Nat) (body : Bytes)
  | failure (protocol callId code : Nat)
  deriving DecidableEq, Repr

def specProto (isReq : Bool) (protocol : Nat) : Bytes :=
  let hi := if isReq then 128 else 0
  if protocol ≥ 127 then [b8 (hi + 127)] ++ u16le protocol else [b8 (hi + protocol)]

def specFrame (payload : Bytes) : Bytes := u32le payload.length ++ payload

def specEncode : Spec → Bytes
  | .request p c m b => specFrame (specProto true p ++ u32le c ++ u32le m ++ b)
  | .success p c m b => specFrame (specProto false p ++ [1] ++ u32le c ++ u32le (m + 32768) ++ b)
  | .failure p c e => specFrame (specProto false p ++ [0] ++ u32le e ++ u32le c)

/-- the message object the library builds for each spec form
    (`RMCMessage.request/response/error`). -/
def ofSpec : Spec → Msg
  | .request p c m b => { mode := 0, protocol := p, method := some m, callId := c, error := -1, body := b }
  | .success p c m b => { mode := 1, protocol := p, method := some m, callId := c, error := -1, body := b }
  | .failure p c e => { mode := 1, protocol := p, method := none, callId := c, error := (e : Int), body := [] }

/-- ranges the property quantifies over. -/
def Spec.WF : Spec → Prop
  | .request p c m b => p < 65536 ∧ c < 4294967296 ∧ m < 4294967296 ∧ b.length + 11 < 4294967296
  | .success p c m b => p < 65536 ∧ c < 4294967296 ∧ m < 32768 ∧ b.length + 12 < 4294967296
  | .failure p c e => p < 65536 ∧ c < 4294967296 ∧ 2147483648 ≤ e ∧ e < 4294967296

instance : (s : Spec) → Decidable s.WF
  | .request .. => by unfold Spec.WF; exact inferInstance
  | .success .. => by unfold Spec.WF; exact inferInstance
  | .failure .. => by unfold Spec.WF; exact inferInstance

end Nx.Rmc
