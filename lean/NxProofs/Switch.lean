import NxModel.Switch.All
import NxModel.Switch.Checks
import NxModel.Switch.Errors
/-!
# Lemmas for C18 — Switch clients

* dict lookups and what the key-set checker gives (`KeysAgree`)
* `set_system_version`: refused ⇒ unchanged, accepted ⇒ every dependent field from that version's row
* request shapes depend on the version only through the documented boundaries
* validation of `send_invitation`, response classification
* the link from the Nat-coded generated tables (`Coded`) to the model's `Tables`
-/
namespace Nx.Switch
open Nx Nx.Http

/-! ## dict literals -/

theorem dictGet_isSome_iff {α : Type} (d : Dict α) (k : Nat) : (dictGet d k).isSome = dictHas d k := by
  induction d with
  | nil => simp [dictGet, dictHas]
  | cons p r ih =>
    obtain ⟨k', v⟩ := p
    simp only [dictGet, dictHas, List.any_cons] at *
    cases h : dictGet r k with
    | some x => simp [h] at ih; simp [ih]
    | none =>
      simp [h] at ih
      by_cases hk : k' = k
      · simp [hk]
      · simp [hk]; exact ih

theorem dictGet_some_of_has {α : Type} {d : Dict α} {k : Nat} (h : dictHas d k = true) : ∃ x, dictGet d k = some x := by
  rw [← dictGet_isSome_iff] at h
  exact Option.isSome_iff_exists.mp h

theorem dictGet_mem {α : Type} {d : Dict α} {k : Nat} {x : α} (h : dictGet d k = some x) : (k, x) ∈ d := by
  induction d with
  | nil => simp [dictGet] at h
  | cons p r ih =>
    obtain ⟨k', v⟩ := p
    simp only [dictGet] at h
    cases hr : dictGet r k with
    | some y => rw [hr] at h; simp at h; subst h; exact List.mem_cons_of_mem _ (ih hr)
    | none =>
      rw [hr] at h
      by_cases hk : k' = k
      · simp [hk] at h; subst h; subst hk; exact List.mem_cons_self
      · simp [hk] at h

theorem dictHas_eq_contains {α : Type} (d : Dict α) (k : Nat) : dictHas d k = (keysOf d).contains k := by
  induction d with
  | nil => simp [dictHas, keysOf]
  | cons p r ih =>
    simp only [dictHas, keysOf, List.any_cons, List.map_cons, List.contains_cons] at *
    rw [ih]; simp [eq_comm, BEq.comm]

theorem subset_contains {a b : List Nat} (h : subset a b = true) (k : Nat) (hk : a.contains k = true) : b.contains k = true := by
  simp only [subset, List.all_eq_true] at h
  simp only [List.contains_iff_mem] at hk ⊢
  simpa using h k hk

theorem sameSets_contains {a b : List Nat} (h : (subset a b && subset b a) = true) (k : Nat) : a.contains k = b.contains k := by
  simp only [Bool.and_eq_true] at h
  cases ha : a.contains k with
  | true => exact (subset_contains h.1 k ha).symm
  | false =>
    cases hb : b.contains k with
    | true => rw [subset_contains h.2 k hb] at ha; cases ha
    | false => rfl

/-- what equal key sets give: membership of a version is the same in every table -/
structure KeysAgree (T : Tables) : Prop where
  dauthUA : ∀ v, dictHas T.dauthUA v = dictHas T.fw v
  digest : ∀ v, dictHas T.digest v = dictHas T.fw v
  keygen : ∀ v, dictHas T.keygen v = dictHas T.fw v
  dauthApi : ∀ v, dictHas T.dauthApi v = dictHas T.fw v
  aauthUA : ∀ v, dictHas T.aauthUA v = dictHas T.fw v
  aauthApi : ∀ v, dictHas T.aauthApi v = dictHas T.fw v
  baasUA : ∀ v, dictHas T.baasUA v = dictHas T.fw v
  fiveUA : ∀ v, dictHas T.fiveUA v = dictHas T.fw v

/-- lifting lemma of the generated obligation `same_key_sets` -/
theorem keysAgree_of_sameSets (T : Tables) (h : T.keys.sameSets = true) : KeysAgree T := by
  simp only [Keys.sameSets, Keys.all, List.all_cons, List.all_nil, Bool.and_true, Bool.and_eq_true, Tables.keys] at h
  obtain ⟨_, h1, h2, h3, h4, h5, h6, h7, h8⟩ := h
  refine ⟨?_, ?_, ?_, ?_, ?_, ?_, ?_, ?_⟩ <;> intro v <;> simp only [dictHas_eq_contains]
  · exact sameSets_contains (by simp [h1]) v
  · exact sameSets_contains (by simp [h2]) v
  · exact sameSets_contains (by simp [h3]) v
  · exact sameSets_contains (by simp [h4]) v
  · exact sameSets_contains (by simp [h5]) v
  · exact sameSets_contains (by simp [h6]) v
  · exact sameSets_contains (by simp [h7]) v
  · exact sameSets_contains (by simp [h8]) v

/-! ## `set_system_version` -/

theorem dauth_setVersion_unknown (T : Tables) (s : Dauth) (v : Nat) (h : dictHas T.dauthUA v = false) :
    Dauth.setVersion T s v = (s, some .value) := by
  simp [Dauth.setVersion, h]

theorem dauth_setVersion_known (T : Tables) (K : KeysAgree T) (s : Dauth) (v : Nat) (h : dictHas T.fw v = true) :
    ∃ ua d k a, dictGet T.dauthUA v = some ua ∧ dictGet T.digest v = some d ∧ dictGet T.keygen v = some k ∧
      dictGet T.dauthApi v = some a ∧
      Dauth.setVersion T s v = ({ s with version := v, ua := ua, digest := d, keygen := k, api := a }, none) := by
  obtain ⟨ua, h1⟩ := dictGet_some_of_has (d := T.dauthUA) (k := v) (by rw [K.dauthUA]; exact h)
  obtain ⟨d, h2⟩ := dictGet_some_of_has (d := T.digest) (k := v) (by rw [K.digest]; exact h)
  obtain ⟨k, h3⟩ := dictGet_some_of_has (d := T.keygen) (k := v) (by rw [K.keygen]; exact h)
  obtain ⟨a, h4⟩ := dictGet_some_of_has (d := T.dauthApi) (k := v) (by rw [K.dauthApi]; exact h)
  refine ⟨ua, d, k, a, h1, h2, h3, h4, ?_⟩
  have : dictHas T.dauthUA v = true := by rw [K.dauthUA]; exact h
  simp [Dauth.setVersion, this, h1, h2, h3, h4]

theorem aauth_setVersion_unknown (T : Tables) (s : Aauth) (v : Nat) (h : dictHas T.aauthUA v = false) :
    Aauth.setVersion T s v = (s, some .value) := by
  simp [Aauth.setVersion, h]

theorem aauth_setVersion_known (T : Tables) (K : KeysAgree T) (s : Aauth) (v : Nat) (h : dictHas T.fw v = true) :
    ∃ ua a, dictGet T.aauthUA v = some ua ∧ dictGet T.aauthApi v = some a ∧
      Aauth.setVersion T s v = ({ s with version := v, ua := ua, api := a }, none) := by
  obtain ⟨ua, h1⟩ := dictGet_some_of_has (d := T.aauthUA) (k := v) (by rw [K.aauthUA]; exact h)
  obtain ⟨a, h2⟩ := dictGet_some_of_has (d := T.aauthApi) (k := v) (by rw [K.aauthApi]; exact h)
  refine ⟨ua, a, h1, h2, ?_⟩
  have : dictHas T.aauthUA v = true := by rw [K.aauthUA]; exact h
  simp [Aauth.setVersion, this, h1, h2]

theorem baas_setVersion_unknown (T : Tables) (s : Baas) (v : Nat) (h : dictHas T.baasUA v = false) :
    Baas.setVersion T s v = (s, some .value) := by
  simp [Baas.setVersion, h]

theorem baas_setVersion_known (T : Tables) (K : KeysAgree T) (s : Baas) (v : Nat) (h : dictHas T.fw v = true) :
    ∃ ua, dictGet T.baasUA v = some ua ∧ Baas.setVersion T s v = ({ s with version := v, ua := ua }, none) := by
  obtain ⟨ua, h1⟩ := dictGet_some_of_has (d := T.baasUA) (k := v) (by rw [K.baasUA]; exact h)
  refine ⟨ua, h1, ?_⟩
  have : dictHas T.baasUA v = true := by rw [K.baasUA]; exact h
  simp [Baas.setVersion, this, h1]

theorem five_setVersion_unknown (T : Tables) (s : Five) (v : Nat) (h : dictHas T.fiveUA v = false) :
    Five.setVersion T s v = (s, some .value) := by
  simp [Five.setVersion, h]

theorem five_setVersion_known (T : Tables) (K : KeysAgree T) (s : Five) (v : Nat) (h : dictHas T.fw v = true) :
    ∃ ua, dictGet T.fiveUA v = some ua ∧ Five.setVersion T s v = ({ s with version := v, ua := ua }, none) := by
  obtain ⟨ua, h1⟩ := dictGet_some_of_has (d := T.fiveUA) (k := v) (by rw [K.fiveUA]; exact h)
  refine ⟨ua, h1, ?_⟩
  have : dictHas T.fiveUA v = true := by rw [K.fiveUA]; exact h
  simp [Five.setVersion, this, h1]

theorem dragons_setVersion_unknown (T : Tables) (s : Dragons) (v : Nat) (h : dictHas T.fw v = false) :
    Dragons.setVersion T s v = (s, some .value) := by
  simp [Dragons.setVersion, h]

theorem dragons_setVersion_known (T : Tables) (K : KeysAgree T) (s : Dragons) (v : Nat) (h : dictHas T.fw v = true) :
    ∃ fw ua, dictGet T.fw v = some fw ∧ dictGet T.dauthUA v = some ua ∧
      Dragons.setVersion T s v =
        ({ s with version := v, uaNim := (match s.deviceId with | some d => some (nimUA fw d) | none => s.uaNim), uaDauth := ua }, none) := by
  obtain ⟨fw, h1⟩ := dictGet_some_of_has (d := T.fw) (k := v) h
  obtain ⟨ua, h2⟩ := dictGet_some_of_has (d := T.dauthUA) (k := v) (by rw [K.dauthUA]; exact h)
  refine ⟨fw, ua, h1, h2, ?_⟩
  cases hd : s.deviceId <;> simp [Dragons.setVersion, h, h1, h2, hd]

theorem nim_setVersion_unknown (T : Tables) (s : Nim) (v : Nat) (h : dictHas T.fw v = false) :
    Nim.setVersion T s v = (s, some .value) := by
  simp [Nim.setVersion, h]

theorem nim_setVersion_known (T : Tables) (s : Nim) (v : Nat) (h : dictHas T.fw v = true) :
    ∃ fw, dictGet T.fw v = some fw ∧ Nim.setVersion T s v = ({ s with ua := nimUA fw s.deviceId }, none) := by
  obtain ⟨fw, h1⟩ := dictGet_some_of_has (d := T.fw) (k := v) h
  exact ⟨fw, h1, by simp [Nim.setVersion, h, h1]⟩

/-! ## version eras -/

theorem eraConstant_eq {d : Dict Nat} (h : eraConstant d = true) {v₁ v₂ a₁ a₂ : Nat}
    (h1 : dictGet d v₁ = some a₁) (h2 : dictGet d v₂ = some a₂) (hle : v₁ ≤ v₂) (hb : noBoundary v₁ v₂ = true) : a₁ = a₂ := by
  simp only [eraConstant, List.all_eq_true] at h
  have := h _ (dictGet_mem h1) _ (dictGet_mem h2)
  simp [hle, hb] at this
  exact this

theorem noBoundary_iff {v₁ v₂ : Nat} (hle : v₁ ≤ v₂) (hb : noBoundary v₁ v₂ = true) :
    (v₁ < 1300 ↔ v₂ < 1300) ∧ (v₁ < 1500 ↔ v₂ < 1500) ∧ (v₁ < 1800 ↔ v₂ < 1800) ∧ (v₁ < 1900 ↔ v₂ < 1900) := by
  simp [noBoundary, boundaries] at hb
  omega

/-! ## shapes depend on the state only through the era predicates -/

theorem prop_eq_of_iff {a b : Prop} (h : a ↔ b) : a = b := propext h

theorem dauth_call_shape_congr (s₁ s₂ : Dauth) (ha : s₁.api = s₂.api) (hv : (s₁.version < 1800 ↔ s₂.version < 1800)) (c : DauthCall) :
    shapes (s₁.call c) = shapes (s₂.call c) := by
  have e := prop_eq_of_iff hv
  cases c <;> simp only [shapes, Dauth.call, Dauth.challengeReq, Dauth.headers, e, ha] <;>
    by_cases h : s₂.version < 1800 <;> simp [h, Req.shape, Body.keys, Dauth.tokenForm, sv, Except.map] <;>
    split <;> simp

theorem aauth_call_shape_congr (s₁ s₂ : Aauth) (ha : s₁.api = s₂.api) (hv : (s₁.version < 1800 ↔ s₂.version < 1800)) (c : AauthCall) :
    shapes (s₁.call c) = shapes (s₂.call c) := by
  have e := prop_eq_of_iff hv
  cases c <;> simp only [shapes, Aauth.call, Aauth.headers, Aauth.authBase, Aauth.authTypeKey, e, ha] <;>
    by_cases h : s₂.version < 1800 <;> simp [h, Req.shape, Body.keys, sv, Except.map, optS]
  all_goals (cases digitalCert _ _ _ _ _ <;> simp)

theorem baas_plan_congr (v₁ v₂ : Nat) (h18 : v₁ < 1800 ↔ v₂ < 1800) (h19 : v₁ < 1900 ↔ v₂ < 1900) (c : BaasCall) :
    Baas.plan v₁ c = Baas.plan v₂ c := by
  have e18 : (v₁ ≥ 1800) = (v₂ ≥ 1800) := propext (by omega)
  have e19 : (v₁ ≥ 1900) = (v₂ ≥ 1900) := propext (by omega)
  cases c <;> simp only [Baas.plan, e18, e19]

/-- the shape of a baas request does not depend on host, power state or the user-agent text -/
theorem baas_send_shape (s₁ s₂ : Baas) (p : BaasPlan) (u₁ u₂ : String)
    (h₁ : fmtS s₁.ua p.module = .ok u₁) (h₂ : fmtS s₂.ua p.module = .ok u₂) :
    shapes (s₁.send p) = shapes (s₂.send p) := by
  simp [shapes, Baas.send, h₁, h₂, bind, Except.bind, pure, Except.pure, Except.map, Req.shape, Baas.headers]
  split <;> simp

theorem baas_call_shape_congr (s₁ s₂ : Baas) (h18 : s₁.version < 1800 ↔ s₂.version < 1800) (h19 : s₁.version < 1900 ↔ s₂.version < 1900)
    (hf₁ : ∀ m, ∃ u, fmtS s₁.ua m = .ok u) (hf₂ : ∀ m, ∃ u, fmtS s₂.ua m = .ok u) (c : BaasCall) :
    shapes (s₁.call c) = shapes (s₂.call c) := by
  simp only [Baas.call, baas_plan_congr _ _ h18 h19 c]
  cases hp : Baas.plan s₂.version c with
  | error e => simp [shapes, bind, Except.bind, Except.map]
  | ok p =>
    obtain ⟨u₁, h₁⟩ := hf₁ p.module
    obtain ⟨u₂, h₂⟩ := hf₂ p.module
    simpa [bind, Except.bind] using baas_send_shape s₁ s₂ p u₁ u₂ h₁ h₂

theorem dragons_call_shape_congr (s₁ s₂ : Dragons) (hd : s₁.uaNim.isSome = s₂.uaNim.isSome)
    (h15 : s₁.version < 1500 ↔ s₂.version < 1500) (h18 : s₁.version < 1800 ↔ s₂.version < 1800) (c : DragonsCall) :
    shapes (s₁.call c) = shapes (s₂.call c) := by
  have e15 := prop_eq_of_iff h15
  have e18 := prop_eq_of_iff h18
  by_cases a : s₂.version < 1500 <;> by_cases b : s₂.version < 1800 <;>
  cases h1 : s₁.uaNim <;> cases h2 : s₂.uaNim <;> simp [h1, h2] at hd <;>
  cases c <;> simp [shapes, Dragons.call, Dragons.send, h1, h2, e15, e18, a, b, Except.map, Req.shape, Body.keys]
  all_goals (split <;> simp)

theorem five_call_shape_congr (T : Tables) (s₁ s₂ : Five) (h19 : s₁.version < 1900 ↔ s₂.version < 1900) (c : FiveCall) :
    shapes (Five.call T s₁ c) = shapes (Five.call T s₂ c) := by
  have e19 : (s₁.version ≥ 1900) = (s₂.version ≥ 1900) := propext (by omega)
  cases c <;> simp [shapes, Five.call, Five.headers, e19, Except.map, Req.shape, Body.keys, sv]
  cases sendInvitationValid _ _ _ _ <;> simp

theorem sun_call_shape_congr (s₁ s₂ : Nim) (c : SunCall) : shapes (s₁.sunCall c) = shapes (s₂.sunCall c) := by
  cases c; simp [shapes, Nim.sunCall, Except.map, Req.shape, Body.keys, sv]

theorem atumn_call_shape_congr (s₁ s₂ : Nim) (c : AtumnCall) : shapes (s₁.atumnCall c) = shapes (s₂.atumnCall c) := by
  cases c <;> simp [shapes, Nim.atumnCall, Nim.atumnHeaders, Except.map, Req.shape, Body.keys, sv]

/-! ## templates -/

theorem map_ok_iff {α β ε : Type} (f : α → β) (x : Except ε α) : (∃ r, x.map f = .ok r) ↔ ∃ r, x = .ok r := by
  cases x <;> simp [Except.map]

/-- whether a template formats does not depend on the argument -/
theorem fmtChars_ok_indep (t a : List Char) (used : Bool)
    (h : ∃ r, fmtChars t [] used = .ok r) : ∃ r, fmtChars t a used = .ok r := by
  fun_induction fmtChars t a used <;> simp_all [fmtChars, map_ok_iff]
  all_goals (obtain ⟨x, hx⟩ := h; rename_i ih; exact ih x hx)

theorem templateOk_fmtS (u : String) (h : templateOk u.toList = true) (m : String) : ∃ r, fmtS u m = .ok r := by
  have h0 : ∃ r, fmtChars u.toList [] false = .ok r := by
    simp only [templateOk] at h
    cases hf : fmtChars u.toList [] false with
    | ok r => exact ⟨r, rfl⟩
    | error e => simp [hf] at h
  obtain ⟨r, hr⟩ := fmtChars_ok_indep u.toList m.toList false h0
  exact ⟨String.ofList r, by simp [fmtS, hr, Except.map]⟩

/-- every baas user-agent template of the table formats -/
def TemplatesOk (T : Tables) : Prop := ∀ p ∈ T.baasUA, templateOk p.2.toList = true

/-! ## the shape theorem -/

theorem shapes_error (e : Err) : shapes (.error e) = .error e := rfl

theorem requestsAt_shape (T : Tables) (K : KeysAgree T) (hE1 : eraConstant T.dauthApi = true) (hE2 : eraConstant T.aauthApi = true)
    (hT : TemplatesOk T) {v₁ v₂ : Nat} (hle : v₁ ≤ v₂) (hb : noBoundary v₁ v₂ = true)
    (h1 : dictHas T.fw v₁ = true) (h2 : dictHas T.fw v₂ = true) (c : AnyCall) :
    shapes (requestsAt T v₁ c) = shapes (requestsAt T v₂ c) := by
  obtain ⟨_, b15, b18, b19⟩ := noBoundary_iff hle hb
  cases c with
  | dauth c =>
    simp only [requestsAt, runAt]
    cases Dauth.init T with
    | error e => rfl
    | ok s =>
      obtain ⟨ua₁, d₁, k₁, a₁, _, _, _, ha₁, e₁⟩ := dauth_setVersion_known T K s v₁ h1
      obtain ⟨ua₂, d₂, k₂, a₂, _, _, _, ha₂, e₂⟩ := dauth_setVersion_known T K s v₂ h2
      simp only [e₁, e₂]
      exact dauth_call_shape_congr _ _ (eraConstant_eq hE1 ha₁ ha₂ hle hb) b18 c
  | aauth c =>
    simp only [requestsAt, runAt]
    cases Aauth.init T with
    | error e => rfl
    | ok s =>
      obtain ⟨ua₁, a₁, _, ha₁, e₁⟩ := aauth_setVersion_known T K s v₁ h1
      obtain ⟨ua₂, a₂, _, ha₂, e₂⟩ := aauth_setVersion_known T K s v₂ h2
      simp only [e₁, e₂]
      exact aauth_call_shape_congr _ _ (eraConstant_eq hE2 ha₁ ha₂ hle hb) b18 c
  | baas c =>
    simp only [requestsAt, runAt]
    cases Baas.init T with
    | error e => rfl
    | ok s =>
      obtain ⟨ua₁, hu₁, e₁⟩ := baas_setVersion_known T K s v₁ h1
      obtain ⟨ua₂, hu₂, e₂⟩ := baas_setVersion_known T K s v₂ h2
      simp only [e₁, e₂]
      exact baas_call_shape_congr _ _ b18 b19 (templateOk_fmtS _ (hT _ (dictGet_mem hu₁))) (templateOk_fmtS _ (hT _ (dictGet_mem hu₂))) c
  | dragons d c =>
    simp only [requestsAt, runAt]
    cases Dragons.init T d with
    | error e => rfl
    | ok s =>
      obtain ⟨fw₁, ua₁, _, _, e₁⟩ := dragons_setVersion_known T K s v₁ h1
      obtain ⟨fw₂, ua₂, _, _, e₂⟩ := dragons_setVersion_known T K s v₂ h2
      simp only [e₁, e₂]
      exact dragons_call_shape_congr _ _ (by cases s.deviceId <;> simp) b15 b18 c
  | five c =>
    simp only [requestsAt, runAt]
    cases Five.init T with
    | error e => rfl
    | ok s =>
      obtain ⟨ua₁, _, e₁⟩ := five_setVersion_known T K s v₁ h1
      obtain ⟨ua₂, _, e₂⟩ := five_setVersion_known T K s v₂ h2
      simp only [e₁, e₂]
      exact five_call_shape_congr T _ _ b19 c
  | sun d c =>
    simp only [requestsAt, runAt]
    cases Nim.init T T.latestSun sunHost d with
    | error e => rfl
    | ok s =>
      obtain ⟨fw₁, _, e₁⟩ := nim_setVersion_known T s v₁ h1
      obtain ⟨fw₂, _, e₂⟩ := nim_setVersion_known T s v₂ h2
      simp only [e₁, e₂]
      exact sun_call_shape_congr _ _ c
  | atumn d c =>
    simp only [requestsAt, runAt]
    cases Nim.init T T.latestAtumn atumnHost d with
    | error e => rfl
    | ok s =>
      obtain ⟨fw₁, _, e₁⟩ := nim_setVersion_known T s v₁ h1
      obtain ⟨fw₂, _, e₂⟩ := nim_setVersion_known T s v₂ h2
      simp only [e₁, e₂]
      exact atumn_call_shape_congr _ _ c

/-! ## validation -/

theorem messagesOk_iff (L : List String) (m : List (String × String)) :
    messagesOk L m = true ↔ ∀ p ∈ m, p.1 ∈ L ∧ p.2.length < 0xC0 := by
  induction m with
  | nil => simp [messagesOk]
  | cons p r ih =>
    obtain ⟨l, t⟩ := p
    simp [messagesOk, ih, and_assoc]

theorem sendInvitation_ok_iff (T : Tables) (s : Five) (tok : String) (recv : List Nat) (a g : Nat) (data : Bytes)
    (msgs : List (String × String)) (m : Bool) (acd : Nat) :
    (∃ r, Five.call T s (.sendInvitation tok recv a g data msgs m acd) = .ok r) ↔
      recv.length ≤ 16 ∧ (∀ p ∈ msgs, p.1 ∈ T.languages ∧ p.2.length < 0xC0) ∧ data.length ≤ 0x400 := by
  rw [← messagesOk_iff]
  simp only [Five.call]
  cases h : sendInvitationValid T.languages recv msgs data
  · simp
    simp [sendInvitationValid] at h
    intro h1 h2
    have := h h1 h2
    omega
  · simp
    simpa [sendInvitationValid, and_assoc] using h

theorem five_refusal_is_valueError (T : Tables) (s : Five) (c : FiveCall) (e : Err) (h : Five.call T s c = .error e) : e = .value := by
  cases c <;> simp [Five.call] at h
  split at h <;> simp_all

/-! ## response classification -/

def Outcome.isTyped : Outcome → Bool | .typed .. => true | _ => false
def Outcome.isOk : Outcome → Bool | .ok .. => true | _ => false
def Outcome.isRaise : Outcome → Bool | .raises => true | _ => false

/-- which top-level key marks an error document for the four clients that test for one -/
def errorKey : Client → Option String
  | .dauth => some "errors" | .aauth => some "errors" | .baas => some "errorCode" | .five => some "error"
  | _ => none

theorem get?_some_contains {l : List (String × J)} {k : String} {v : J} (h : (J.obj l).get? k = some v) :
    (J.obj l).contains? k = some true ∧ (J.obj l).truthy = true := by
  simp only [J.get?, Option.map_eq_some_iff] at h
  obtain ⟨p, hp, _⟩ := h
  have hm := List.mem_of_find?_eq_some hp
  have hk := List.find?_some hp
  constructor
  · simp only [J.contains?, Option.some.injEq, List.any_eq_true]
    exact ⟨p, hm, hk⟩
  · cases l with
    | nil => simp at hm
    | cons a r => simp [J.truthy]

theorem classify_no_json (c : Client) (status : Nat) :
    classify c ⟨status, none⟩ = if isSuccess status then .ok none else .httpError status := by
  cases c <;> simp [classify, classifyDauth, classifyAauth, classifyErrors, classifyBaas, classifyFive, classifyDragons, classifySun, classifyAtumn, finish]

theorem classifyErrors_typed (status : Nat) (fields e : List (String × J)) (rest : List J) (code : Int) (msg : J)
    (hk : (J.obj fields).get? "errors" = some (.arr (J.obj e :: rest)))
    (hrest : ∀ x ∈ rest, ∃ f, x = J.obj f ∧ ((J.obj f).get? "code").isSome ∧ ((J.obj f).get? "message").isSome)
    (hc : ((J.obj e).get? "code").bind J.toInt? = some code) (hm : (J.obj e).get? "message" = some msg) :
    classifyErrors ⟨status, some (.obj fields)⟩ = .typed (.num code) msg := by
  obtain ⟨h1, h2⟩ := get?_some_contains hk
  have hcs : ((J.obj e).get? "code").isSome := by
    cases h : (J.obj e).get? "code" <;> simp [h] at hc ⊢
  have hall : (rest.all fun x => match x with | .obj _ => (x.get? "code").isSome && (x.get? "message").isSome | _ => false) = true := by
    simp only [List.all_eq_true]
    intro x hx
    obtain ⟨f, rfl, a, b⟩ := hrest x hx
    simp [a, b]
  simp only [List.all_eq_true] at hall
  simp [classifyErrors, h1, h2, hk, hcs, hm, hc]
  exact hall

theorem classifyBaas_typed (status : Nat) (fields : List (String × J)) (ty code title detail st inst : J)
    (h1 : (J.obj fields).get? "type" = some ty) (h2 : (J.obj fields).get? "errorCode" = some code)
    (h3 : (J.obj fields).get? "title" = some title) (h4 : (J.obj fields).get? "detail" = some detail)
    (h5 : (J.obj fields).get? "status" = some st) (h6 : (J.obj fields).get? "instance" = some inst) :
    classifyBaas ⟨status, some (.obj fields)⟩ = .typed code title := by
  obtain ⟨a, b⟩ := get?_some_contains h2
  simp [classifyBaas, a, b, h1, h2, h3, h4, h5, h6]

theorem classifyFive_typed (status : Nat) (fields e : List (String × J)) (code : Int) (msg : J)
    (hk : (J.obj fields).get? "error" = some (.obj e))
    (hc : ((J.obj e).get? "code").bind J.toInt? = some code) (hm : (J.obj e).get? "message" = some msg) :
    classifyFive ⟨status, some (.obj fields)⟩ = .typed (.num code) msg := by
  obtain ⟨a, b⟩ := get?_some_contains hk
  simp [classifyFive, a, b, hk, hc, hm]

theorem classifyDragons_typed (status : Nat) (hs : isSuccess status = false) (fields : List (String × J)) (ty : String) (title detail number : J)
    (h1 : (J.obj fields).get? "type" = some (.str ty)) (h2 : (J.obj fields).get? "title" = some title)
    (h3 : (J.obj fields).get? "detail" = some detail) (h4 : (J.obj fields).get? "number" = some number) :
    classifyDragons ⟨status, some (.obj fields)⟩ = .typed number title := by
  obtain ⟨_, b⟩ := get?_some_contains h1
  simp [classifyDragons, hs, b, h1, h2, h3, h4]

theorem classifySun_typed (status : Nat) (hs : isSuccess status = false) (fields e : List (String × J)) (code msg : J)
    (hk : (J.obj fields).get? "error" = some (.obj e))
    (hc : (J.obj e).get? "code" = some code) (hm : (J.obj e).get? "message" = some msg) :
    classifySun ⟨status, some (.obj fields)⟩ = .typed code msg := by
  obtain ⟨_, b⟩ := get?_some_contains hk
  simp [classifySun, hs, b, hk, hc, hm]

theorem classify_plain_object (c : Client) (k : String) (hk : errorKey c = some k) (status : Nat) (fields : List (String × J))
    (hno : fields.any (·.1 == k) = false) :
    classify c ⟨status, some (.obj fields)⟩ = if isSuccess status then .ok (some (.obj fields)) else .httpError status := by
  have hc : (J.obj fields).contains? k = some false := by simp [J.contains?, hno]
  cases c <;> simp [errorKey] at hk <;> subst hk <;>
    by_cases ht : (J.obj fields).truthy = true <;>
    simp [classify, classifyDauth, classifyAauth, classifyErrors, classifyBaas, classifyFive, finish, ht, hc]

theorem classify_success_nim (status : Nat) (hs : isSuccess status = true) (j : J) :
    classifyDragons ⟨status, some j⟩ = .ok (some j) ∧ classifySun ⟨status, some j⟩ = .ok (some j) ∧
      classifyAtumn ⟨status, some j⟩ = .ok (some j) := by
  simp [classifyDragons, classifySun, classifyAtumn, hs, finish]

theorem classify_error_key_never_ok (c : Client) (k : String) (hk : errorKey c = some k) (status : Nat) (j : J)
    (ht : j.truthy = true) (hc : j.contains? k = some true) :
    (classify c ⟨status, some j⟩).isTyped = true ∨ (classify c ⟨status, some j⟩).isRaise = true := by
  cases c <;> simp [errorKey] at hk <;> subst hk <;>
    simp only [classify, classifyDauth, classifyAauth, classifyErrors, classifyBaas, classifyFive, ht, hc]
  all_goals (simp; repeat' split) <;> simp [Outcome.isTyped, Outcome.isRaise]

/-! ## from the Nat-coded generated tables to the model's tables -/

theorem keysOf_decodeDict (d : Dict CStr) : keysOf (decodeDict d) = keysOf d := by
  simp [keysOf, decodeDict, List.map_map, Function.comp_def]

theorem Coded.decode_keys (c : Coded) : c.decode.keys = c.keys := by
  simp [Coded.decode, Tables.keys, Coded.keys, keysOf_decodeDict]

theorem decodeStr_cs (s : String) : decodeStr (cs s) = s := by
  simp [decodeStr, cs, List.map_map, Function.comp_def]

theorem languages_of_coded (c : Coded) (h : c.languagesOk = true) : c.decode.languages = documentedLanguages := by
  simp only [Coded.languagesOk, Bool.and_eq_true, beq_iff_eq] at h
  simp [Coded.decode, h.1, List.map_map, Function.comp_def, decodeStr_cs]

theorem templatesOk_of_coded (c : Coded) (h : c.baasTemplatesOk = true) : TemplatesOk c.decode := by
  intro p hp
  simp only [Coded.decode, decodeDict, List.mem_map] at hp
  obtain ⟨q, hq, rfl⟩ := hp
  simp only [Coded.baasTemplatesOk, List.all_eq_true] at h
  have := h q hq
  simpa [decodeStr] using this

theorem apiEra_of_coded (c : Coded) (h : c.apiEraOk = true) :
    eraConstant c.decode.dauthApi = true ∧ eraConstant c.decode.aauthApi = true := by
  simpa [Coded.apiEraOk, Coded.decode] using h

end Nx.Switch
