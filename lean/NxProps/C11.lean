import NxProofs.RmcServer
/-!
# C11 — an RMC server answers every request exactly once with the right outcome

Model: `NxModel/Nex/RmcServer.lean` — `react` mirrors `RMCClient.handle_request`, `serve` the receive loop
over a request sequence, `generatedHandle` the `handle()` / `handle_<method>` code that
`generate_protocols.py` emits (tables translated from the generated modules on every run).
Responses are stated as the *reference framing* of C09 (`Rmc.specEncode`), so "carries the request's
protocol and call id" is a statement about the bytes on the wire (`Nx.C09.rmc_reference_accepted`
decodes them back).

Quantifier of the property = `ReqWF` (fields as `RMCMessage.decode` yields them) + `Answerable`:
the handler returned (method id < 2^15 as every generated id is — generated obligation `method_ids_fit` —
and an output that fits a u32 length), or raised an RMC error whose code is a u32 with bit 31 (what
`RMCError(code)` yields for every code of the table), or raised any `Exception`.
Outside it (stated, not hidden): a `BaseException` that is no `Exception`, or an `RMCError` whose code does
not fit 32 bits, leaves `handle_request` and ends the loop — `not_answered_examples`.
Statements only; proofs in `NxProofs/RmcServer.lean`.
-/
namespace Nx.C11
open Nx Nx.Rmc Nx.RmcServer

/-- exactly one response, carrying the request's protocol and call id — or none iff the protocol is NORESPONSE -/
theorem one_response (servers : Registry) (req : Msg) (m : Nat) (w : ReqWF req m) (h : HandleResult)
    (ha : Answerable m h) :
    (regLookup req.protocol servers = some true ∧ react servers req h = .silent) ∨
    (regLookup req.protocol servers ≠ some true ∧
      ∃ data msg, react servers req h = .sends data ∧ decode data = .ok msg ∧
        msg.mode = 1 ∧ msg.protocol = req.protocol ∧ msg.callId = req.callId) := by
  rcases react_answer (servers := servers) w h ha with hl | ⟨hn, s, hwf, hs, h1, h2, h3⟩
  · exact .inl hl
  · exact .inr ⟨hn, specEncode s, ofSpec s, hs, decode_specEncode s hwf, h1, h2, h3⟩

/-- the outcome table for a registered protocol that is not response-less -/
theorem outcome_table (servers : Registry) (req : Msg) (m : Nat) (w : ReqWF req m)
    (hp : regLookup req.protocol servers = some false) :
    (∀ out : Bytes, m < 32768 → out.length + 12 < 4294967296 →
      react servers req (.returned out) = .sends (specEncode (.success req.protocol req.callId m out))) ∧
    (∀ code : Nat, 2147483648 ≤ code → code < 4294967296 →
      react servers req (.raised (.rmcError code)) = .sends (specEncode (.failure req.protocol req.callId code))) ∧
    react servers req (.raised .typeError) = .sends (specEncode (.failure req.protocol req.callId 0x80040002)) ∧
    react servers req (.raised .indexError) = .sends (specEncode (.failure req.protocol req.callId 0x80040003)) ∧
    react servers req (.raised .memoryError) = .sends (specEncode (.failure req.protocol req.callId 0x80040006)) ∧
    react servers req (.raised .keyError) = .sends (specEncode (.failure req.protocol req.callId 0x80040007)) ∧
    react servers req (.raised .other) = .sends (specEncode (.failure req.protocol req.callId 0x80040001)) :=
  ⟨fun out hm hb => react_returned w hp out hm hb, fun c h1 h2 => react_rmcError w hp c h1 h2, react_py w hp⟩

/-- an unknown protocol is answered `Core::NotImplemented`, whatever else is going on -/
theorem unknown_protocol_not_implemented (servers : Registry) (req : Msg) (m : Nat) (w : ReqWF req m)
    (hp : regLookup req.protocol servers = none) (h : HandleResult) :
    react servers req h = .sends (specEncode (.failure req.protocol req.callId 0x80010002)) :=
  react_unregistered w hp h

/-- generated dispatch: an unknown method id, an unsupported method and an unimplemented (stub) method
    all end in `RMCError("Core::NotImplemented")`, hence (by `outcome_table`) in error 0x80010002 -/
theorem not_implemented_dispatch (srv : Server) (mid : Nat) (ex : Option Exc) (u : User) :
    (findMethod mid srv.methods = none → generatedHandle srv mid ex u = notImplemented) ∧
    (∀ mt, findMethod mid srv.methods = some mt → mt.supported = false → generatedHandle srv mid ex u = notImplemented) ∧
    (∀ mt, findMethod mid srv.methods = some mt → mt.supported = true → generatedHandle srv mid none .stub = notImplemented) :=
  ⟨gen_unknown_method srv mid ex u, fun mt h hs => gen_unsupported srv mid ex u mt h hs, fun mt h hs => gen_stub srv mid mt h hs⟩

theorem not_implemented_response (servers : Registry) (req : Msg) (m : Nat) (w : ReqWF req m)
    (hp : regLookup req.protocol servers = some false) :
    react servers req notImplemented = .sends (specEncode (.failure req.protocol req.callId 0x80010002)) :=
  react_rmcError w hp 0x80010002 (by decide) (by decide)

/-- generated dispatch of a known, supported method: reading past the end of the body (or any other failure
    while extracting the parameters) is the handler's exception; otherwise the user's exception, or — for a
    well-typed result — whatever encoding it yields; a wrongly typed / incomplete result is a `RuntimeError` -/
theorem dispatch_supported (srv : Server) (mid : Nat) (mt : Method)
    (h : findMethod mid srv.methods = some mt) (hs : mt.supported = true) :
    (∀ e u, generatedHandle srv mid (some e) u = .raised e) ∧
    (∀ e, generatedHandle srv mid none (.raises e) = .raised e) ∧
    (∀ enc, generatedHandle srv mid none (.returns .good enc) = if mt.resp = .none then .returned [] else enc) ∧
    (∀ sh enc, sh ≠ .good → (mt.resp = .single false ∨ mt.resp = .multi) →
      generatedHandle srv mid none (.returns sh enc) = .raised .other) :=
  ⟨fun e u => gen_extract_fails srv mid e u mt h hs, fun e => gen_raises srv mid e mt h hs,
   fun enc => gen_returns_good srv mid enc mt h hs, fun sh enc hsh hr => gen_returns_bad srv mid enc mt sh h hs hsh hr⟩

/-- with distinct method ids (generated obligation `method_ids_distinct`) every table entry is reachable
    under its own id, and a lookup only ever yields an entry with the requested id -/
theorem dispatch_reaches_every_method (srv : Server) (hd : srv.methodIdsDistinct = true) (mt : Method)
    (hm : mt ∈ srv.methods) : findMethod mt.id srv.methods = some mt :=
  findMethod_of_mem hd hm

theorem dispatch_only_own_id (srv : Server) (mid : Nat) (mt : Method) (h : findMethod mid srv.methods = some mt) :
    mt ∈ srv.methods ∧ mt.id = mid :=
  findMethod_some h

/-- a response-less protocol is never answered -/
theorem noresponse_silent (servers : Registry) (req : Msg) (hp : regLookup req.protocol servers = some true)
    (h : HandleResult) (hb : h ≠ .raised .base) : react servers req h = .silent :=
  react_noresponse hp h hb

/-- any sequence of answerable requests is answered request by request, each exactly as if it were alone:
    a failing handler neither ends the loop nor affects later requests -/
theorem C11_sequence (servers : Registry) (reqs : List (Msg × HandleResult))
    (hall : ∀ x ∈ reqs, ∃ m, ReqWF x.1 m ∧ Answerable m x.2) :
    serve servers reqs = reqs.map (fun x => react servers x.1 x.2) ∧
    Reaction.propagates ∉ serve servers reqs := by
  refine ⟨serve_eq_map servers reqs hall, ?_⟩
  rw [serve_eq_map servers reqs hall]
  intro hmem
  obtain ⟨x, hx, he⟩ := List.mem_map.mp hmem
  obtain ⟨m, w, ha⟩ := hall x hx
  exact react_ne_propagates w x.2 ha he

/-- what was answered before does not change what is answered next (`handle_request` assigns to nothing) -/
theorem server_state_unchanged (servers : Registry) (before after : List (Msg × HandleResult))
    (hb : ∀ x ∈ before, ∃ m, ReqWF x.1 m ∧ Answerable m x.2) :
    serve servers (before ++ after) = serve servers before ++ serve servers after :=
  serve_append servers before after hb

/-- the driver replays the real request sequence of a connection through `serveStep`, one request per line;
    that is the same function as `serve` (so `C11_sequence` speaks about what the correspondence ties) -/
theorem serve_is_replayed (servers : Registry) (l : List (Msg × HandleResult)) :
    serve servers l = serveInc servers true l :=
  serve_eq_serveInc servers l

/-- outside the quantifier: these end the receive loop instead of being answered -/
theorem not_answered_examples :
    react [(10, false)] { mode := 0, protocol := 10, method := some 1, callId := 7, error := -1, body := [] }
      (.raised .base) = .propagates ∧
    react [(10, false)] { mode := 0, protocol := 10, method := some 1, callId := 7, error := -1, body := [] }
      (.raised (.rmcError 0x180000000)) = .propagates := by
  decide

/-! non-vacuity -/
example : ReqWF { mode := 0, protocol := 0x7F, method := some 5, callId := 4294967295, error := -1, body := [1] } 5 :=
  ⟨by decide, by decide, rfl⟩
example : Answerable 5 (.returned [1, 2, 3]) := by simp [Answerable]
example : Answerable 5 (.raised (.rmcError 0x80030065)) := by simp [Answerable]
example : Answerable 0xFFFFFFFF (.raised .keyError) := by simp [Answerable]
example : react [(10, false), (14, true)]
    { mode := 0, protocol := 10, method := some 2, callId := 9, error := -1, body := [] } (.raised .keyError)
    = .sends [10, 0, 0, 0, 10, 0, 7, 0, 4, 0x80, 9, 0, 0, 0] := by decide
example : react [(10, false), (14, true)]
    { mode := 0, protocol := 14, method := some 1, callId := 9, error := -1, body := [] } (.returned []) = .silent := by decide
example : generatedHandle { protocol := 10, noresponse := false, methods := [{ id := 1, supported := true, resp := .single false }] }
    1 (some .other) .stub = .raised .other := by decide
example : serve [(10, false)]
    [({ mode := 0, protocol := 10, method := some 2, callId := 1, error := -1, body := [] }, .raised .typeError),
     ({ mode := 0, protocol := 11, method := some 2, callId := 2, error := -1, body := [] }, .returned [])]
    = [.sends [10, 0, 0, 0, 10, 0, 2, 0, 4, 0x80, 1, 0, 0, 0], .sends [10, 0, 0, 0, 11, 0, 2, 0, 1, 0x80, 2, 0, 0, 0]] := by decide

end Nx.C11
