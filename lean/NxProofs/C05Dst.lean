import NxModel.Nex.C15Zone
/-! C05 with the server's time zone as an axis (daylight saving included).

A ticket's stamp is the LOCAL civil time of its issue instant (`localOf z issued`, written by `DateTime.fromtimestamp`);
the server decodes it with `DateTime.timestamp()` = CPython's `local_to_seconds(fold = 0)` (`Zone.localToSeconds`, C15's model)
and admits iff `decoded >= now - 120`. Around ONE rule change (`zTwo T a b`: offset `a` before `T`, `b` from `T` on; the clock is
set back by at most 24 h, CPython's `max_fold_seconds`) the decoded instant is never later than the real issue instant: it is exact, except for stamps written during the
second pass of a repeated hour (`T <= issued < T + (a - b)`), which decode to the first pass, `a - b` seconds early. Hence an
admitted ticket is at most 120 s of REAL time old - and a fresh ticket stamped in the second pass is refused. -/
namespace Nx.C05Dst
open Nx Nx.Nex Nx.Nex.Zone

/-- outside the second pass of a repeated hour the stamp decodes to the issue instant -/
theorem decode_exact (T a b u : Int) (hb : a - b ≤ 86400) (h : ¬ (T ≤ u ∧ u < T + (a - b))) :
    localToSeconds (zTwo T a b) (localOf (zTwo T a b) u) = u := by
  simp only [localToSeconds, localOf, zTwo]
  grind

/-- a stamp written in the second pass (only possible when the clock was set back, `b < a`) decodes to the first pass -/
theorem decode_fold (T a b u : Int) (hb : a - b ≤ 86400) (h : T ≤ u ∧ u < T + (a - b)) :
    localToSeconds (zTwo T a b) (localOf (zTwo T a b) u) = u - (a - b) := by
  simp only [localToSeconds, localOf, zTwo]
  grind

/-- the decoded instant is never later than the real one -/
theorem decode_le (T a b u : Int) (hb : a - b ≤ 86400) :
    localToSeconds (zTwo T a b) (localOf (zTwo T a b) u) ≤ u := by
  by_cases h : T ≤ u ∧ u < T + (a - b)
  · rw [decode_fold T a b u hb h]; omega
  · rw [decode_exact T a b u hb h]; omega

/-- the server's freshness test (`ticket.timestamp.timestamp() < time.time() - 120` refuses) on a stamp of zone `zTwo T a b`:
what it admits was issued at most 120 s of real time before `now` -/
theorem admitted_is_fresh (T a b issued now : Int) (hb : a - b ≤ 86400)
    (hadm : ¬ localToSeconds (zTwo T a b) (localOf (zTwo T a b) issued) < now - 120) :
    now - issued ≤ 120 := by
  have := decode_le T a b issued hb; omega

/-- and a fresh ticket is admitted unless its stamp was written in the second pass of a repeated hour -/
theorem fresh_is_admitted (T a b issued now : Int) (hb : a - b ≤ 86400) (h : ¬ (T ≤ issued ∧ issued < T + (a - b))) (hf : now - issued ≤ 120) :
    ¬ localToSeconds (zTwo T a b) (localOf (zTwo T a b) issued) < now - 120 := by
  rw [decode_exact T a b issued hb h]; omega

/-- a fresh ticket stamped in the second pass of a repeated hour longer than 120 s IS refused by the code as it is
(not a violation of the property's 'only if') -/
theorem fresh_in_fold_refused (T a b issued now : Int) (hb : a - b ≤ 86400) (h : T ≤ issued ∧ issued < T + (a - b))
    (hd : 120 < a - b) (hn : issued ≤ now) :
    localToSeconds (zTwo T a b) (localOf (zTwo T a b) issued) < now - 120 := by
  rw [decode_fold T a b issued hb h]; omega

/-- why the class matters: comparing WALL-CLOCK readings (`local(issued) >= local(now - 120)`) instead of instants admits,
inside a repeated hour, a ticket that is 40 minutes old (central Europe, 25 Oct 2026: clock set back at 01:00 UTC) -/
theorem wall_clock_order_admits_stale :
    let z := zTwo 1792890000 7200 3600
    let issued : Int := 1792890000 - 1800
    let now : Int := 1792890000 + 600
    now - issued = 2400 ∧ localOf z (now - 120) ≤ localOf z issued ∧
      localToSeconds z (localOf z issued) < now - 120 := by
  decide

example : localToSeconds (zTwo 1000000 7200 3600) (localOf (zTwo 1000000 7200 3600) 1000100) = 1000100 - 3600 := by decide
example : localToSeconds (zTwo 1000000 3600 7200) (localOf (zTwo 1000000 3600 7200) 1000100) = 1000100 := by decide

end Nx.C05Dst
