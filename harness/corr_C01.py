"""C01 — reliable channel. Tie: real client/server sessions over the simulated network, abstracted to the
ops of the Lean L2 channel model (sender emissions byte-exact incl. RC4 positions, receiver arrivals,
checkpointed window/reassembly/delivery state), plus the property oracle on the real code."""
import os, random, multiprocessing, traceback
import prudp_session as ps
import c01_slowlink
import c01_acktimer
import c01_sizes

LEVEL = "proof"

V0_VARIANTS = [(a, b, c) for a in (0, 1) for b in (0, 1) for c in (0, 1)]


def gen_case(rng, idx, quick):
    r = rng.random()
    kw = {}
    if r < 0.55:
        kw.update(transport="udp", version=1, max_substream=rng.choice([0, 0, 1, 3]))
    elif r < 0.85:
        kw.update(transport="udp", version=0, v0=V0_VARIANTS[idx % 8])
    else:
        kw.update(transport="lite", version=1)
    kw["fragment_size"] = rng.choice([1, 2, 7, 50, 962, 1300])
    kw["credentials"] = rng.random() < 0.35
    if kw["credentials"]:
        kw["pid_size"] = rng.choice([4, 8]); kw["key_size"] = rng.choice([16, 32])
    kw["resend_limit"] = rng.choice([1, 2, 3, 4])
    kw["resend_timeout"] = rng.choice([0.5, 1.0, 1.5])
    if rng.random() < 0.15:
        # zlib compression of each packet payload (not modelled in Lean: such sessions are judged on the real code only; the
        # framing is C08's)
        kw["compression"] = 1
    if rng.random() < 0.25 and kw["transport"] == "udp":
        kw["start"] = (rng.choice([65533, 65534, 65535, 65530, 0, 1, 32767, 32768]), rng.choice([65534, 65535, 65531, 0, 40000]))
    cfg = ps.Cfg(**kw)
    fs = cfg.fragment_size
    def msg():
        r = rng.random()
        if r < 0.5: n = rng.choice([1, max(1, fs - 1), fs, fs + 1, 2 * fs, 3 * fs + 1])
        else: n = rng.randint(1, 6 * fs)
        n = min(n, 255 * fs, 6000)
        if cfg.compression and rng.random() < 0.6:
            unit = rng.randbytes(rng.choice([1, 2, 5]))          # compressible (ratio byte above 1) as well as incompressible data
            return (unit * (n // len(unit) + 1))[:n]
        return rng.randbytes(n)
    script = []
    for _ in range(rng.randint(1, 3)):
        phase = []
        for side in "cs":
            for sub in range(cfg.max_substream + 1):
                for _ in range(rng.choice([0, 1, 1, 2, 4])):
                    phase.append((side, sub, msg()))
            if rng.random() < 0.3:
                phase.append((side, 0, ("u", rng.randbytes(rng.randint(1, min(fs, 64))))))
        rng.shuffle(phase)
        script.append(phase)
    regime = "budget" if rng.random() < 0.5 else "hostile"
    if cfg.transport == "lite":
        regime = "stream"
    return cfg, script, regime, rng.getrandbits(40)


def fate_factory(cfg, regime):
    def make(sim, rng):
        if regime == "budget":
            # at most resend_limit lost datagrams in the whole session; one-way delay well below half the resend timeout
            drops = set(rng.sample(range(1, 120), cfg.resend_limit)) if rng.random() < 0.8 else set()
            def fate(tx):
                if tx.n in drops: return []
                d = rng.random() * 0.2 * cfg.resend_timeout if rng.random() < 0.5 else 0.005
                if rng.random() < 0.1: return [d, rng.random() * 0.2 * cfg.resend_timeout]
                return [d]
            return fate
        if regime == "hostile":
            p = rng.choice([0.05, 0.15, 0.3, 0.4])
            return ps.lossy_fate(rng, drop=p, dup=rng.choice([0, 0.1, 0.3]), delay=rng.choice([0.1, 0.5]), max_delay=rng.choice([0.1, 1.0, 2.5]) * cfg.resend_timeout)
        return lambda tx: [0.0]
    return make


def _is_data(tx, to_server, pid=None, reliable=True):
    """v1 datagram classification by header bytes (directed scenarios only use v1 / the default v0 layout via decode)"""
    d = tx.data
    if (tx.dst == ps.SERVER) != to_server or len(d) < 14 or d[:2] != b"\xea\xd0": return False
    tf = d[8] | (d[9] << 8)
    if tf & 0xF != ps.TYPE_DATA or (tf >> 4) & ps.F_ACK: return False
    if bool((tf >> 4) & ps.F_REL) != reliable: return False
    return pid is None or d[12] | (d[13] << 8) == pid


def directed_cases():
    """(name, cfg, script, fate_factory, regime, kwargs): regressions for repaired defects and reproductions of known findings"""
    cases = []
    # D1 (fixed cd51b2b): reordering across the 65535 -> 0 wrap must not stall the stream
    def ff_wrap(sim, rng):
        held = []
        def fate(tx):
            if _is_data(tx, True, 65535) and not held:
                held.append(1); return [0.2]
            return [0.01]
        return fate
    cases.append(("wrap-reorder", ps.Cfg(start=(65534, 65534)), [[("c", 0, b"m%d" % i) for i in range(5)], [("s", 0, b"r%d" % i) for i in range(4)]], ff_wrap, "budget", {}))
    # D3 (fixed 5fe58c8): a lost CONNECT acknowledgement with credentials must not corrupt the server's stream
    def ff_connack(sim, rng):
        seen = []
        def fate(tx):
            d = tx.data
            if tx.src == ps.SERVER and len(d) > 10 and d[:2] == b"\xea\xd0" and (d[8] & 0xF) == ps.TYPE_CONNECT and not seen:
                seen.append(1); return []
            return [0.01]
        return fate
    cases.append(("connect-ack-lost-credentials", ps.Cfg(credentials=True, fragment_size=7), [[("s", 0, bytes(range(40))), ("s", 0, b"second"), ("c", 0, b"hello" * 5)]], ff_connack, "budget", {}))
    # D15 (open): ack of an unreliable DATA id X cancels the timer of reliable DATA id X
    def ff_unrel(sim, rng):
        seen = []
        obs = []
        def fate(tx):
            if not obs: obs.append(ps.Observer(ps.Cfg(version=0).settings(), ps.Cfg(version=0)))
            if tx.src == ps.SERVER and not seen:
                for p in obs[0].decode(tx.data):
                    if p.type == ps.TYPE_DATA and p.flags & ps.F_REL and not p.flags & ps.F_ACK:
                        seen.append(1); return []
            return [0.01]
        return fate
    cases.append(("unreliable-ack-collision", ps.Cfg(version=0, resend_limit=2), [[("s", 0, ("u", b"unreliable")), ("s", 0, b"reliable one"), ("s", 0, b"reliable two")]], ff_unrel, "budget", {}))
    # D12 (open, protocol-inherent): a duplicate delayed by more than 2^15 packets is accepted as a new packet
    def ff_stale(sim, rng):
        held = []
        def fate(tx):
            if _is_data(tx, True, 2) and not held:
                held.append(1); return [0.001, 0.45]
            return [0.001]
        return fate
    # a message of more fragments than any plausible receive-side bound, whose FIRST fragment is lost once: everything behind it
    # arrives (and is acknowledged) ahead of its turn and must still be released when the gap closes
    def ff_head(sim, rng):
        seen = []
        def fate(tx):
            d = tx.data
            if not seen and len(d) > 14 and d[:2] == b"\xea\xd0" and _is_data(tx, True):
                seen.append(1); return []
            return [0.004]
        return fate
    for nfr in (70, 130, 250):      # (a fragment id is one byte: 255 fragments is the largest message the encoding can carry)
        cases.append(("long-message-head-lost:%d" % nfr, ps.Cfg(fragment_size=3, resend_timeout=1.0),
                      [[("c", 0, bytes((i * 7) & 0xFF for i in range(3 * nfr - 1))), ("c", 0, b"after")], [("s", 0, b"reply")]], ff_head, "budget", {}))
    # the largest message the encoding can carry at the usual fragment sizes (255 fragments: 247 KB at 970, 357 KB at 1400 bytes per
    # fragment), whole and one byte short of it, with one fragment in the middle lost once
    def ff_mid(sim, rng):
        seen = [0]
        def fate(tx):
            if _is_data(tx, True) and len(tx.data) > 500:
                seen[0] += 1
                if seen[0] == 100: return []
            return [0.004]
        return fate
    for fs, cut in ((1400, 0), (970, 1)):
        cases.append(("largest-message:%d:%d" % (fs, cut), ps.Cfg(fragment_size=fs, resend_timeout=1.0),
                      [[("c", 0, bytes((i * 131 + (i >> 8)) & 0xFF for i in range(255 * fs - cut))), ("c", 0, b"after")], [("s", 0, b"reply")]], ff_mid, "budget", {}))
    # an application that reads late: 40..150 complete messages wait unread for longer than the whole retransmission budget (the
    # receiver is busy, or uploads first), then everything is read — nothing may be lost, the connection must survive (PRUDP has
    # no flow control: whatever arrives must be taken off the wire and acknowledged regardless of what the application does)
    for side, nmsg, version in (("c", 100, 1), ("s", 150, 1), ("c", 40, 0)):
        other = "s" if side == "c" else "c"
        cases.append(("slow-reader:%s:%d:v%d" % (side, nmsg, version), ps.Cfg(version=version, resend_timeout=0.5, resend_limit=2, read_delay={side: 4.0}),
                      [[(other, 0, b"m%03d" % i) for i in range(nmsg)], [(side, 0, b"thanks"), (other, 0, b"bye")]],
                      (lambda sim, rng: (lambda tx: [0.004])), "budget", {"phases_gap": 6.0}))
    # a peer that acknowledges DATA with (truthful, correctly signed) aggregate acknowledgements instead of individual ones — the
    # library never sends them itself: old format (v0; v1 with substream id 0) and new format (v1, substream id 1 as marker,
    # the substream in the payload), one and two substreams, with one DATA datagram lost
    def ff_aggr(version, newfmt, lose_sub):
        def ff(sim, rng):
            from nintendo.nex import prudp
            cfg = ps.Cfg(version=version, max_substream=(1 if version else 0), fragment_size=5)
            st = cfg.settings()
            obs = ps.Observer(st, cfg)
            enc = prudp.PRUDPMessageSelector(st).select(version)
            acked, lost = {}, []
            def fate(tx):
                pk = obs.decode(tx.data)
                if not pk: return [0.004]
                p = pk[0]
                if tx.dst == ps.SERVER and p.type == ps.TYPE_DATA and p.flags & ps.F_REL and not p.flags & ps.F_ACK and p.substream_id == lose_sub and not lost and p.packet_id >= 3:
                    lost.append(1); return []
                if tx.src == ps.SERVER and p.type == ps.TYPE_DATA and p.flags & ps.F_ACK and not p.flags & 0x200:
                    sub = p.substream_id
                    ids = acked.setdefault(sub, set()); ids.add(p.packet_id)
                    base = 1 if sub == 0 else 0          # ids up to here were acknowledged before any DATA (CONNECT has id 1 on substream 0)
                    while (base + 1) in ids: base += 1
                    extra = sorted(i for i in ids if i > base)[:20]
                    a = prudp.PRUDPPacket(ps.TYPE_DATA, ps.F_ACK | 0x200)
                    a.version = p.version
                    a.source_type, a.source_port, a.dest_type, a.dest_port = p.source_type, p.source_port, p.dest_type, p.dest_port
                    a.session_id = p.session_id
                    a.fragment_id = 0
                    if newfmt:
                        a.substream_id, a.packet_id = 1, 0
                        a.payload = bytes([sub, len(extra)]) + base.to_bytes(2, "little") + b"".join(i.to_bytes(2, "little") for i in extra)
                    else:
                        if sub != 0: return [0.004]          # the old format has no substream field: only substream 0 can be aggregated
                        a.substream_id, a.packet_id = 0, base
                        ex = (extra + [base, base])[:max(2, len(extra))]
                        a.payload = b"".join(i.to_bytes(2, "little") for i in ex)
                    a.signature = enc.calc_packet_signature(a, b"", enc.calc_connection_signature(tx.src))
                    sim.net.inject(tx.src, tx.dst, enc.encode(a), 0.004)
                    return []
                return [0.004]
            return fate
        return ff
    msgs = lambda sub, tag: [("c", sub, bytes([tag + i]) * (11 + i)) for i in range(5)]
    cases.append(("aggregate-acks:v0-old", ps.Cfg(version=0, fragment_size=5), [msgs(0, 65), [("s", 0, b"done")]], ff_aggr(0, False, 0), "budget", {}))
    cases.append(("aggregate-acks:v1-old", ps.Cfg(version=1, max_substream=1, fragment_size=5), [msgs(0, 65), [("s", 0, b"done")]], ff_aggr(1, False, 0), "budget", {}))
    cases.append(("aggregate-acks:v1-new", ps.Cfg(version=1, max_substream=1, fragment_size=5), [msgs(0, 65), [("s", 0, b"done")]], ff_aggr(1, True, 0), "budget", {}))
    cases.append(("aggregate-acks:v1-new-two-substreams", ps.Cfg(version=1, max_substream=1, fragment_size=5),
                  [[x for pair in zip(msgs(0, 65), msgs(1, 97)) for x in pair], [("s", 0, b"done"), ("s", 1, b"done1")]], ff_aggr(1, True, 1), "budget", {}))
    N = 66000
    cases.append(("stale-duplicate-beyond-half-window", ps.Cfg(ping_timeout=1e9),
                  [[("c", 0, bytes([i & 255, (i >> 8) & 255, i >> 16])) for i in range(a, min(N, a + 1000))] for a in range(0, N, 1000)],
                  ff_stale, "budget", {"phases_gap": 0.01, "max_time": 1e9}))
    return cases


def concurrent_senders(seed):
    """D11 (fixed in repo): several tasks send multi-fragment messages on one substream at the same time over a socket whose
    send passes through the event loop (what a real socket's lock does). Returns a list of (key, what)."""
    import anyio
    from sim import Sim
    from nintendo.nex import prudp, settings
    rng = random.Random(seed)
    bad = []
    with Sim(seed) as sim:
        s = settings.default(); s["prudp.fragment_size"] = rng.choice([7, 10, 16])
        sim.install_factories()
        sim.net.fate = lambda tx: [0.01]
        got = []
        fs = s["prudp.fragment_size"]
        # a mix of multi-fragment and single-fragment messages (at least one of each kind in most runs), started at staggered
        # scheduling points so that a short send can be scheduled while a long one is between two fragments
        def length(kind):
            return {"long": rng.randint(2 * fs + 1, 5 * fs), "exact": fs, "short": rng.randint(1, fs), "two": fs + 1}[kind]
        kinds = ["long"] + [rng.choice(["long", "short", "short", "exact", "two"]) for _ in range(rng.randint(1, 4))]
        rng.shuffle(kinds)
        msgs = [bytes([65 + i]) * length(k) for i, k in enumerate(kinds)]
        yields = [rng.randint(0, 6) for _ in msgs]
        s["prudp.version"] = rng.choice([0, 1])
        async def handler(client):
            while True:
                try: got.append(await client.recv())
                except anyio.EndOfStream: return
        async def sender(c, m, k):
            for _ in range(k):
                await anyio.sleep(0)
            await c.send(m)
        async def main():
            async with prudp.serve(handler, s, "10.0.0.1", 60000):
                async with prudp.connect(s, "10.0.0.1", 60000) as c:
                    c.transport.socket.yield_on_send = True
                    async with anyio.create_task_group() as tg:
                        for m, k in zip(msgs, yields):
                            tg.start_soon(sender, c, m, k)
                    await anyio.sleep(1)
        sim.run(main())
    if sorted(got) != sorted(msgs):
        bad.append(("concurrent-senders", "concurrent sends on one substream were merged/split: sent %r, received %r" % (
            [(m[:1], len(m)) for m in msgs], [(g[:1] + b".." + g[-1:], len(g)) for g in got])))
    return bad


def stale_duplicate(sess):
    """known finding D12: some accepted copy of a reliable packet arrived after more than 2^15 later reliable
    packets of its direction/substream had been emitted"""
    obs = ps.Observer(sess.settings, sess.cfg)
    saddr = sess.addr["s"]
    count = {}
    first = {}
    for e in sess.netlog:
        if e[0] not in ("tx", "rx"): continue
        for p in obs.decode(e[5]):
            if p.flags & (ps.F_ACK | ps.F_MULTI) or not p.flags & ps.F_REL: continue
            d = ("c" if e[4] == saddr else "s", p.substream_id)
            if e[0] == "tx":
                if e[1] not in first:
                    count[d] = count.get(d, 0) + 1
                    first[e[1]] = count[d]
            elif e[1] in first and count.get(d, 0) - first[e[1]] >= 32768:
                return "a copy of reliable packet id %d (%s) arrived %d packets after its first transmission" % (p.packet_id, d, count[d] - first[e[1]])
    return None


def to_lines(sess, name, late_acks=False):
    """driver lines + expectations for one session. A message whose fragments left the endpoint one after the other is one `send`;
    a message with another reliable packet of its substream (a keep-alive PING, a DISCONNECT) numbered between two of its fragments
    is `begin` followed by `frag` / `ping` / `disc` lines in the real order of emission (the model's send is a loop, too)."""
    cfg = sess.cfg
    ev = ps.abstract(sess, late_acks=late_acks)
    keys = ps.rc4_keys(cfg, sess.session_key)
    lines, expect = [], []     # expect: (kind, payload) per line
    sent_lists = {}
    for side, sub, m in sess.accepted:
        if not isinstance(m, tuple):
            sent_lists.setdefault((side, sub), []).append(m)
    for (d, sub), events in sorted(ev.items()):
        if sub >= sess.nsub: continue
        # the fragment size is the SENDER's (the two endpoints need not share it: c01_sizes.py)
        fs = (getattr(sess, "cfg_s", cfg) if d == "s" else cfg).fragment_size
        ch = "%s.%s%d" % (name, d, sub)
        if sub == 0:
            start = (cfg.start[0] if d == "c" else cfg.start[1]) if cfg.start else (2 if d == "c" else 1)
        else:
            start = 1
        total = sum(len(e[5]) for e in events if e[0] == "emit") + 16
        if keys[sub] is None:
            lines.append("new %s %d %d none" % (ch, start, fs))
        else:
            lines.append("new %s %d %d rc4 %s %d" % (ch, start, fs, keys[sub].hex(), total))
        expect.append(("ok", None))
        if cfg.compression:
            lines.append("zon %s" % ch); expect.append(("ok", None))
        msgs = list(sent_lists.get((d, sub), []))
        skip = 0
        pend = []
        loop = 0           # fragments of the message begun with `begin` that are still to be emitted
        recv_side = "s" if d == "c" else "c"
        emits = [e for e in events if e[0] == "emit"]
        epos = 0
        for e in events:
            if e[0] == "emit":
                epos += 1
                _, j, pid, kind, frag, payload = e
                wire = "%d:%s:%d:%s" % (pid, kind, frag if kind == "data" else 0, payload.hex() if payload else "-")
                if skip:
                    pend.append(wire); skip -= 1
                    if not skip:
                        expect[send_at] = ("wires", " ".join(pend))
                    continue
                if kind == "data" and loop:
                    lines.append("frag %s" % ch); expect.append(("wires", wire)); loop -= 1
                    continue
                if kind == "data":
                    if not msgs:
                        lines.append("send %s -" % ch); expect.append(("wires", "UNEXPECTED real data wire " + wire)); continue
                    m = msgs.pop(0)
                    k = (len(m) + fs - 1) // fs
                    if cfg.compression:
                        # the deflate oracle, fragment by fragment; the model answers `ok` only if its own inflater turns it back
                        import zlib as _z
                        for i0 in range(0, len(m), fs):
                            lines.append("z %s %s %s" % (ch, m[i0:i0 + fs].hex(), _z.compress(m[i0:i0 + fs]).hex())); expect.append(("eq", "ok"))
                    if any(x[3] != "data" for x in emits[epos:epos + k - 1]):
                        # something else was numbered before the message's last fragment
                        lines.append("begin %s %s" % (ch, m.hex())); expect.append(("eq", "pending=%d" % k))
                        lines.append("frag %s" % ch); expect.append(("wires", wire))
                        loop = k - 1
                        continue
                    lines.append("send %s %s" % (ch, m.hex()))
                    pend = [wire]; skip = k - 1
                    send_at = len(expect)        # (arrivals may be processed while the fragments of this message are still leaving)
                    expect.append(("wires", wire if not skip else None))
                else:
                    lines.append("%s %s" % (kind, ch)); expect.append(("wires", wire))
            elif e[0] == "arrive":
                lines.append("arrive %s %d" % (ch, e[1])); expect.append(("arrive", None))
            elif e[0] == "check":
                snap = sess.checkpoints[e[1]]
                if recv_side not in snap["ep"]: continue
                r = snap["ep"][recv_side]
                if sub >= len(r["win"]): continue
                nxt, buf = r["win"][sub]
                lines.append("state %s" % ch)
                expect.append(("state-slow" if late_acks else "state", "next=%d buf=%s frag=%s closed=%d out=%s" % (
                    nxt, ",".join(map(str, buf)), r["frag"][sub].hex() or "-", 1 if r["state"] == 3 else 0,
                    ",".join(m.hex() for m in r["got"][sub]))))
    return lines, expect


def line_ok(kind, exp, out):
    """one driver answer against what the real session showed"""
    if kind == "ok": return out == "ok"
    if kind == "wires": return exp is None or out == exp
    if kind == "eq": return out == exp
    if kind == "arrive": return out.startswith("ok=1")
    if kind in ("state", "state-slow"):
        strip = lambda x: [p for p in x.split(" ") if not p.startswith(("decpos=", "nrel=", "sent=", "closed="))]
        # the model closes only through a released DISCONNECT; the real endpoint may also have given up (timeouts)
        if "closed=1" in out and "closed=0" in exp: return False
        if kind == "state-slow" and "closed=1" in exp and "closed=0" in out:
            # slow sockets: the endpoint gave up while its receive loop was inside the (slow) send of an acknowledgement; the packet
            # being acknowledged still goes through the window, but nothing can be delivered to the closed endpoint any more:
            # same window, and what was delivered is a prefix of what the model delivered
            g, e = dict(p.split("=", 1) for p in strip(out)), dict(p.split("=", 1) for p in strip(exp))
            go, eo = [x for x in g["out"].split(",") if x], [x for x in e["out"].split(",") if x]
            return g["next"] == e["next"] and g["buf"] == e["buf"] and eo == go[:len(eo)]
        return strip(out) == strip(exp)
    return False


def unreliable_ack_collision(sess):
    """known finding D15: the ack of an unreliable DATA packet (id X) cancels the retransmission timer of the
    reliable DATA packet with the same id X on substream 0 (ack_events is keyed by (type, substream, id) only).
    Signature in the trace: a sender emitted both an unreliable DATA X and a reliable DATA X on substream 0, the
    reliable one was lost on its first transmission and never retransmitted although the sender stayed connected."""
    obs = ps.Observer(sess.settings, sess.cfg)
    saddr = sess.addr["s"]
    unrel, rel_tx, rel_rx = {}, {}, {}
    for e in sess.netlog:
        if e[0] not in ("tx", "rx"): continue
        side = "c" if e[4] == saddr else "s"
        for p in obs.decode(e[5]):
            if p.type != ps.TYPE_DATA or p.flags & (ps.F_ACK | ps.F_MULTI) or p.substream_id != 0: continue
            if p.flags & ps.F_REL:
                key = (side, p.packet_id, p.fragment_id, bytes(p.payload))
                if e[0] == "tx": rel_tx[key] = rel_tx.get(key, 0) + 1
                elif e[6]: rel_rx[key] = rel_rx.get(key, 0) + 1
            elif e[0] == "tx":
                unrel.setdefault(side, set()).add(p.packet_id)
    for key, n in rel_tx.items():
        side, pid = key[0], key[1]
        if pid in unrel.get(side, ()) and key not in rel_rx and n < sess.cfg.resend_limit + 1:
            return "reliable DATA id %d from %s lost once and never retransmitted; an unreliable DATA with the same id was acknowledged" % (pid, side)
    return None


def judge(sess, regime):
    """the property on the real code; returns list of (key, what)"""
    bad = []
    cfg = sess.cfg
    if sess.crash:
        bad.append(("crash", "session crashed: " + sess.crash)); return bad
    sent = {}
    sentu = {"c": [], "s": []}
    for side, sub, m in sess.accepted:
        if isinstance(m, tuple): sentu[side].append(m[1])
        else: sent.setdefault((side, sub), []).append(m)
    for (side, sub), got in sess.got.items():
        other = "s" if side == "c" else "c"
        s = sent.get((other, sub), [])
        if got != s[:len(got)]:
            stale = stale_duplicate(sess)
            if stale:
                bad.append(("KNOWN:stale-duplicate-beyond-half-window", "delivery at %s substream %d corrupted: %s" % (side, sub, stale)))
                continue
            bad.append(("safety", "delivered at %s substream %d is not a prefix of what %s sent: got %d msgs %s..., sent %d" % (
                side, sub, other, len(got), [g[:8].hex() for g in got[:4]], len(s))))
    for side, gu in sess.gotu.items():
        other = "s" if side == "c" else "c"
        for g in gu:
            if g not in sentu[other]:
                bad.append(("unreliable", "unreliable payload delivered at %s was never sent: %s" % (side, g[:16].hex())))
    if regime in ("budget", "stream"):
        if sess.connect_error:
            bad.append(("liveness-connect", "handshake failed although faults were within the budget: " + sess.connect_error))
        else:
            for (side, sub), got in sess.got.items():
                other = "s" if side == "c" else "c"
                s = sent.get((other, sub), [])
                if len(got) != len(s):
                    coll = unreliable_ack_collision(sess) if sub == 0 else None
                    if coll:
                        bad.append(("KNOWN:unreliable-ack-collision", "faults within budget but %s received %d of %d messages on substream 0: %s" % (side, len(got), len(s), coll)))
                    else:
                        bad.append(("liveness", "faults within budget but %s received %d of %d messages on substream %d" % (side, len(got), len(s), sub)))
            if getattr(sess, "final_state", (1, 1)) != (1, 1):
                bad.append(("liveness-up", "faults within budget but connection state at the end is %r" % (sess.final_state,)))
            if sess.send_errors:
                bad.append(("liveness-send", "send raised although faults were within budget: %r" % (sess.send_errors[:2],)))
    return bad


def work(args):
    idx, seed, quick = args
    kwargs = {}
    if isinstance(seed, str) and seed.startswith("slowlink:"):
        # keep-alive PINGs between the fragments of a message (slow links x small ping_timeout), see c01_slowlink.py
        return c01_slowlink.work(idx, seed, quick, judge, to_lines)
    if isinstance(seed, str) and seed.startswith("acktimer:"):
        # an acknowledgement arriving while the retransmission timer of its packet fires (slow socket, round trip just below the
        # resend timeout), see c01_acktimer.py
        return c01_acktimer.work(idx, seed, quick, judge)
    if isinstance(seed, str) and seed.startswith("sizes:"):
        # payload sizes over the whole legal range (fragment sizes above the default, zlib frames longer than a fragment, endpoints
        # with different fragment sizes), see c01_sizes.py
        return c01_sizes.work(idx, seed, quick, judge, to_lines)
    if isinstance(seed, str) and seed.startswith("concurrent-senders"):
        try:
            bad = concurrent_senders(int(seed.split(":")[1]))
            return idx, seed, {"scenario": seed}, None, "directed", 0, bad, [], [], {"tx": 30, "regime": "directed:concurrent-senders", "enc": "v1", "msgs": 3, "connect_error": False, "timed_out": False}, None
        except Exception:
            return idx, seed, {"scenario": seed}, None, "directed", 0, [], [], [], {}, traceback.format_exc()
    if isinstance(seed, str):
        name = seed
        _, cfg, script, ff, regime, kwargs = [c for c in directed_cases() if c[0] == name][0]
        sseed = 1
    else:
        rng = random.Random(seed)
        cfg, script, regime, sseed = gen_case(rng, idx, quick)
        ff = fate_factory(cfg, regime)
    rechunk = False
    if not isinstance(seed, str) and cfg.transport == "lite" and seed % 3 != 0:
        # a byte stream has no message boundaries: every write is cut at content-addressed points (down to single bytes, and
        # within the last bytes of a packet); such sessions are judged on the real code only
        import zlib
        rechunk = True
        mode = seed % 7
        def chunk_setup(sim, out):
            def chunker(data):
                if len(data) < 2: return [data]
                h = zlib.crc32(data + seed.to_bytes(8, "little"))
                if mode in (0, 1):
                    n = 1 + h % 3
                    return [data[i:i + n] for i in range(0, len(data), n)]
                cuts = sorted({1 + (h >> (4 * i)) % (len(data) - 1) for i in range(1 + h % 3)} | ({len(data) - 1 - h % min(8, len(data) - 1)} if mode >= 4 else set()))
                return [data[a:b] for a, b in zip([0] + cuts, cuts + [len(data)]) if a != b]
            sim.net.chunker = chunker
        kwargs = dict(kwargs, setup=chunk_setup)
    try:
        sess = ps.run_session(cfg, sseed, script, ff, **kwargs)
        bad = judge(sess, regime)
        big = len(sess.netlog) > 20000
        if isinstance(seed, str) and (seed.startswith("slow-reader") or seed.startswith("largest-message")):
            rechunk = True          # judged on the real code only
        lines, expect = to_lines(sess, "s%d" % idx) if not sess.crash and not big and not rechunk else ([], [])
        stats = {"tx": sum(1 for e in sess.netlog if e[0] == "tx"), "regime": regime if not isinstance(seed, str) else "directed:" + seed,
                 "enc": "lite" if cfg.transport == "lite" else "v%d" % cfg.version, "msgs": len(sess.accepted),
                 "connect_error": bool(sess.connect_error), "timed_out": sess.timed_out}
        scr = [[(a, b, (c if isinstance(c, bytes) else c[1]).hex(), isinstance(c, tuple)) for a, b, c in ph] for ph in script] if not big else "(directed soak: %d messages)" % len(sess.accepted)
        return idx, seed, cfg.describe(), scr, regime, sseed, bad, lines, expect, stats, None
    except Exception:
        return idx, seed, cfg.describe(), None, regime, sseed, [], [], [], {}, traceback.format_exc()


def run(ctx):
    quick = ctx.tier == "quick"
    n = 240 if quick else 6000
    ctx.rule = ("simulated client/server sessions (v1 with 0..3 substreams, v0 in its 8 variants, lite) with random fragment sizes, "
                "message sizes around fragment multiples, credentials on/off, start ids near the 16-bit wrap, and a fate per datagram "
                "(regime budget: ≤ resend_limit drops, delays < 0.2·resend_timeout, duplicates; regime hostile: 5–40 % loss, duplication, "
                "delays up to 2.5·resend_timeout); each direction/substream is replayed through the Lean channel model (emitted wires "
                "byte-exact, arrivals, checkpoint states); distinct non-trivial = sessions with ≥1 delivered message and ≥1 fault or fragment; "
                "slow-link family (real code only): uplinks that take time per datagram (blocking socket / serial link of finite bandwidth) x "
                "ping_timeout of 0.4..4 fragment times x messages of 3..40 fragments x v0/v1/lite x c->s, s->c, both x no faults / within "
                "budget / hostile, so that keep-alive PINGs are numbered and sent between the fragments of one message; non-trivial there = "
                "≥1 PING inside a message; ack-timer family (real code only): a socket whose send takes tau and a round trip just below "
                "resend_timeout, so that the acknowledgement of the SYN (and of data) arrives while the packet's retransmission timer "
                "fires: tau x delay over the window and controls on either side x v0/v1 x credentials x slow side, judged in the budget regime; "
                "payload-size family (c01_sizes.py, replayed through the model): fragment sizes 1301..1400 (and 1472..60000), the two endpoints "
                "with different fragment sizes (1400/1300, 1300/962, ..), zlib on (compressible and incompressible fragments: wire payload "
                "longer than the fragment) / off, messages of fs, fs+1, 1301, 2fs+17, 3fs bytes, unreliable DATA of fs and 1400 bytes x v0/v1/lite "
                "(lite also over a stream cut into 536/1448-byte segments) x perfect / within budget / hostile network; non-trivial there = a "
                "DATA payload longer than 1300 bytes or than the receiver's own fragment size was delivered")
    directed = [(100000 + i, c[0], quick) for i, c in enumerate(directed_cases())]
    directed += [(100100 + i, "concurrent-senders:%d" % i, quick) for i in range(16 if quick else 200)]
    seeds = directed[::-1] + [(i, ctx.rng.getrandbits(48), quick) for i in range(n)]
    # slow links x small ping_timeout: 64 consecutive indices = the full product link profile x direction x fault regime, 320 = that
    # times the encodings (drawn after the seeds above: those stay what they were for a given VERIF_SEED)
    nslow = 128 if quick else 1920
    off = ctx.rng.randrange(320)
    seeds += [(200000 + k, "slowlink:%d:%d" % (off + k, ctx.rng.getrandbits(48)), quick) for k in range(nslow)]
    seeds += [(300000 + k, "acktimer:%d" % k, quick) for k in range(len(c01_acktimer.cases(quick)))]
    seeds += [(400000 + k, "sizes:%d:%d" % (k, ctx.rng.getrandbits(48)), quick) for k in range(len(c01_sizes.cases(quick)))]
    with multiprocessing.Pool(min(16, os.cpu_count() or 4)) as pool:
        results = pool.map(work, seeds, chunksize=1 if quick else 4)
    drv = ctx.driver()
    ndiff = 0
    first_diff = None
    for idx, seed, cfgd, script, regime, sseed, bad, lines, expect, stats, err in results:
        if err:
            ctx.corr_break("session-harness", "session %d crashed in the harness" % idx, {"traceback": err, "cfg": cfgd, "case_seed": seed})
            continue
        for key, what in bad:
            kkey = "c01:%s:%s" % (key, stats["enc"]) if not key.startswith("KNOWN:") else "c01:" + key[6:]
            ctx.violation(kkey, what, {"cfg": cfgd, "script": script, "regime": regime, "session_seed": sseed, "case_seed": seed, "case_index": idx,
                                       "how": "harness/corr_C01.py work((index, case_seed, quick)) re-runs exactly this session"})
        outs = drv.batch(lines) if lines else []
        sess_diff = 0
        for line, out, (kind, exp) in zip(lines, outs, expect):
            ok = line_ok(kind, exp, out)
            if not ok:
                sess_diff += 1
                if first_diff is None:
                    first_diff = {"line": line[:300], "model": out[:600], "real": (exp or "")[:600], "cfg": cfgd, "case_seed": seed, "case_index": idx}
        ndiff += sess_diff
        ctx.traces_validated += 1 if lines else 0
        if any(l.startswith("zon ") for l in lines):
            ctx.extra["zlib_sessions_replayed"] = ctx.extra.get("zlib_sessions_replayed", 0) + 1
            ctx.extra["deflate_oracle_entries_validated"] = ctx.extra.get("deflate_oracle_entries_validated", 0) + sum(1 for l in lines if l.startswith("z "))
        nontriv = stats.get("msgs", 0) > 0 and stats.get("tx", 0) > 6
        sl = stats.get("slowlink")
        if sl:
            nontriv = sl["pings_inside"] > 0 and sl["delivered"] > 0
            agg = ctx.extra.setdefault("slowlink", {"sessions": 0, "sessions_with_ping_inside_a_message": 0, "pings_inside_messages": 0,
                                                    "messages_with_ping_inside": 0, "most_pings_in_one_message": 0, "longest_message_fragments": 0,
                                                    "judged_for_liveness": 0, "messages_delivered": 0, "replayed_through_model": 0,
                                                    "messages_replayed_as_begin_frag": 0, "not_replayed_second_connect": 0, "by_profile_direction_faults": {}})
            agg["sessions"] += 1
            agg["sessions_with_ping_inside_a_message"] += 1 if sl["pings_inside"] else 0
            agg["pings_inside_messages"] += sl["pings_inside"]
            agg["messages_with_ping_inside"] += sl["messages_with_ping_inside"]
            agg["most_pings_in_one_message"] = max(agg["most_pings_in_one_message"], sl["most_in_one_message"])
            agg["longest_message_fragments"] = max(agg["longest_message_fragments"], sl["longest_fragments"])
            agg["judged_for_liveness"] += 1 if regime == "slowlink-budget" else 0
            agg["messages_delivered"] += sl["delivered"]
            agg["replayed_through_model"] += 1 if lines else 0
            agg["messages_replayed_as_begin_frag"] += sum(1 for l in lines if l.startswith("begin "))
            agg["not_replayed_second_connect"] += 1 if sl["connect_ids"] > 1 else 0
            k3 = "%s/%s/%s" % (sl["profile"], sl["direction"], sl["faults"])
            agg["by_profile_direction_faults"][k3] = agg["by_profile_direction_faults"].get(k3, 0) + 1
        sz = stats.get("sizes")
        if sz:
            nontriv = sz["delivered"] > 0 and (sz["data_payloads_longer_than_1300"] > 0 or sz["data_payloads_longer_than_receivers_fragment_size"] > 0)
            agg = ctx.extra.setdefault("sizes", {"sessions": 0, "asymmetric_sessions": 0, "zlib_sessions": 0, "replayed_through_model": 0,
                                                 "largest_data_payload_on_wire": 0, "data_payloads_longer_than_1300": 0,
                                                 "data_payloads_longer_than_receivers_fragment_size": 0, "unreliable_payloads_longer_than_1300": 0,
                                                 "messages_longer_than_1300_delivered": 0, "unreliable_delivered": 0, "segmented_stream_sessions": 0,
                                                 "by_fragment_sizes_client/server": {}})
            agg["sessions"] += 1
            agg["asymmetric_sessions"] += 1 if sz["asymmetric"] else 0
            agg["zlib_sessions"] += 1 if sz["compression"] else 0
            agg["replayed_through_model"] += 1 if lines else 0
            agg["largest_data_payload_on_wire"] = max(agg["largest_data_payload_on_wire"], sz["largest_data_payload_on_wire"])
            for f in ("data_payloads_longer_than_1300", "data_payloads_longer_than_receivers_fragment_size", "unreliable_payloads_longer_than_1300",
                      "messages_longer_than_1300_delivered"):
                agg[f] += sz[f]
            agg["unreliable_delivered"] += sz["delivered_unreliable"]
            agg["segmented_stream_sessions"] += 1 if sz["segmented_stream"] else 0
            agg["by_fragment_sizes_client/server"][sz["pair"]] = agg["by_fragment_sizes_client/server"].get(sz["pair"], 0) + 1
        ctx.case(key=seed, nontrivial=nontriv, tag="%s:%s%s" % (stats.get("enc"), regime, ":connect-failed" if stats.get("connect_error") else ""),
                 sample={"cfg": cfgd, "regime": regime, "datagrams": stats.get("tx"), "model_lines": len(lines), "first_lines": lines[:6]} if idx % 97 == 0 else None)
    ctx.extra["model_line_diffs"] = ndiff
    if ndiff and not ctx.violations and not ctx.known_hits:
        ctx.corr_break("l2-channel-correspondence", "real endpoints and the Lean channel model disagree on %d lines" % ndiff,
                       dict(first_diff, theorems_no_longer_tied=["Nx.C01.C01_safety", "Nx.C01.C01_complete", "Nx.C01.C01_progress"]))
    elif ndiff:
        ctx.extra["first_model_diff"] = first_diff
