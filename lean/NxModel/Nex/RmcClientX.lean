import NxModel.Nex.RmcClient
/-!
# RMC client with protocol servers registered — `RMCClient.cleanup()` in full

```
async def cleanup(self):
    if not self.closed:
        self.closed = True
        for event in self.requests.values(): event.set()     -- one atomic section (`doCleanup`)
        for server in self.servers.values():
            await server.logout(self)                          -- may suspend, may raise, may never return
```
`RMCClient.start(servers)` registers the servers (dict by protocol id, insertion order). The body of
`cleanup()` runs at most once per client (`closed` guards it), so at most one sequence of logout hooks is
ever in progress: `pending` = the hooks of that sequence that have not completed yet, the head being the one
currently executing (it was entered in the same atomic section in which the previous one returned; the
first one in the atomic section that set `closed` and the events).

The extension wraps the core machine unchanged: `XOp.core op` is `step` on the core state; `hookReturn` /
`hookRaise` are the two ways the executing hook can end. A hook that blocks for ever is the absence of
either op. The hooks never touch the client's call-matching state (they get the client object, and anything
they do with it goes through the core ops: a `request()` they make is a `call`).
-/
namespace Nx.RmcClient

inductive XOp where
  | core (op : Op)
  | hookReturn          -- the executing `server.logout(self)` returned
  | hookRaise           -- the executing `server.logout(self)` raised
  deriving DecidableEq, Repr

inductive XOut where
  | core (o : Out)
  | logout (srv : Nat)      -- `server.logout(self)` of the `srv`-th registered server was entered
  | cleanupReturned         -- `cleanup()` ran to its end (then `close()`/`disconnect()` close the transport, `start()` returns)
  | cleanupRaised           -- `cleanup()` was left by the exception of a hook (remaining hooks are not called)
  | noHook                  -- (never happens at run time) no hook is executing
  deriving DecidableEq, Repr

/-- 0 = `cleanup()` body never entered, 1 = running its hooks, 2 = returned, 3 = raised -/
structure XState where
  core : State
  servers : List Nat
  pending : List Nat
  status : Nat
  deriving DecidableEq, Repr

def xinit (n nservers : Nat) : XState :=
  { core := { init with nextId := n }, servers := List.range nservers, pending := [], status := 0 }

/-- does this core op execute the body of `cleanup()` in state `s`? -/
def runsCleanup (s : State) : Op → Bool
  | .eof | .cleanup => !s.closed
  | _ => false

/-- entering the next hook, or finishing `cleanup()` -/
def nextHook (x : XState) (rest : List Nat) : XState × List XOut :=
  match rest with
  | [] => ({ x with pending := [], status := 2 }, [.cleanupReturned])
  | srv :: _ => ({ x with pending := rest, status := 1 }, [.logout srv])

def xstep (x : XState) : XOp → XState × List XOut
  | .core op =>
    let (s', o) := step x.core op
    let x1 := { x with core := s' }
    if runsCleanup x.core op then
      let (x2, o2) := nextHook x1 x.servers
      (x2, o.map .core ++ o2)
    else (x1, o.map .core)
  | .hookReturn =>
    match x.pending with
    | [] => (x, [.noHook])
    | _ :: rest => nextHook x rest
  | .hookRaise =>
    match x.pending with
    | [] => (x, [.noHook])
    | _ :: _ => ({ x with pending := [], status := 3 }, [.cleanupRaised])

def xrun (x : XState) : List XOp → XState × List XOut
  | [] => (x, [])
  | op :: ops =>
    let (x1, o1) := xstep x op
    let (x2, o2) := xrun x1 ops
    (x2, o1 ++ o2)

/-- the core ops of an extended op sequence, in order -/
def coreOps : List XOp → List Op
  | [] => []
  | .core op :: r => op :: coreOps r
  | _ :: r => coreOps r

/-- the core outputs of an extended output sequence, in order -/
def coreOuts : List XOut → List Out
  | [] => []
  | .core o :: r => o :: coreOuts r
  | _ :: r => coreOuts r

end Nx.RmcClient
