"""C06 — a WRITE FAULT at exactly the k-th transport write of one side, the handshake writes first of all.

The client's writes are SYN (1st), CONNECT (2nd), then data / acknowledgements / pings; the server's are the SYN ack (1st), the
CONNECT ack (2nd), then the same. One side's k-th write fails:

  datagram transports (udp v0 / v1 against v0 / v1 / dual-stack servers): the socket raises on send — a connected UDP socket that
      reports an error, a server socket that cannot send to this peer — with one of the errors a socket of the library's network
      layer raises (anyio Broken / ClosedResourceError; the server side also OSError), either only at that write ("once": the error
      is transient, retransmissions go out) or at that write and every later one ("from": the socket is broken);
  stream transports (lite): the connection is reset AT that write ("break": the write raises, both ends see the closure), or the
      peer / a proxy closes the connection right AFTER that write went out ("close": the write succeeds, e.g. the SYN ack is
      delivered, and the very next write of either end raises).

Property (statement of C06: 'after a successful handshake both endpoints report the same ...', 'fail cleanly instead of
half-connecting'), judged on the real endpoints for every fault point:

  * connect() returned  ->  at that very instant the server holds a connection for this client (same address, port, stream type) in
                            the connected state and both ends report min/min/AND of the two configurations; when no fault strikes
                            after the handshake every negotiated substream carries data and sending beyond is refused;
  * connect() raised    ->  cleanly: the library's connection error (stream transports: or the error of the stream that is gone),
                            no later than (resend_limit+1)*resend_timeout after the first transmission of the outstanding handshake
                            packet (at once if that very write failed); the harness never has to end the session;
  * a transient fault of the server's handshake writes with a retransmission budget left must not prevent the handshake;
  * once a side's write fault has been handled by its connection object, every send() begun on that object afterwards raises.

A client that reports a successful handshake while the server holds no connection is additionally probed with send() (only to
describe the half-connection; the probe runs in the violating case only).

spec = (transport 'udp'|'lite', client version, server version, side 'c'|'s', k, mode, error, resend_limit, client triple, server triple)
"""
import anyio
import prudp_session as ps
from nintendo.nex import prudp

RESEND_TIMEOUT = 0.5
SLACK = 0.05
ERRORS = {"broken": anyio.BrokenResourceError, "closed": anyio.ClosedResourceError, "oserror": lambda: OSError(111, "Connection refused")}


def cfgs(spec):
    transport, cv, sv, side, k, mode, err, limit, c, s = spec
    kw = dict(resend_limit=limit, resend_timeout=RESEND_TIMEOUT, fragment_size=7, v0=(0, 1, 1))
    if transport == "lite":
        return (ps.Cfg(transport="lite", minor_version=c[0], max_substream=c[1], supported_functions=c[2], **kw),
                ps.Cfg(transport="lite", minor_version=s[0], max_substream=s[1], supported_functions=s[2], **kw))
    return (ps.Cfg(version=cv, minor_version=c[0], max_substream=(c[1] if cv else 0), supported_functions=c[2], **kw),
            ps.Cfg(version=sv, minor_version=s[0], max_substream=(s[1] if sv else 0), supported_functions=s[2], **kw))


def want_of(spec):
    transport, cv, sv, side, k, mode, err, limit, c, s = spec
    if transport == "lite":
        return (min(c[0], s[0]), 0, c[2] & s[2])
    if cv == 0:
        return (0, 0, 0)           # v0 carries no negotiation options (documented reading)
    return (min(c[0], s[0]), min(c[1], s[1]), c[2] & s[2])


def script_of(spec, rng):
    neg = want_of(spec)[1]
    first = [(side, sub, b"%s%d:" % (side.encode(), sub) + rng.randbytes(rng.choice([3, 7, 16]))) for sub in range(neg + 1) for side in "cs"]
    return [first + [("c", neg + 1, b"beyond-c"), ("s", neg + 1, b"beyond-s")],
            [("c", 0, b"after1-c"), ("c", 0, b"after2-c"), ("c", 0, b"after3-c"), ("s", 0, b"after1-s"), ("s", 0, b"after2-s"), ("s", 0, b"after3-s")]]


def setup_of(spec):
    transport, cv, sv, side, k, mode, err, limit, c, s = spec

    def setup(sim, out):
        net = sim.net
        st = out.wfault = {"hs": [], "faults": [], "writes": {"c": 0, "s": 0}, "streams": [], "probe": None}

        # ---- observation only: the server's connection tables; when the client's handshake() returned or raised, and what the
        # server held at that instant
        orig_init = prudp.PRUDPServerStream.__init__
        def init(self, *a, **kw):
            orig_init(self, *a, **kw)
            st["streams"].append(self)
        sim._patch(prudp.PRUDPServerStream, "__init__", init)

        def table():
            return [(key, cl.state, (cl.minor_ver, cl.max_substream_id, cl.supported_functions)) for srv in st["streams"] for key, cl in srv.clients.items()]

        orig_hs = prudp.PRUDPClient.handshake
        async def handshake(self, credentials, group):
            t0 = sim.now()
            try:
                r = await orig_hs(self, credentials, group)
            except BaseException as e:
                import asyncio
                st["hs"].append({"t0": t0, "t1": sim.now(), "res": "cancelled" if isinstance(e, asyncio.CancelledError) else repr(e)[:120]})
                raise
            rec = {"t0": t0, "t1": sim.now(), "pos": len(net.log), "res": "ok", "key": (self.local_addr, self.local_port, self.local_type),
                   "params": (self.minor_ver, self.max_substream_id, self.supported_functions), "table": table()}
            st["hs"].append(rec)
            if not any(key == rec["key"] for key, _, _ in rec["table"]):
                # description of the half-connection only
                async def probe():
                    try:
                        await self.send(b"probe")
                        st["probe"] = "send() on it returns without an error"
                    except BaseException as e:
                        st["probe"] = "send() on it raises %s" % type(e).__name__
                        if not isinstance(e, Exception):
                            raise
                sim.loop.create_task(probe())
            return r
        sim._patch(prudp.PRUDPClient, "handshake", handshake)

        # ---- the fault
        def strikes(sd):
            if sd != side:
                return False
            st["writes"][sd] += 1
            n = st["writes"][sd]
            return n == k if mode in ("once", "break", "close") else n >= k

        def mkerr():
            return ERRORS[err]()

        if transport == "udp":
            orig_connect, orig_bind = net.connect, net.bind
            def connect(local, remote):
                sock = orig_connect(local, remote)
                orig_send = sock.send
                async def send(data):
                    if strikes("c"):
                        await anyio.lowlevel.checkpoint_if_cancelled()
                        net.log.append(("wfault", sim.now(), sock.local, sock.remote, bytes(data)))
                        st["faults"].append((sim.now(), "c", st["writes"]["c"], len(net.log)))
                        raise mkerr()
                    return await orig_send(data)
                sock.send = send
                return sock
            def bind(addr):
                sock = orig_bind(addr)
                orig_send = sock.send
                async def send(data, dst):
                    if strikes("s"):
                        await anyio.lowlevel.checkpoint_if_cancelled()
                        # the attempted write is recorded (the L1 model emits it), nothing is transmitted, the socket raises
                        net.ntx += 1
                        net.log.append(("tx", net.ntx, sim.now(), sock.addr, dst, bytes(data), ()))
                        net.log.append(("wfault", sim.now(), sock.addr, dst, bytes(data)))
                        st["faults"].append((sim.now(), "s", st["writes"]["s"], len(net.log)))
                        raise mkerr()
                    return await orig_send(data, dst)
                sock.send = send
                return sock
            net.connect, net.bind = connect, bind
        else:
            def stream_fate(local, remote, n, chunk):
                sd = "s" if local == ps.SERVER else "c"
                if mode == "break" and strikes(sd):
                    st["faults"].append((sim.now(), sd, st["writes"][sd], len(net.log)))
                    return "break"
                return "deliver"
            net.stream_fate = stream_fate
            if mode == "close":
                orig_pair = net.stream_pair
                def stream_pair(addr_a, addr_b):
                    a, b = orig_pair(addr_a, addr_b)
                    for stream, sd in ((a, "c"), (b, "s")):
                        def wrap(stream=stream, sd=sd):
                            orig_send = stream.send
                            async def send(data):
                                await orig_send(data)
                                if strikes(sd):
                                    # the peer / a proxy closes the connection right after this write went out: from now on every
                                    # write of either end raises; what was written before still reaches the reader, then EOF (a
                                    # byte stream delivers data before the closure)
                                    if not b.closed:
                                        net.log.append(("sclose", sim.now(), b.local, b.remote))
                                        b.closed = True
                                    sim.loop.call_soon(lambda: sim.loop.create_task(b.close()))
                                    st["faults"].append((sim.now(), sd, st["writes"][sd], len(net.log)))
                            stream.send = send
                        wrap()
                    return a, b
                net.stream_pair = stream_pair
    return setup


import anyio.lowlevel


def _first_tx(sess):
    """instants of the first (attempted) transmission of the client's SYN and CONNECT"""
    obs = ps.Observer(sess.settings, sess.cfg)
    ft = {}
    for e in sess.netlog:
        if e[0] == "tx" and e[4] == ps.SERVER:
            t, data = e[2], e[5]
        elif e[0] == "wfault" and e[3] == ps.SERVER:
            t, data = e[1], e[4]
        elif e[0] in ("swrite", "swfail") and e[3] == ps.SERVER:
            t, data = e[1], e[4]
        else:
            continue
        for p in obs.decode(data, ("ft", e[0], len(ft), t)):
            if p.type in (ps.TYPE_SYN, ps.TYPE_CONNECT) and not p.flags & 1:
                ft.setdefault(p.type, t)
    return ft


def describe(spec):
    transport, cv, sv, side, k, mode, err, limit, c, s = spec
    who = "client" if side == "c" else "server"
    nth = {1: "1st", 2: "2nd", 3: "3rd"}.get(k, "%dth" % k)
    what = {("c", 1): "its SYN", ("c", 2): "its CONNECT request", ("s", 1): "the SYN ack", ("s", 2): "the CONNECT ack"}.get((side, k), "a packet after the handshake")
    how = {"once": "raises %s (this write only)" % err, "from": "and every later one raise %s" % err,
           "break": "breaks the stream connection (reset: the write raises, both ends see the closure)",
           "close": "goes out and the peer / a proxy closes the stream connection right after it"}[mode]
    tr = "lite" if transport == "lite" else "udp client prudp.version=%d / server prudp.version=%d" % (cv, sv)
    return "%s, the %s's %s transport write (%s) %s; client offers %r, server is configured with %r, resend_limit %d" % (tr, who, nth, what, how, c, s, limit)


def oracle(sess, spec):
    transport, cv, sv, side, k, mode, err, limit, c, s = spec
    bad = []
    st = getattr(sess, "wfault", None)
    name = describe(spec)
    if st is None:
        return ["harness: the fault hooks were not installed (%s)" % name]
    want = want_of(spec)
    hs = st["hs"]
    if sess.crash:
        bad.append("%s: the session crashed: %s" % (name, sess.crash))
        return bad
    if sess.timed_out or not hs or (hs[0]["res"] == "cancelled" and "deadline exceeded" in str(sess.connect_error)):
        bad.append("%s: the client's handshake neither completed nor failed (half-open; the harness ended the session after %.1f s of virtual time)" % (name, sess.end_time))
        return bad
    h = hs[0]
    ft = _first_tx(sess)
    budget = (limit + 1) * RESEND_TIMEOUT
    ref = ft.get(ps.TYPE_CONNECT, ft.get(ps.TYPE_SYN, h["t0"]))
    failed_write = lambda e: e[0] in ("wfault", "sbreak", "swfail")
    faults_before = [f for f in st["faults"] if f[3] <= h.get("pos", len(sess.netlog))]
    if h["res"] == "ok":
        mine = [(state, params) for key, state, params in h["table"] if key == h["key"]]
        if not mine:
            bad.append("%s: connect() returned a 'connected' client that reports %r, but at that instant the server holds %d connection(s) and none for this client - half-connected (%s)"
                       % (name, h["params"], len(h["table"]), st.get("probe") or "send() not probed"))
            return bad
        if mine[0][0] != prudp.STATE_CONNECTED:
            bad.append("%s: connect() returned while the server's connection for this client is in state %r" % (name, mine[0][0]))
        if h["params"] != want or mine[0][1] != want:
            bad.append("%s: at the end of the handshake the client reports %r, the server %r, expected min/min/AND %r" % (name, h["params"], mine[0][1], want))
        if h["t1"] - ref > budget + SLACK:
            bad.append("%s: the handshake completed %.3f s after the first transmission of the outstanding packet, the budget is %.2f s" % (name, h["t1"] - ref, budget))
    else:
        clean = "PRUDP connection failed" in h["res"]
        if transport == "lite" and not clean:
            # the stream is gone: the client transport's read loop ends with the stream's error and takes the pending connect() with it
            gone = any(e[0] in ("sclose", "sbreak") for e in sess.netlog)
            clean = gone and (h["res"] == "cancelled" or any(x in h["res"] for x in ("ClosedResourceError", "BrokenResourceError", "EndOfStream")))
        if not clean:
            bad.append("%s: connect() did not fail cleanly with the library's connection error: the handshake ended with %s (connect: %s)" % (name, h["res"], str(sess.connect_error)[:160]))
        if h["t1"] - ref > budget + SLACK:
            bad.append("%s: the handshake failed %.3f s after the first transmission of the outstanding packet, the budget is (resend_limit+1)*resend_timeout = %.2f s" % (name, h["t1"] - ref, budget))
        if side == "c" and faults_before and mode != "close" and h["t1"] - faults_before[0][0] > SLACK and k <= 2:
            bad.append("%s: the failed write was reported to the connection at %.3f s, connect() failed only at %.3f s" % (name, faults_before[0][0], h["t1"]))
        if sess.connect_error is None:
            bad.append("%s: handshake() raised %s but connect() returned" % (name, h["res"]))
        # must-complete cases: no fault at all, or a transient fault of the server's handshake writes with budget left
        if not st["faults"] or (side == "s" and mode == "once" and transport == "udp" and k <= 2 and limit >= 1):
            bad.append("%s: the handshake did not complete (%s) although %s" % (name, h["res"], "no write failed" if not st["faults"] else "the failed write is retransmitted within the budget"))
        return bad
    # ---- connected
    if sess.connect_error is not None:
        bad.append("%s: the handshake completed and both ends hold the connection, but the session could not start: %s" % (name, str(sess.connect_error)[:160]))
        return bad
    pos0 = h["pos"]
    disturbed = [e for e in sess.netlog[pos0:] if failed_write(e) or e[0] == "sclose"]
    end = next((i for i, e in enumerate(sess.netlog) if e[0] == "app" and e[3] in ("disconnect", "done")), len(sess.netlog))
    if not [e for e in sess.netlog[pos0:end] if failed_write(e) or e[0] == "sclose"]:
        snap = sess.checkpoints[0]["ep"] if sess.checkpoints else {}
        pc, psv = snap.get("c", {}).get("params"), snap.get("s", {}).get("params")
        if pc != want or psv != want:
            bad.append("%s: client reports %r, server reports %r, expected min/min/AND %r" % (name, pc, psv, want))
        for sub in range(want[1] + 1):
            for sd in "cs":
                other = "s" if sd == "c" else "c"
                sent = [m for x, sb, m in sess.accepted if x == other and sb == sub]
                if sess.got.get((sd, sub), [])[:len(sent)] != sent or not sent:
                    bad.append("%s: substream %d towards %s did not carry its data" % (name, sub, sd))
        errs = {(e[0], e[1]) for e in sess.send_errors if "ValueError" in e[2]}
        for sd in "cs":
            if (sd, want[1] + 1) not in errs:
                bad.append("%s: send on substream %d (beyond the negotiated %d) was not refused at %s" % (name, want[1] + 1, want[1], sd))
    if disturbed and err != "oserror":
        # a failed write after the handshake: once the connection object of that side has been told (its write raised), every
        # send() begun on it afterwards raises
        caddr = h["key"][0]
        for sd, addr in (("c", caddr), ("s", ps.SERVER)):
            at = next((i for i in range(pos0, len(sess.netlog)) if failed_write(sess.netlog[i]) and sess.netlog[i][2] == addr), None)
            if at is None:
                continue
            accepted = {m for x, sb, m in sess.accepted if x == sd and not isinstance(m, tuple)}
            for e in sess.netlog[at:]:
                if e[0] == "app" and e[2] == sd and e[3] == "send" and e[5] in accepted:
                    bad.append("%s: a transport write of the %s's connection failed at %.3f s; a send() begun on that connection object afterwards (at %.3f s, %r) returned without an error"
                               % (name, "client" if sd == "c" else "server", sess.netlog[at][1], e[1], e[5]))
                    break
    return bad


def specs(rng, quick):
    out = []
    def pair():
        while True:
            c = (rng.choice(range(1, 7)), rng.choice([1, 2, 3]), rng.choice([1, 0x0F, 0xA5A5A5, 0x07, 0x7FFFFF]))
            s = (rng.choice(range(1, 7)), rng.choice([1, 2, 3]), rng.choice([1, 0x0F, 0xA5A5A5, 0x0D, 0xFFFFFF]))
            if c[2] & s[2]:
                return c, s
    n = 0
    vpairs = [(0, 0), (0, 2), (1, 1), (1, 2)]
    ks = (1, 2, 3, 4, 5) if quick else (1, 2, 3, 4, 5, 6, 7, 9)
    # controls: no write fails (k beyond every write of the session is never reached: here side 'n')
    for cv, sv in vpairs:
        c, s = pair()
        out.append(("udp", cv, sv, "n", 0, "once", "broken", 1, c, s))
    c, s = pair()
    out.append(("lite", 1, 1, "n", 0, "break", "broken", 1, c, s))
    for cv, sv in vpairs:
        for side in "cs":
            for k in ks:
                for mode in ("once", "from"):
                    errs = ["broken", "closed"] + (["oserror"] if (side == "s" and mode == "once" and k <= 2) else [])
                    for err in (errs if (k <= 2 or not quick) else [errs[n % 2]]):
                        limits = (0, 1, 2, 3) if (k <= 2 and not quick) else [(0, 1, 2, 3)[n % 4]]
                        for limit in limits:
                            n += 1
                            c, s = pair()
                            out.append(("udp", cv, sv, side, k, mode, err, limit, c, s))
    for side in "cs":
        for k in ks:
            for mode in ("break", "close"):
                for limit in ((0, 2) if quick else (0, 1, 2, 3)):
                    for _ in range(1 if quick else 3):
                        c, s = pair()
                        out.append(("lite", 1, 1, side, k, mode, "broken", limit, c, s))
    return out


def replayable(spec):
    """which L1 replay (if any) covers this session. The L1 model has no datagram write that raises at the CLIENT and no connection
    object that handles a failed datagram write (udp: only the server's stateless handshake answers - the attempted write is in the
    model's output, nothing else changes); stream transports: a reset at a write is a link that is down when the operation starts
    (harness/l1_stream.py), a closure right after a write is replayed when it falls into the handshake before the CONNECT ack."""
    transport, cv, sv, side, k, mode, err, limit, c, s = spec
    if side == "n":
        return transport
    if transport == "udp":
        return "udp" if (side == "s" and k <= 2) else None
    if mode == "break" or k == 1 or (side == "c" and k == 2):
        return "lite"
    return None


def tags(sess, spec):
    """what the session exercised (evidence: distribution of outcomes)"""
    st = getattr(sess, "wfault", None) or {}
    out = []
    hs = st.get("hs") or []
    if hs:
        out.append("wfault:handshake-completed-both-ends-agree" if hs[0]["res"] == "ok" else "wfault:connect-failed-cleanly")
        if hs[0]["res"] == "ok":
            failed_write = lambda e: e[0] in ("wfault", "sbreak", "swfail")
            pos0 = hs[0]["pos"]
            for sd, addr in (("c", hs[0]["key"][0]), ("s", ps.SERVER)):
                at = next((i for i in range(pos0, len(sess.netlog)) if failed_write(sess.netlog[i]) and sess.netlog[i][2] == addr), None)
                if at is not None:
                    refused = {e[3] for e in sess.send_errors if e[0] == sd and "ClosedResourceError" in e[2]}
                    if any(e[0] == "app" and e[2] == sd and e[3] == "send" and e[1] in refused for e in sess.netlog[at:]):
                        out.append("wfault:send-after-failed-write-raised")
    return out
