import NxModel.Nex.RmcClient
import NxModel.Nex.SchemaDriver
import NxModel.Nex.C14Wire
/-!
# C14 driver state: the schema interpreter (C13's line protocol) plus one RMC client call-matching machine

Several generated-client calls may be in flight on ONE `RMCClient` at the same time. Which response a caller is
handed is decided by `RMCClient.request` / the `start` loop — the machine of `NxModel/Nex/RmcClient.lean`
(`step`; C10's model). The C14 tie replays what it observed on a real connection (the order in which `request()`
sections ran, every datagram the client's loop received, every resumption of a caller) through that machine and
compares call ids and returned bodies; the values inside the bodies go through the schema interpreter.

Line protocol (all other lines: `Nx.Schema.Drv.step`):
  mux new <nextId>   -> ok
  mux call <0|1>     -> outs            `request(..., noresponse=<1>)` from entry to the send
  mux recv <hex>     -> outs | crash <Err>
  mux eof | mux cleanup | mux wake <t>  -> outs
  outs = `;`-joined: sent t id | done t body <hex> | done t rmc <code> | done t closed | done t none |
         done t keyerror | set t | warn id | closing t,.. | notready t | notask t   (`-` when empty);
  ` SPECDIFF` appended when the per-call specification machine (`CallSpec`, run in lock step) disagrees,
  ` H-IDS-BROKEN` once a fresh call id collided with the id of a call still outstanding.
  conn <v0> <client minor> <server minor> <client hdr> <server hdr> -> ok <negotiated minor> <client hdr> <server hdr>
                     (both ends of a real PRUDP connection, `NxModel/Nex/C14Wire.lean`)
-/
namespace Nx.C14Mux
open Nx Nx.Rmc Nx.RmcClient

def showOutcome : Outcome → String
  | .body b => "body " ++ hexOut b
  | .rmcError c => s!"rmc {c}"
  | .closed => "closed"
  | .none => "none"
  | .keyError => "keyerror"

def insertSorted (x : Nat) : List Nat → List Nat
  | [] => [x]
  | y :: r => if x ≤ y then x :: y :: r else y :: insertSorted x r

def joinNat (l : List Nat) : String := ",".intercalate ((l.foldr insertSorted []).map toString)

def showOut : Out → String
  | .sent t id => s!"sent {t} {id}"
  | .done t o => s!"done {t} " ++ showOutcome o
  | .set t => s!"set {t}"
  | .warnInvalidCallId id => s!"warn {id}"
  | .closing ts => "closing " ++ (if ts.isEmpty then "-" else joinNat ts)
  | .notReady t => s!"notready {t}"
  | .noSuchTask t => s!"notask {t}"

def showOuts (l : List Out) : String := if l.isEmpty then "-" else ";".intercalate (l.map showOut)

/-- implementation machine, specification machine, "ids were distinct so far" -/
structure D where
  s : State
  a : CallSpec
  hids : Bool

def D.init : D := { s := RmcClient.init, a := CallSpec.init, hids := true }

def apply (d : D) (op : Op) : D × String :=
  let ok := d.hids && distinctLive d.s [op]
  let (s', o) := RmcClient.step d.s op
  let (a', oa) := CallSpec.step d.a op
  let diff := o.filter Out.observable != oa
  ({ s := s', a := a', hids := ok },
   showOuts o ++ (if diff then " SPECDIFF" else "") ++ (if !ok then " H-IDS-BROKEN" else ""))

def stepMux (d : D) : List String → D × String
  | ["new", n] =>
    match n.toNat? with
    | some n => ({ s := { RmcClient.init with nextId := n }, a := { CallSpec.init with nextId := n }, hids := true }, "ok")
    | none => (d, "bad-op")
  | ["call", b] =>
    if b = "0" then apply d (.call false) else if b = "1" then apply d (.call true) else (d, "bad-op")
  | ["recv", h] =>
    match fromHex h with
    | some data =>
      match decode data with
      | .error e => (d, "crash " ++ e.name)
      | .ok _ =>
        match opOfData data with
        | some op => apply d op
        | none => (d, "bad-op")
    | none => (d, "bad-op")
  | ["eof"] => apply d .eof
  | ["cleanup"] => apply d .cleanup
  | ["wake", t] =>
    match t.toNat? with
    | some t => apply d (.wake t)
    | none => (d, "bad-op")
  | _ => (d, "bad-op")

structure St where
  env : Schema.Env
  mux : D

def init : St := { env := Schema.Drv.initEnv, mux := D.init }

def step (st : St) (line : String) : St × String :=
  if line.startsWith "mux " then
    let (d, o) := stepMux st.mux ((line.splitOn " ").drop 1)
    ({ st with mux := d }, o)
  else if line.startsWith "conn " then
    (st, C14Wire.stepConn ((line.splitOn " ").drop 1))
  else
    let (e, o) := Schema.Drv.step st.env line
    ({ st with env := e }, o)

end Nx.C14Mux
