import NxModel.Prudp.Packet
/-!
# PRUDP v0 codec — mirrors `PRUDPMessageV0` (prudp.py 130-268), all 2×2×2 variants

The three version knobs are compared with `== 0` in the code, so any non-zero value selects the
"version 1" behaviour.
-/
namespace Nx.Prudp
open Nx

structure V0Cfg where
  signatureVersion : Nat := 0
  checksumVersion : Nat := 1
  flagsVersion : Nat := 1
  accessKey : Bytes := []
  deriving DecidableEq, Repr

/-- `sum(bytes)` -/
def sumBytes : Bytes → Nat
  | [] => 0
  | x :: r => x.toNat + sumBytes r

/-- `sum(struct.unpack("<%iI" % (len//4), data))` — complete little-endian words only -/
def sumWords : Bytes → Nat
  | a :: b :: c :: d :: r =>
      (a.toNat + 256 * b.toNat + 65536 * c.toNat + 16777216 * d.toNat) + sumWords r
  | _ => 0

/-- `data[len(data) & ~3:]` -/
def trailing (data : Bytes) : Bytes := data.drop (data.length / 4 * 4)

/-- size of the checksum field -/
def V0Cfg.csz (c : V0Cfg) : Nat := if c.checksumVersion = 0 then 4 else 1

/-- `calc_checksum` -/
def v0Checksum (c : V0Cfg) (data : Bytes) : Nat :=
  let key := sumBytes c.accessKey
  if c.checksumVersion = 0 then
    let padded := data ++ List.replicate ((4 - data.length % 4) % 4) 0
    ((key % 256) + sumWords padded) % 4294967296
  else
    let temp := sumWords data % 4294967296
    (key + sumBytes (trailing data) + sumBytes (u32le temp)) % 256

/-- the type/flags field -/
def v0TypeFlags (c : V0Cfg) (p : Packet) : Bytes :=
  if c.flagsVersion = 0 then u8 (pyOr p.type p.flags 3) else u16le (pyOr p.type p.flags 4)

/-- `PRUDPMessageV0.encode_options` (total; a missing connection signature writes nothing) -/
def v0EncodeOptions (p : Packet) : Bytes :=
  (if isSynOrConnect p.type then p.connectionSignature.getD [] else []) ++
  (if p.type = 2 then u8 p.fragmentId else []) ++
  (if hasSize p.flags then u16le p.payload.length else [])

/-- everything before the checksum -/
def v0Body (c : V0Cfg) (p : Packet) : Bytes :=
  u8 (pyOr p.sourcePort p.sourceType 4) ++ u8 (pyOr p.destPort p.destType 4) ++
  v0TypeFlags c p ++ u8 p.sessionId ++ p.signature.getD [] ++ u16le p.packetId ++
  v0EncodeOptions p ++ p.payload

def v0ChecksumBytes (c : V0Cfg) (data : Bytes) : Bytes :=
  if c.checksumVersion = 0 then u32le (v0Checksum c data) else u8 (v0Checksum c data)

/-- `PRUDPMessageV0.encode` (total) -/
def v0Encode (c : V0Cfg) (p : Packet) : Bytes :=
  v0Body c p ++ v0ChecksumBytes c (v0Body c p)

/-- the first exception `encode` raises, in evaluation order -/
def v0EncodeErr (c : V0Cfg) (p : Packet) : Option Err :=
  if pyOr p.sourcePort p.sourceType 4 ≥ 256 then some .value
  else if pyOr p.destPort p.destType 4 ≥ 256 then some .value
  else if c.flagsVersion = 0 ∧ pyOr p.type p.flags 3 ≥ 256 then some .value
  else if c.flagsVersion ≠ 0 ∧ pyOr p.type p.flags 4 ≥ 65536 then some .struct
  else if p.sessionId ≥ 256 then some .value
  else if p.signature = none then some .type
  else if p.packetId ≥ 65536 then some .struct
  else if isSynOrConnect p.type = true ∧ p.connectionSignature = none then some .type
  else if p.type = 2 ∧ p.fragmentId ≥ 256 then some .value
  else if hasSize p.flags = true ∧ p.payload.length ≥ 65536 then some .struct
  else none

def v0EncodeChecked (c : V0Cfg) (p : Packet) : Except Err Bytes :=
  match v0EncodeErr c p with
  | some e => .error e
  | none => .ok (v0Encode c p)

/-- type/flags field reader: returns (flags, type, rest) -/
def v0RdTypeFlags (c : V0Cfg) (r : Bytes) : Except Err (Nat × Nat × Bytes) :=
  if c.flagsVersion = 0 then
    match rdU8 r with
    | .error e => .error e
    | .ok (tf, r) => .ok (tf / 8, tf % 8, r)
  else
    match rdU16 r with
    | .error e => .error e
    | .ok (tf, r) => .ok (tf / 16, tf % 16, r)

/-- connection signature (SYN/CONNECT) and fragment id (DATA) -/
def v0RdOptions (type : Nat) (r : Bytes) : Except Err (Option Bytes × Nat × Bytes) :=
  match (if isSynOrConnect type then (rd 4 r).map (fun (x, r) => (some x, r)) else .ok (none, r)) with
  | .error e => .error e
  | .ok (cs, r) =>
    if type = 2 then
      match rdU8 r with
      | .error e => .error e
      | .ok (f, r) => .ok (cs, f, r)
    else .ok (cs, 0, r)

/-- payload, checksummed bytes and the stream from the checksum field on.
    `whole` = the datagram from this packet's first byte, `r` = the stream after the fixed fields.
    Without HAS_SIZE the code reads `available - csz` bytes; when that is negative
    (`StreamIn.read` with a negative count returns `b""` and moves the cursor *backwards*)
    the payload is empty and the checksum field overlaps the last header bytes — in both cases
    the checksum field is the last `csz` bytes of the datagram. -/
def v0RdPayload (c : V0Cfg) (flags : Nat) (whole r : Bytes) : Except Err (Bytes × Bytes × Bytes) :=
  if hasSize flags then
    match rdU16 r with
    | .error e => .error e
    | .ok (size, r) =>
      match rd size r with
      | .error e => .error e
      | .ok (payload, r) => .ok (payload, whole.take (whole.length - r.length), r)
  else
    .ok (r.take (r.length - c.csz), whole.take (whole.length - c.csz), whole.drop (whole.length - c.csz))

def v0RdChecksum (c : V0Cfg) (r : Bytes) : Except Err (Nat × Bytes) :=
  if c.checksumVersion = 0 then rdU32 r else rdU8 r

/-- one iteration of the `while not stream.eof()` loop of `decode` -/
def v0DecodeOne (c : V0Cfg) (whole : Bytes) : Except Err (Packet × Bytes) :=
  match rdU8 whole with
  | .error e => .error e
  | .ok (source, r) =>
  match rdU8 r with
  | .error e => .error e
  | .ok (dest, r) =>
  match v0RdTypeFlags c r with
  | .error e => .error e
  | .ok (flags, type, r) =>
  match rdU8 r with
  | .error e => .error e
  | .ok (session, r) =>
  match rd 4 r with
  | .error e => .error e
  | .ok (sig, r) =>
  match rdU16 r with
  | .error e => .error e
  | .ok (pid, r) =>
  match v0RdOptions type r with
  | .error e => .error e
  | .ok (cs, frag, r) =>
  match v0RdPayload c flags whole r with
  | .error e => .error e
  | .ok (payload, ckdata, r) =>
  match v0RdChecksum c r with
  | .error e => .error e
  | .ok (ck, r) =>
    if ck ≠ v0Checksum c ckdata then .error .value
    else .ok ({ type := type, flags := flags, version := some 0,
                sourceType := source / 16, sourcePort := source % 16,
                destType := dest / 16, destPort := dest % 16,
                sessionId := session, packetId := pid, fragmentId := frag,
                connectionSignature := cs, signature := some sig, payload := payload }, r)

def v0Loop (c : V0Cfg) : Nat → Bytes → Except Err (List Packet)
  | 0, _ => .error .other
  | fuel + 1, data =>
    if data.isEmpty then .ok []
    else
      match v0DecodeOne c data with
      | .error e => .error e
      | .ok (p, r) =>
        match v0Loop c fuel r with
        | .error e => .error e
        | .ok ps => .ok (p :: ps)

/-- `PRUDPMessageV0.decode` -/
def v0Decode (c : V0Cfg) (data : Bytes) : Except Err (List Packet) := v0Loop c (data.length + 1) data

/-- packets that the v0 encoding (variant `c`) carries faithfully -/
def V0WF (c : V0Cfg) (p : Packet) : Prop :=
  p.version = some 0 ∧
  p.sourceType < 16 ∧ p.sourcePort < 16 ∧ p.destType < 16 ∧ p.destPort < 16 ∧
  (if c.flagsVersion = 0 then p.type < 8 ∧ p.flags < 32 else p.type < 16 ∧ p.flags < 4096) ∧
  p.sessionId < 256 ∧ p.packetId < 65536 ∧
  optLen p.signature 4 ∧
  (if isSynOrConnect p.type then optLen p.connectionSignature 4 else p.connectionSignature = none) ∧
  (if p.type = 2 then p.fragmentId < 256 else p.fragmentId = 0) ∧
  p.substreamId = 0 ∧ p.initialUnreliableId = 0 ∧ p.maxSubstreamId = 0 ∧
  p.supportedFunctions = 0 ∧ p.minorVersion = 0 ∧
  (hasSize p.flags = true → p.payload.length < 65536)

instance (c : V0Cfg) (p : Packet) : Decidable (V0WF c p) := by unfold V0WF; exact inferInstance

end Nx.Prudp
