import NxProofs.PrudpPayload
import NxProofs.CryptoAgree
import NxProofs.PrudpChecked
import NxModel.Crypto.Inflate
/-!
# C08 — PRUDP bytes on the wire match the protocol specification

**Partial by nature.** "Equals the published protocol" is a claim about prudp.py versus an independent description; a
theorem cannot establish it about Python code. What Lean contributes is the *fixed, executable reference*
(`NxModel/Prudp/{V0,V1,Lite,Options}.lean` for headers, option blocks and checksums; `Sig.lean` for v0/v1/lite packet and
connection signatures; `Payload.lean` for the substream key chain, unreliable keys, RC4 with running position, zlib
framing with the ratio byte, Kerberos envelope, connection request/response) and the theorems below showing that the
reference is internally consistent: what it emits, it accepts and decodes to the same fields; its key chain, ratio byte
and layouts are what the description says. The agreement of prudp.py / kerberos.py with the reference is differential
(`harness/corr_C08.py`, both directions), sampled and exhaustive on the small axes.
-/
namespace Nx.C08
open Nx Nx.Prudp Nx.Crypto

/-! ## key schedule -/

/-- the cipher key of substream `i` is `modify_key` applied `i` times to the session key, for every substream -/
theorem substream_keys_chain (key : Bytes) (maxSubstream i : Nat) (h : i ≤ maxSubstream) :
    (substreamKeys key maxSubstream)[i]? = some (modifyKeyN i key) :=
  substreamKeys_get key maxSubstream i h

theorem substream_keys_count (key : Bytes) (maxSubstream : Nat) : (substreamKeys key maxSubstream).length = maxSubstream + 1 :=
  substreamKeys_length key maxSubstream

/-- `modify_key`: byte `j` of the first half becomes `key[j] + (len/2 + 1) - j` mod 256, the second half is unchanged,
    the length is kept (so every derived key is as acceptable to RC4 as the session key) -/
theorem modify_key_def (k : Bytes) (j : Nat) :
    (modifyKey k)[j]? = k[j]?.map (fun x => if j < k.length / 2 then b8 (x.toNat + (k.length / 2 + 1) - j) else x) :=
  modifyKey_get k j

theorem modify_key_length (k : Bytes) : (modifyKey k).length = k.length := modifyKey_length k

/-- per-packet key of unreliable DATA: byte 0 += sequence id, byte 1 += sequence id >> 8, byte 31 += session id
    (all mod 256) of the 32-byte key derived from the session key; nothing else changes -/
theorem unreliable_key_def (k : Bytes) (packetId sessionId j : Nat) :
    (makeUnreliableKey k packetId sessionId)[j]? =
      if j = 0 then k[j]?.map (fun x => b8 (x.toNat + packetId))
      else if j = 1 then k[j]?.map (fun x => b8 (x.toNat + packetId / 256))
      else if j = 31 then k[j]?.map (fun x => b8 (x.toNat + sessionId))
      else k[j]? :=
  makeUnreliableKey_get k packetId sessionId j

theorem unreliable_key_length (k : Bytes) (packetId sessionId : Nat) :
    (makeUnreliableKey k packetId sessionId).length = k.length :=
  makeUnreliableKey_length k packetId sessionId

theorem unreliable_base_key_length (sessionKey : Bytes) : (initUnreliableKey sessionKey).length = 32 :=
  initUnreliableKey_length sessionKey

/-! ## stream cipher: encryption and decryption started from the same state stay in step -/

theorem rc4_decrypt_encrypt (x : Bytes) (st : Rc4) :
    (rc4Apply st (rc4Apply st x).1).1 = x ∧ (rc4Apply st (rc4Apply st x).1).2 = (rc4Apply st x).2 :=
  rc4Apply_involutive x st

/-! ## compression framing -/

/-- the ratio byte is `len(data) / len(compressed) + 1` (integer division); the code's float expression
    `int(a / b + 1)` equals it for sizes far below 2^24 (argued in DESIGN §5 C08, compared at the boundaries by the
    harness) -/
theorem ratio_byte_def (data z : Bytes) (hz : z ≠ []) (hr : data.length / z.length + 1 < 256) :
    compressFrame data z = .ok (u8 (data.length / z.length + 1) ++ z) :=
  compressFrame_def data z hz hr

/-- emitted framing is accepted (zlib's own inverse is the oracle `some data`) -/
theorem compression_framing_roundtrip (data z : Bytes) (hz : z ≠ []) (hr : data.length / z.length + 1 < 256) :
    (compressFrame data z).bind (fun f => decompressFrame f (some data)) = .ok data :=
  decompressFrame_compressFrame data z hz hr

theorem compression_stored (body : Bytes) (inf : Option Bytes) : decompressFrame (0 :: body) inf = .ok body :=
  decompressFrame_stored body inf

/-! ## Kerberos envelope and the connection request / response -/

theorem kerberos_envelope_roundtrip (key data : Bytes) (h : 0 < key.length ∧ key.length ≤ 256) :
    (kerbEncrypt key data).bind (kerbDecrypt key) = .ok data :=
  kerbDecrypt_encrypt key data h

theorem kerberos_envelope_reject (key buffer : Bytes)
    (h : buffer.drop (buffer.length - 16) ≠ hmacMd5 key (buffer.take (buffer.length - 16))) :
    kerbDecrypt key buffer = .error .value :=
  kerbDecrypt_reject key buffer h

/-- CONNECT payload: `u32 |ticket| ‖ ticket ‖ u32 (|pid|+8+16) ‖ RC4(session key, pid ‖ cid ‖ check) ‖ HMAC-MD5` -/
theorem connreq_layout (pidSize pid cid check : Nat) (sk ticket : Bytes)
    (hk : 0 < sk.length ∧ sk.length ≤ 256) (ht : ticket.length < 4294967296)
    (hp : if pidSize = 8 then pid < 18446744073709551616 else pid < 4294967296)
    (hc : cid < 4294967296) (hch : check < 4294967296) :
    buildConnectionRequest pidSize pid cid check sk ticket =
      .ok (u32le ticket.length ++ ticket ++
           (u32le ((if pidSize = 8 then 8 else 4) + 8 + 16) ++
            (rc4 sk (connectionRequestBody pidSize pid cid check) ++
             hmacMd5 sk (rc4 sk (connectionRequestBody pidSize pid cid check))))) :=
  buildConnectionRequest_layout pidSize pid cid check sk ticket hk ht hp hc hch

/-- the client accepts exactly the server's answer `u32 4 ‖ u32 (check + 1 mod 2^32)` and nothing else -/
theorem connresp_accept_iff (check : Nat) (data : Bytes) :
    checkConnectionResponse (some check) data = .ok () ↔ data = connectionResponse check :=
  checkConnectionResponse_iff check data

theorem connresp_anonymous_iff (data : Bytes) : checkConnectionResponse none data = .ok () ↔ data = [] :=
  checkConnectionResponse_anonymous data

/-! ## datagrams signed and encoded by the reference are decoded to the same fields (reference side of
"bytes produced by that implementation are accepted"; the real decoder's side is the reverse differential run) -/

theorem v1_reference_datagram_accepted (key : Bytes) (p : Packet) (sk cs : Bytes) (h : V1WF p) :
    v1Decode (v1Emit key p sk cs) = .ok [{ p with signature := some (v1PacketSignature key p sk cs) }] :=
  v1Decode_emit key p sk cs h

theorem v0_reference_datagram_accepted (c : V0Cfg) (p : Packet) (sk cs : Bytes) (h : V0WF c p)
    (hcs : cs = [] ∨ cs.length = 4) :
    v0Decode c (v0Emit c p sk cs) = .ok [{ p with signature := some (v0PacketSignature c p sk cs) }] :=
  v0Decode_emit c p sk cs h hcs

theorem v1_signature_size (key : Bytes) (p : Packet) (sk cs : Bytes) : (v1PacketSignature key p sk cs).length = 16 :=
  v1PacketSignature_length key p sk cs

theorem v0_signature_size (c : V0Cfg) (p : Packet) (sk cs : Bytes) (hcs : cs = [] ∨ cs.length = 4) :
    (v0PacketSignature c p sk cs).length = 4 :=
  v0PacketSignature_length c p sk cs hcs

/-! ## non-vacuity and fixed vectors (the reference's constants cannot drift unnoticed) -/

example : modifyKey [1, 2, 3, 4, 5] = [4, 4, 3, 4, 5] := by decide
example : (substreamKeys [10, 20, 30, 40] 3).length = 4 := by decide
example : (substreamKeys [10, 20, 30, 40] 2)[2]? = some (modifyKey (modifyKey [10, 20, 30, 40])) := by decide
example : makeUnreliableKey (List.replicate 32 0xFF) 0x1234 0x02 =
    [0x33, 0x11] ++ List.replicate 29 0xFF ++ [0x01] := by decide
example : compressFrame (List.replicate 100 0) [1, 2, 3, 4, 5, 6, 7, 8, 9, 10, 11] = .ok (10 :: [1, 2, 3, 4, 5, 6, 7, 8, 9, 10, 11]) := by
  decide
example : checkConnectionResponse (some 0xFFFFFFFF) [4, 0, 0, 0, 0, 0, 0, 0] = .ok () := by decide
example : checkConnectionResponse (some 5) [4, 0, 0, 0, 5, 0, 0, 0] = .error .value := by decide
example : v1SigKey.length = 15 := by decide
example : DEFAULT_KEY = [67, 68, 38, 77, 76] := by decide
example : (1 : Nat) < 16 ∧ (0 < (16 : Nat) ∧ (16 : Nat) ≤ 256) := by decide

/-! ## the endpoint model signs with the reference

The L1 endpoint model (`NxModel/Prudp/Conn.lean`, replayed byte- and tick-exactly against real sessions by C01/C02/C04–C07)
gets its signature functions from `L1Crypto.lean`, written separately from `Sig.lean`. They are the same functions, so
every datagram of every replayed session is also a datagram recomputed by this reference (the plan's tie (a)). -/

theorem l1_signs_with_reference (v0 : V0Cfg) (p : Packet) (sk cs : Bytes) :
    L1.packetSigFn v0 .v0 p sk cs = some (v0PacketSignature v0 p sk cs) ∧
    L1.packetSigFn v0 .v1 p sk cs = some (v1PacketSignature v0.accessKey p sk cs) ∧
    L1.packetSigFn v0 .lite p sk cs = litePacketSignature v0.accessKey p cs :=
  L1.packetSigFn_agree v0 p sk cs

theorem l1_connection_signatures_are_reference (a : L1.Addr) :
    L1.connSigFn .v0 a = v0ConnectionSignature (L1.inetAton a.1) a.2 ∧
    L1.connSigFn .v1 a = v1ConnectionSignature (L1.inetAton a.1) a.2 ∧
    L1.connSigFn .lite a = liteConnectionSignature (L1.inetAton a.1) a.2 :=
  ⟨rfl, rfl, rfl⟩

theorem l1_unreliable_base_key_is_reference (key : Bytes) : L1.initUnreliableKey key = initUnreliableKey key := rfl

/-! ### the reference's inflater (RFC 1950 / 1951, `NxModel/Crypto/Inflate.lean`) on published-format streams

These are TESTS (closed examples evaluated by the kernel), not a theorem about all streams: a stored block as zlib itself
emits it and a damaged header (the Huffman paths take the kernel half a minute per example on arrays, so they are left to the
compiled driver). The agreement with `zlib.decompress`
on arbitrary streams is established differentially on every run (valid streams of every level / strategy / window size /
flush mode; truncated, bit-flipped, re-headed and over-long ones). -/
example : Crypto.zlibDecompress [120, 1, 1, 5, 0, 250, 255, 104, 101, 108, 108, 111, 6, 44, 2, 21] = some [104, 101, 108, 108, 111] := by decide +kernel
example : Crypto.zlibDecompress [120, 219, 203, 72, 205, 201, 201, 7, 0, 6, 44, 2, 21] = none := by decide +kernel   -- header check fails

end Nx.C08
