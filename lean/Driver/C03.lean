import NxModel.Bytes
/-! driver stub for C03 (replaced when the property's model lands) -/
def main : IO Unit := IO.println "stub C03"
