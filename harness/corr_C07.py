"""C07 — malformed or hostile traffic cannot crash a transport or disturb other peers.

Tie + oracle: 1..4 real client connections to one real server transport with 1..3 virtual ports (datagram v0 / v1 /
dual-stack, and stream transports), twin runs (reference / attacked). A third party injects, at every point of the
victims' sessions: arbitrary bytes, truncations and splices of genuine datagrams, headers announcing more than follows,
unknown types and options, zero-length reads — to the server from its own address, to the server with a victim's
address but another port, and to the clients. Oracle: the victims emit the same datagrams, receive the same messages,
each message is delivered only on the connection and port it was addressed to, the server's tables never grow beyond
the genuine clients, no receive loop dies, every read decodes at most len/10+1 packets. The server transport of every
datagram run is replayed through the Lean L1 model."""
import multiprocessing, os, random, traceback
import multi_session as ms
import prudp_session as ps
import c07_multiport as mpo
import c07_writefail as wf
import c07_forgedack as fa
import c07_handshake as hs
import l1_trace
import l1_stream
from sim import ticks, quant

LEVEL = "proof"
EXTRA_TARGETS = ["nxdrv_C02"]


def hostile_payloads(rng, genuine):
    """byte strings a third party might send"""
    out = [b"", b"\x00", rng.randbytes(1), rng.randbytes(rng.randint(2, 40)), rng.randbytes(300),
           b"\xea\xd0\x01", b"\xea\xd0\x01\xff\xff\xff", b"\xea\xd0\x01\x00\xff\xff" + rng.randbytes(20),       # v1: huge announced payload
           b"\xea\xd0\x01\x20\x00\x00" + rng.randbytes(8) + bytes(16) + bytes([9, 1, 0]) + rng.randbytes(29),     # unknown option
           b"\x80\x00\xff\xff" + rng.randbytes(8), b"\x80" + rng.randbytes(4), b"\x81" + rng.randbytes(20),       # lite framing
           bytes([0xAF, 0xA1]) + rng.randbytes(9), bytes([0xAF, 0xA1, 0x7F, 0xFF]) + rng.randbytes(20)]           # v0-looking
    for g in rng.sample(genuine, min(len(genuine), 6)):
        if len(g) > 4:
            k = rng.randrange(1, len(g))
            out.append(g[:k])                                   # truncation
            out.append(g[k:])                                   # tail
            out.append(g + g[:k])                               # splice
            out.append(g[:k] + rng.randbytes(5) + g[k:])        # insertion
            b = bytearray(g); b[rng.randrange(len(b))] ^= 1 << rng.randrange(8); out.append(bytes(b))
            if g[:2] == b"\xea\xd0":
                b = bytearray(g); b[4] = 0xFF; b[5] = 0xFF; out.append(bytes(b))      # announces 65535 payload bytes
                b = bytearray(g); b[3] = 0xFF; out.append(bytes(b))                    # announces 255 option bytes
    return out


def undefined_type_packets(rng, genuine, settings):
    """completely well-formed packets (magic, lengths, options, checksum, addressed like a genuine one) whose 4-bit type field
    holds a value the protocol does not define (5..15): no decoder rejects them, so they reach the packet handling itself"""
    import copy
    from nintendo.nex import prudp
    out = []
    try:
        sel = prudp.PRUDPMessageSelector(settings)
    except Exception:
        return out
    for g in rng.sample(genuine, min(len(genuine), 4)):
        try:
            pk = sel.decode(g)
        except Exception:
            continue
        for p in pk[:1]:
            for t in rng.sample(range(5, 16), 3):
                q = copy.copy(p)
                q.type = t
                q.flags = rng.choice([0, 1, 2, 2 | 4, 8, p.flags])
                if rng.random() < 0.3:
                    q.source_port, q.dest_port = rng.randrange(16), rng.randrange(16)      # also for ports nobody bound
                try:
                    enc = sel.select(p.version)
                    one = enc.encode(q)
                    out.append(one)
                    # (never next to a whole genuine packet: a replayed genuine packet is valid traffic, which is C04's subject)
                    out.append(one + one if rng.random() < 0.5 else out[rng.randrange(len(out))] + one)     # several in one read
                except Exception:
                    pass
    return out


def unbound_port_packets(rng, genuine, settings):
    """copies of genuine packets (any type, acknowledgements included) re-addressed to virtual ports that are not bound at the
    receiver — the ports a client transport hands out first, and the neighbours of the genuine one: they must be dropped and forgotten"""
    import copy
    from nintendo.nex import prudp
    out = []
    try:
        sel = prudp.PRUDPMessageSelector(settings)
    except Exception:
        return out
    for g in rng.sample(genuine, min(len(genuine), 5)):
        try:
            pk = sel.decode(g)
        except Exception:
            continue
        for p in pk[:1]:
            for port in rng.sample([14, 13, 12, 11], 3):       # never a port a victim has bound: that would be a replay of valid traffic (C04)
                if port == p.dest_port:
                    continue
                q = copy.copy(p)
                q.dest_port = port
                try:
                    out.append(sel.select(p.version).encode(q))
                except Exception:
                    pass
    return out


def datagram_attack(intensity):
    def attack(sim, out, rng):
        genuine = []
        genuine_srv = []
        net = sim.net
        out.injected = 0
        from nintendo.nex import prudp
        def on_tx(tx):
            if tx.src == ms.ATTACKER:
                return
            genuine.append(tx.data)
            if tx.src == ms.SERVER:
                genuine_srv.append(tx.data)
                if getattr(out.spec, "reuse_transport", 0) and tx.dst != ms.ATTACKER:
                    # network duplicates of the server's acknowledgement of a DISCONNECT: they arrive when the connection is gone and
                    # its port is unbound (and about to be handed to the transport's next connection)
                    try:
                        pk = prudp.PRUDPMessageSelector(out.settings_s).decode(tx.data)
                    except Exception:
                        pk = []
                    if len(pk) == 1 and pk[0].type == 3 and pk[0].flags & 1:
                        for d in (0.02, 0.03, 0.045):
                            net.inject(ms.SERVER, tx.dst, tx.data, d)
                            out.injected += 1
            if rng.random() > intensity:
                return
            victims = [a for a in net.endpoints if a not in (ms.SERVER, ms.ATTACKER)]
            # correctly signed handshake requests of an unknown peer with an unacceptable login payload (keyed servers)
            if getattr(out.spec, "key", None) and rng.random() < 0.5:
                from nintendo.nex import prudp
                enc = prudp.PRUDPMessageV1(out.settings_s)
                for sport in rng.sample(range(16), 3):
                    p = prudp.PRUDPPacket(1, 2 | 4 | 8)
                    p.version = 1
                    p.source_type = p.dest_type = 10
                    p.source_port, p.dest_port = sport, out.spec.vports[0]
                    p.session_id, p.packet_id = rng.randrange(256), 1
                    p.connection_signature = enc.calc_connection_signature(ms.SERVER)
                    p.initial_unreliable_id = 1
                    p.payload = rng.choice([b"", b"\x04\x00\x00\x00abcd\x04\x00\x00\x00efgh", rng.randbytes(40), b"\xff\xff\xff\xff"])
                    p.signature = enc.calc_packet_signature(p, b"", enc.calc_connection_signature(ms.ATTACKER))
                    net.inject(ms.ATTACKER, ms.SERVER, enc.encode(p), 0.001)
                    out.injected += 1
            ut = undefined_type_packets(rng, genuine, out.settings_s) if rng.random() < 0.5 else []
            if getattr(out.spec, "reuse_transport", 0) and victims:
                # to the clients, with the server's address: strays for ports that are not bound at this moment (between two connections
                # of a transport that is used again, every port is unbound)
                for payload in unbound_port_packets(rng, genuine_srv, out.settings_s):
                    net.inject(ms.SERVER, rng.choice(victims), payload, rng.choice([0.0, 0.001, 0.03, 0.07]))
                    out.injected += 1
            for payload in rng.sample(hostile_payloads(rng, genuine), 5) + ut:
                mode = rng.choice(["third-to-server", "third-to-server", "spoof-victim-other-port", "to-client", "spoof-server-to-client"])
                d = rng.choice([0.0, 0.001, 0.004])
                if mode == "third-to-server":
                    net.inject(ms.ATTACKER, ms.SERVER, payload, d)
                elif mode == "spoof-victim-other-port" and victims:
                    v = rng.choice(victims)
                    net.inject((v[0], v[1] + 1000), ms.SERVER, payload, d)
                elif mode == "to-client" and victims:
                    net.inject(ms.ATTACKER, rng.choice(victims), payload, d)
                elif mode == "spoof-server-to-client" and victims:
                    net.inject(ms.SERVER, rng.choice(victims), payload, d)
                out.injected += 1
        net.on_tx = on_tx
    return attack


def stream_attack(kind):
    """a hostile stream connection to a stream-transport server"""
    def attack(sim, out, rng):
        out.injected = 0
        import anyio
        async def hostile():
            listener = sim.stream_listeners.get(ms.SERVER)
            if listener is None:
                return
            a, b = sim.net.stream_pair(ms.ATTACKER, ms.SERVER)
            listener(b)
            await anyio.sleep(quant(0.02))
            if kind.startswith("closes-mid-frame"):
                # several third parties in a row, each sending the start of a frame (or a frame announcing more than follows) and
                # closing: whatever they leave behind must not meet the well-behaved peers that connect afterwards
                leftovers = [b"\x80\x00\x10\x00\xaa", b"\x80", b"\x80\x04\x00\x00\xaa\x01\x01\x00\x10\x00\x00\x00\x01",
                             b"\x80\x00\xff\x00\xaa\x01\x01\x00\x20\x00\x01\x00" + bytes(40), rng.randbytes(7)]
                rng.shuffle(leftovers)
                for j, lo in enumerate(leftovers):
                    if j:
                        out.probe_addrs.add((ms.ATTACKER[0], ms.ATTACKER[1] + j))
                        a, b = sim.net.stream_pair((ms.ATTACKER[0], ms.ATTACKER[1] + j), ms.SERVER)
                        listener(b)
                        await anyio.sleep(quant(0.01))
                    await a.send(lo); out.injected += 1
                    await anyio.sleep(quant(0.02))
                    await a.close()
                    await anyio.sleep(quant(0.02))
                return
            if kind == "partial-header":
                await a.send(b"\x80\x00\x10\x00\xaa"); out.injected += 1          # 5 bytes of a header, then silence
            elif kind == "bad-magic":
                await a.send(b"\x55" + rng.randbytes(30)); out.injected += 1
            elif kind == "garbage-stream":
                for _ in range(20):
                    await a.send(rng.randbytes(rng.randint(0, 40))); out.injected += 1
                    await anyio.sleep(0.03)
            elif kind == "huge-announce":
                await a.send(b"\x80\xff\xff\xff" + rng.randbytes(8)); out.injected += 1
            elif kind == "never-reads":
                # valid SYNs for the served port, each provoking an answer, from a peer that never reads its socket: the server's
                # write to THIS connection may block for good, everybody else's traffic must go on
                from nintendo.nex import prudp
                enc = prudp.PRUDPLiteMessage(out.settings_s)
                a.never_reads, a.window = True, 64
                for j in range(40):
                    p = prudp.PRUDPPacket(0, 4)
                    p.source_type = p.dest_type = 10
                    p.source_port, p.dest_port = 20 + j % 10, out.spec.vports[0] if isinstance(out.spec.vports[0], int) else out.spec.vports[0][0]
                    p.session_id = p.packet_id = p.fragment_id = p.substream_id = 0
                    p.minor_version, p.supported_functions, p.max_substream_id = 0, 0, 0
                    p.connection_signature = b""
                    p.payload = b""
                    p.signature = enc.calc_packet_signature(p, b"", b"")
                    await a.send(enc.encode(p)); out.injected += 1
                    await anyio.sleep(quant(0.02))
            await anyio.sleep(30)
        sim.loop.create_task(hostile())
    return attack


def compare_views(a, b, ignore_dst):
    if not isinstance(ignore_dst, (set, frozenset)):
        ignore_dst = {ignore_dst}
    for k in ("got", "srv_got", "connect_errors"):
        if a[k] != b[k]:
            return k, repr(a[k])[:300], repr(b[k])[:300]
    for src in sorted(set(a["tx"]) | set(b["tx"])):
        xa = [x for x in a["tx"].get(src, []) if x[1] not in ignore_dst]
        xb = [x for x in b["tx"].get(src, []) if x[1] not in ignore_dst]
        for i, (x, y) in enumerate(zip(xa, xb)):
            if x[1:] != y[1:] or abs(x[0] - y[0]) > 65536:
                return "tx[%s:%d][%d]" % (src[0], src[1], i), repr((x[0], x[1], x[2].hex()[:50])), repr((y[0], y[1], y[2].hex()[:50]))
        if len(xa) != len(xb):
            return "tx-count[%s:%d]" % src, str(len(xa)), str(len(xb))
    return None


class WallClock(BaseException):
    pass


def work(args):
    """one twin run under a wall-clock watchdog: the simulation's time is virtual, so a read that is not processed in bounded work
    (a decode loop that makes no progress) stops the whole event loop without any virtual time passing"""
    import signal, traceback as tb
    def on_alarm(sig, frm):
        where = "".join(tb.format_stack(frm, limit=4))[-700:]
        stuck.append("the event loop was stuck for %d s of wall time inside\n%s" % (WATCHDOG_S, where))
        raise WallClock(stuck[-1])
    stuck = []
    old = signal.signal(signal.SIGALRM, on_alarm)
    signal.alarm(WATCHDOG_S)
    try:
        res = work_inner(args)
        if stuck:
            res[4].insert(0, ("blocked", "a read was not processed in work bounded by its size: %s" % stuck[0]))
        return res
    except WallClock as e:
        idx, specd, seed, atk = args
        return idx, specd, seed, atk, [("blocked", "a read was not processed in work bounded by its size: %s" % e)], None, {}, None
    finally:
        signal.alarm(0)
        signal.signal(signal.SIGALRM, old)


WATCHDOG_S = 150


def work_inner(args):
    idx, specd, seed, atk = args
    try:
        spec = ms.Spec(**specd)
        if atk[0] == "multiport":
            # one read with packets for several virtual ports: direct oracles (harness/c07_multiport.py), no twin
            att = mpo.run(spec, seed, atk[1])
            st = mpo.stats(att)
            st.update(inj=st["multi_port_reads"] + st["forged"] + st["third_reads"], decodes=st["reads"], rejected=0)
            return idx, specd, seed, atk, mpo.judge(att), att, st, None
        # (forged acknowledgements + loss: the loss of the victims' own packets is part of the reference run as well)
        if atk[0] == "handshake":
            # (well-formed handshake packets at every phase: path delay and observation of the connection objects in both runs)
            hs.prepare(spec)
            hsetup = hs.stream_setup if spec.transport == "lite" else hs.setup
        ref = ms.run(spec, seed, fa.setup(atk[1], False) if atk[0] == "forgedack" else hsetup(atk[1], False) if atk[0] == "handshake" else None)
        if atk[0] == "forgedack":
            att = ms.run(spec, seed, fa.setup(atk[1], True))
        elif atk[0] == "handshake":
            att = ms.run(spec, seed, hsetup(atk[1], True))
        elif atk[0] == "writefail-dg":
            att = ms.run(spec, seed, wf.datagram_attack(atk[1]))
        elif atk[0] == "writefail-st":
            att = ms.run(spec, seed, wf.stream_attack(atk[1]))
        elif atk[0] == "datagram":
            att = ms.run(spec, seed, datagram_attack(atk[1]))
        elif atk[0] == "stream":
            att = ms.run(spec, seed, stream_attack(atk[1]))
        elif atk[0] == "flood":
            att = ms.run(spec, seed, None, flood=atk[1])
        elif atk[0] == "probe":
            att = ms.run(spec, seed, None, probes=atk[1])
        elif atk[0] == "reconnect":
            att = ms.run(spec, seed, None, reconnect=atk[1])
        else:
            att = ms.run(spec, seed, None)
        bad = []
        for name, se in (("reference", ref), ("attacked", att)):
            if se.crash or se.timed_out:
                bad.append(("crash", "%s run ended abnormally: crash=%s timed_out=%s" % (name, se.crash, se.timed_out)))
            if se.errors:
                bad.append(("handler-error", "%s run: %r" % (name, se.errors[:2])))
        n = len(spec.clients)
        for i, c in enumerate(spec.clients):
            nrounds = spec.rounds * max(1, getattr(spec, "reuse_transport", 0))
            want = [b"echo:%d:client%d:round%d:" % (c["vport"] if isinstance(c["vport"], int) else c["vport"][0], i, r) for r in range(nrounds)]
            got = ref.got.get(i, [])
            if len(got) != nrounds or any(not g.startswith(w) for g, w in zip(got, want)):
                bad.append(("reference", "reference run: client %d did not get its own echoes: %r" % (i, [g[:30] for g in got])))
        if atk[0] == "handshake":
            diff = hs.compare(ref, att, atk[1])
            if not [b for b in bad if b[0] == "crash"]:
                bad.extend(hs.judge(spec, ref, att, atk[1]))
            hs.strip(spec, ref, att)
        else:
            diff = compare_views(ms.victim_view(ref), ms.victim_view(att), {ms.ATTACKER, att.flood_addr} | set(att.probe_addrs))
        if atk[0] == "probe":
            if len(att.probe_results) != len(atk[1]):
                bad.append(("probe-setup", "only %d of %d probes finished" % (len(att.probe_results), len(atk[1]))))
            for vp, ty, outcome, got in att.probe_results:
                if outcome != "failed":
                    bad.append(("unknown-port", "a third party connecting to (port %d, stream type %d), which nobody serves, was connected (and got %r)" % (vp, ty, got)))
        if atk[0] == "reconnect":
            rr = getattr(att, "recon_results", [])
            if not rr or rr[0][0] != "connected" or rr[0][1] != b"echo:RECON:0":
                bad.append(("reconnect-setup", "the reconnecting peer's first connection did not work: %r" % (rr[:2],)))
            if len(rr) < 2:
                bad.append(("reconnect-setup", "the reconnecting peer never reconnected: %r" % (rr,)))
        if atk[0] in ("writefail-dg", "writefail-st") and not getattr(att, "write_failures", 0) and not (atk[0] == "writefail-st" and atk[1]["kind"] == "syn-close"):
            bad.append(("writefail-setup", "no write of the server failed in this run"))
        if atk[0] == "forgedack":
            if not getattr(att, "injected", 0):
                bad.append(("forgedack-setup", "no forged acknowledgement was sent in this run"))
            if atk[1].get("lose") and (not getattr(ref, "lost", None) or ref.lost != getattr(att, "lost", None)) and not diff:
                bad.append(("forgedack-setup", "the victims' own packets were not lost alike in both runs: reference %r / attacked %r" % (getattr(ref, "lost", None), getattr(att, "lost", None))))
        if atk[0] == "flood" and att.flood_sent < atk[1]["n"]:
            bad.append(("flood-setup", "the flooding peer could send only %d of %d messages (%s)" % (att.flood_sent, atk[1]["n"], getattr(att, "flood_error", None))))
        if diff:
            bad.append(("interference", "hostile traffic changed what the victims do or see: %s differs (reference %s / attacked %s)" % diff))
        # delivered only on the connection and port addressed
        for i, got in att.got.items():
            c = spec.clients[i]
            cvp = c["vport"] if isinstance(c["vport"], int) else c["vport"][0]
            for g in got:
                if not g.startswith(b"echo:%d:client%d:" % (cvp, i)):
                    bad.append(("misdelivery", "client %d (vport %d) received %r" % (i, cvp, g[:40])))
        for key, msgs in att.srv_got.items():
            vport, addr, sid = key
            owner = [i for i, a in att.client_addr.items() if a == addr]
            for m in msgs:
                ovp = spec.clients[owner[0]]["vport"] if owner else None
                if not owner or not m.startswith(b"client%d:" % owner[0]) or (ovp if isinstance(ovp, int) else ovp[0]) != vport:
                    bad.append(("misdelivery", "server handler of vport %d for peer %r received %r" % (vport, addr, m[:40])))
        # traffic for unknown ports / peers creates no state
        for t, tab in att.tables:
            for vp, size in tab.items():
                allowed = sum(1 for c in spec.clients if (c["vport"] if isinstance(c["vport"], int) else c["vport"][0]) == vp) + (1 if atk[0] in ("flood", "reconnect") and atk[1]["vport"] == vp else 0) \
                          + (atk[1]["n"] if atk[0] == "writefail-st" and atk[1].get("at") == 2 else 0)   # the flooding peer is a valid connection (and so are the peers whose connections break when their CONNECT is answered, until they time out)
                if size > allowed:
                    bad.append(("state-created", "at t=%.3f the server holds %d connections on vport %d, only %d genuine clients exist" % (t, size, vp, allowed)))
                    break
        # ... and no other state either: once every connection has ended, every container reachable from the transport object is
        # as large as in the run without the hostile traffic
        if atk[0] in ("datagram", "probe", "forgedack", "handshake") and spec.transport == "udp" and not [b for b in bad if b[0] in ("crash", "reference")]:   # (a hostile stream connection that is still open IS state)
            grown = {k: (ref.census.get(k, 0), v) for k, v in att.census.items() if v > ref.census.get(k, 0)}
            if grown:
                k = sorted(grown)[0]
                bad.append(("state-left-behind", "after all connections have ended the server transport holds more state than without the hostile traffic: %s has %d entries instead of %d%s"
                            % (k, grown[k][1], grown[k][0], (" (and %d more containers)" % (len(grown) - 1)) if len(grown) > 1 else "")))
        # work per read bounded by its size
        for ln, pk in att.decodes:
            if pk > ln // 10 + 1:
                bad.append(("work", "a read of %d bytes decoded %d packets" % (ln, pk)))
                break
        stats = {"inj": getattr(att, "injected", 0), "decodes": len(att.decodes), "rejected": sum(1 for _, p in att.decodes if p < 0)}
        if atk[0] == "forgedack":
            stats.update(forged=dict(att.forged), lost=dict(att.lost))
        if atk[0] == "handshake":
            stats.update(hs_labels=dict(att.hs_labels))
        return idx, specd, seed, atk, bad, att, stats, None
    except Exception:
        return idx, specd, seed, atk, [], None, {}, traceback.format_exc()


def l1_server_compare(drv, sess, same_tick_unordered=False):
    """same_tick_unordered: datagrams emitted at the very same instant are compared as a set (connections that were started at the same
    instant have timers that fall due at the same instant; which of them the event loop serves first is not part of the model)"""
    b = l1_trace.build_server(sess)
    if b is None:
        return {"ok": True, "skipped": True, "diffs": []}
    lines, kinds, real = b
    outs = drv.batch(lines)
    tx, other, errs = l1_trace.model_stream(lines, kinds, outs)
    diffs = [{"kind": "driver", "line": l[:160], "model": o} for l, o in errs]
    r, m = real["s"], tx["s"]
    if same_tick_unordered:
        r, m = sorted(r), sorted(m)
    for i, (x, y) in enumerate(zip(r, m)):
        if x != y:
            diffs.append({"kind": "tx", "index": i, "real": x, "model": y}); break
    else:
        if len(r) != len(m):
            diffs.append({"kind": "tx-count", "real_n": len(r), "model_n": len(m), "first_extra": (r[len(m):] or m[len(r):])[0]})
    return {"ok": not diffs, "diffs": diffs, "lines": len(lines)}


def run(ctx):
    quick = ctx.tier == "quick"
    ctx.rule = ("twin runs (reference / attacked) of 1..4 real clients against one real server transport with 1..3 virtual ports: dual-stack "
                "(v0+v1 clients on a version-2 server), v1, v0, and stream transports; a third party injects arbitrary bytes, truncations, "
                "tails, splices, insertions, bit flips, length-field lies, unknown options, zero-length datagrams next to every genuine "
                "datagram with the given intensity (to the server from its own address, with a victim's address but another port, to the "
                "clients, and spoofed as the server), or opens a hostile stream connection (partial header, bad magic, garbage, huge "
                "announced length), or uses the ordinary client against (port, stream type) pairs nobody serves, or is a perfectly valid further peer whose handler is busy and who sends 150..300 messages nobody reads, or a valid peer that closes and reconnects at once from the same address and port while the server's handler of the closed connection is still in its teardown; oracle: non-interference, delivery only on the addressed connection/port, no server state for "
                "unknown peers, bounded decode work; the server transport of every datagram run is replayed through the Lean L1 model; "
                "also: one read that carries packets for several virtual ports (a client transport with a connection to each of 2..3 bound ports, everything written within 2 ms aggregated into one datagram / stream read in both directions, forged packets for unbound ports behind / in front of / between the genuine ones, third parties' reads mixing requests for bound and unbound ports in every order; direct oracles: own echoes only, nothing lost, answers only by the addressed ports, no state), and a transport whose write fails for one peer (sendto raising for an address, stream peers resetting before the answer to SYN / CONNECT is written); "
                "and forged acknowledgements combined with loss: packets with the peer's address that name the victim's in-flight packets (type, substream, predictable sequence id; FLAG_ACK or aggregate acknowledgement) with signatures that are garbage / copied / wrongly keyed, to clients and to the server, while the first transmission of the genuine packet or of its acknowledgement is lost in both runs; "
                "and well-formed handshake packets at every phase (harness/c07_handshake.py): SYN/ACK, CONNECT/ACK, SYN, CONNECT that pass the decoders and mostly the signature checks, towards the client transports with the server's address and towards the server with the victim's address and port / another port / the third party's addresses (stream transports: from hostile stream connections of their own), after the victim's SYN was acknowledged, after its CONNECT was acknowledged, mid-session, while idle, around the DISCONNECT; twin-run oracle plus the victims' connection objects (negotiated parameters, peer's connection signature and session id, state) at every genuine transmission; "
                "distinct non-trivial = injected hostile datagrams")
    jobs = []
    n = 0
    dg_specs = [
        dict(server_version=2, clients=[dict(version=1, vport=1), dict(version=0, vport=1)], vports=[1]),
        dict(server_version=1, clients=[dict(version=1, vport=1), dict(version=1, vport=2), dict(version=1, vport=3), dict(version=1, vport=1)], vports=[1, 2, 3]),
        dict(server_version=0, clients=[dict(version=0, vport=1), dict(version=0, vport=2)], vports=[1, 2]),
        dict(server_version=2, clients=[dict(version=1, vport=2)], vports=[1, 2]),
        dict(server_version=1, clients=[dict(version=1, vport=1), dict(version=1, vport=1)], vports=[1], key=b"server key"),
    ]
    reps = 2 if quick else 12
    for sp in dg_specs:
        for r in range(reps):
            jobs.append((n, sp, ctx.rng.getrandbits(32), ("datagram", ctx.rng.choice([0.3, 0.6, 1.0])))); n += 1
    # the victims' own traffic reordered and partly lost (the same way in both runs): state that several connections of one
    # process would share (windows, buffers, tables) shows up as cross-talk
    for sp in dg_specs[:3]:
        for r in range(2 if quick else 8):
            jobs.append((n, dict(sp, jitter=ctx.rng.choice([1, 2]), rounds=4), ctx.rng.getrandbits(32), ("datagram", ctx.rng.choice([0.0, 0.3])))); n += 1
    st_spec = dict(transport="lite", server_version=1, clients=[dict(version=1, vport=1), dict(version=1, vport=1)], vports=[1])
    for kind in ("partial-header", "bad-magic", "garbage-stream", "huge-announce", "never-reads"):
        for r in range(1 if quick else 4):
            jobs.append((n, st_spec, ctx.rng.getrandbits(32), ("stream", kind))); n += 1
    # client transports that are used for several connections one after the other, with strays for their unbound ports in between
    for sp in (dg_specs[1], dg_specs[2], dg_specs[0]) if not quick else (dg_specs[1], dg_specs[2]):
        for r in range(1 if quick else 4):
            jobs.append((n, dict(sp, reuse_transport=3, rounds=2), ctx.rng.getrandbits(32), ("datagram", ctx.rng.choice([0.6, 1.0])))); n += 1
    late_spec = dict(transport="lite", server_version=1, vports=[1], rounds=4,
                     clients=[dict(version=1, vport=1), dict(version=1, vport=1, start=0.5), dict(version=1, vport=1, start=0.75), dict(version=1, vport=1, start=1.0)])
    for r in range(2 if quick else 8):
        jobs.append((n, late_spec, ctx.rng.getrandbits(32), ("stream", "closes-mid-frame"))); n += 1
    # a hostile peer needs no malformed traffic: a valid connection whose handler is busy, flooded with messages nobody reads
    for sp in (dg_specs[:2] + [st_spec]) if quick else (dg_specs + [st_spec]):
        for r in range(1 if quick else 3):
            vp = sp["vports"][-1]
            ver = 0 if sp.get("server_version") == 0 else 1
            jobs.append((n, sp, ctx.rng.getrandbits(32), ("flood", dict(vport=vp, version=ver, n=ctx.rng.choice([150, 300]), size=ctx.rng.choice([1, 20]), start=ctx.rng.choice([0.05, 0.3, 0.9]))))); n += 1
    # a third party using the ordinary client against (port, stream type) pairs nobody serves — including pairs that collide with a
    # served one under narrower packings of (port, type) than the 8 + 8 bits the wire carries
    pr_specs = [
        (dict(transport="lite", server_version=1, clients=[dict(version=1, vport=1), dict(version=1, vport=17)], vports=[1, 17]),
         [(1, 11), (161, 0), (17, 9), (33, 10), (2, 10), (1, 0), (16, 10), (241, 9)]),
        (dict(transport="lite", server_version=1, clients=[dict(version=1, vport=(5, 3)), dict(version=1, vport=(200, 10))], vports=[(5, 3), (200, 10)]),
         [(5, 10), (200, 3), (53, 0), (8, 12), (5, 4), (21, 2)]),
        (dict(server_version=1, clients=[dict(version=1, vport=1), dict(version=1, vport=2)], vports=[1, 2]),
         [(3, 10), (1, 11), (2, 0), (15, 10), (0, 10)]),
        (dict(server_version=0, clients=[dict(version=0, vport=1)], vports=[1]),
         [(2, 10), (1, 9)]),
    ]
    for sp, probes in (pr_specs[:3] if quick else pr_specs):
        jobs.append((n, sp, ctx.rng.getrandbits(32), ("probe", probes))); n += 1
    # a valid peer that closes and reconnects at once from the same (address, port, type) while the handler of the closed connection
    # is still in its teardown; the victims go on well beyond the moment the reconnector's connections have timed out
    rc_specs = [dict(server_version=1, clients=[dict(version=1, vport=1), dict(version=1, vport=2)], vports=[1, 2]),
                dict(server_version=2, clients=[dict(version=1, vport=1), dict(version=0, vport=1)], vports=[1]),
                dict(transport="lite", server_version=1, clients=[dict(version=1, vport=1)], vports=[1]),
                dict(server_version=0, clients=[dict(version=0, vport=1)], vports=[1])]
    for sp in (rc_specs[:3] if quick else rc_specs):
        for teardown in ((0.25,) if quick else (0.0625, 0.25, 1.0)):
            jobs.append((n, dict(sp, ping_timeout=1.0, resend_timeout=0.25, rounds=9, round_gap=0.4375), ctx.rng.getrandbits(32),
                         ("reconnect", dict(vport=sp["vports"][0], cycles=2 if teardown < 1 else 3, teardown=teardown, start=ctx.rng.choice([0.25, 0.5]))))); n += 1
    # ONE read with packets for several virtual ports: a client transport that holds a connection to each of the server's 2..3 ports,
    # everything it sends (and is sent) within 2 ms arriving as one datagram / one stream read; forged packets for unbound ports behind,
    # in front of and between the genuine ones; third parties' hand-made reads mixing requests for bound and unbound ports in every order
    mp_specs = [
        dict(server_version=1, vports=[1, 2, 3], unbound=[5, 9], groups=[dict(version=1, vports=[1, 2, 3]), dict(version=1, vports=[2, 1])]),
        dict(server_version=2, vports=[1, 2], unbound=[4, 7], groups=[dict(version=1, vports=[1, 2]), dict(version=0, vports=[1, 2])]),
        dict(server_version=0, vports=[1, 2], unbound=[3, 6], groups=[dict(version=0, vports=[1, 2])]),
        dict(transport="lite", server_version=1, vports=[1, 2, 3], unbound=[5, 40], groups=[dict(version=1, vports=[1, 2, 3]), dict(version=1, vports=[3, 1])]),
        dict(server_version=1, vports=[3, 15], unbound=[1, 14], groups=[dict(version=1, vports=[15, 3]), dict(version=1, vports=[3])]),
        dict(transport="lite", server_version=1, vports=[1, 31], unbound=[2, 30], groups=[dict(version=1, vports=[31, 1])]),
    ]
    mp_modes = [dict(aggregate=False, splice="none", third=True), dict(aggregate=True, splice="none", third=True, rechunk=True),
                dict(aggregate=True, splice="behind", third=True, rechunk=True), dict(aggregate=True, splice="any", third=False, rechunk=True)]
    for sp in mp_specs:
        for mode in (mp_modes[1:] if quick else mp_modes):
            for r in range(1 if quick else 5):
                jobs.append((n, sp, ctx.rng.getrandbits(32), ("multiport", mode))); n += 1
    # a transport whose WRITE fails for one particular peer: valid handshake requests from addresses the datagram socket cannot send to;
    # stream peers that reset their connection before the answer to their SYN / CONNECT is written
    for sp in (dg_specs if not quick else [dg_specs[0], dg_specs[1], dg_specs[2]]):
        for r in range(1 if quick else 3):
            jobs.append((n, sp, ctx.rng.getrandbits(32), ("writefail-dg", dict(addrs=ctx.rng.choice([1, 2, 3]), every=ctx.rng.choice([0.125, 0.25]))))); n += 1
    st2_spec = dict(transport="lite", server_version=1, clients=[dict(version=1, vport=1), dict(version=1, vport=2), dict(version=1, vport=1, start=0.5)], vports=[1, 2], rounds=4)
    for sp in (st_spec, st2_spec):
        for cfg in (dict(kind="syn-close"), dict(kind="syn-close", copies=3), dict(kind="break", at=1), dict(kind="break", at=2)):
            for r in range(1 if quick else 3):
                jobs.append((n, sp, ctx.rng.getrandbits(32), ("writefail-st", dict(cfg, n=ctx.rng.choice([3, 5]), every=ctx.rng.choice([0.125, 0.3125]), start=ctx.rng.choice([0.0625, 0.25]), vport_index=r)))); n += 1
    # forged acknowledgements COMBINED WITH LOSS (harness/c07_forgedack.py): a third party writes the address of the victim's peer into
    # packets that name the victim's in-flight packets (type, substream, predictable sequence id; FLAG_ACK or an aggregate
    # acknowledgement) with signatures the victim must not accept, towards the clients and towards the server, while the first
    # transmission of the genuine packets (or of their acknowledgements) is lost — in the reference run as well
    requests = ["syn", "connect", "data", "disconnect"]
    for sp in dg_specs:
        fsp = dict(sp, resend_timeout=0.25, rounds=3)
        cfgs = [dict(lose=requests, share=100, per=4, to="both"),
                dict(lose=["ack-" + k for k in requests], share=100, per=4, to="both")]
        for r in range(1 if quick else 6):
            k = ctx.rng.sample(requests, ctx.rng.randint(1, 3))
            cfgs.append(dict(lose=sorted(k + ["ack-" + x for x in ctx.rng.sample(requests, 2)]), share=ctx.rng.choice([50, 100]),
                             per=ctx.rng.choice([2, 4, 6]), to=ctx.rng.choice(["client", "server", "both"])))
        for j, cfg in enumerate(cfgs):
            if j >= 2 and (j == 2 or ctx.rng.random() < 0.4):
                # keep-alive requests in flight as well (their ids are predictable too): a short ping interval, PINGs / their acknowledgements lost once
                cfg["lose"] = sorted(cfg["lose"] + ["ping", "ack-ping"])
                jobs.append((n, dict(fsp, ping_timeout=0.4375), ctx.rng.getrandbits(32), ("forgedack", cfg))); n += 1
                continue
            jobs.append((n, fsp, ctx.rng.getrandbits(32), ("forgedack", cfg))); n += 1
    # WELL-FORMED HANDSHAKE PACKETS at every phase of a victim connection (harness/c07_handshake.py): SYN/ACK, CONNECT/ACK, SYN, CONNECT that
    # pass every decoder and signature check, towards the client transports (with the server's address) and towards the server (with the
    # victim's address and port, the victim's address and another port, the third party's own addresses), after the victim's SYN was
    # acknowledged, after its CONNECT was acknowledged, next to the session's packets, far from any traffic, around the DISCONNECT; with
    # `reflect` also valid requests in the victim's name, which the server answers towards the victim; stream transports: hostile stream
    # connections that send such packets for the victims' ports all the time
    for sp in dg_specs:
        hcfgs = [dict(to="both", reflect=False, intensity=0.5), dict(to="both", reflect=True, intensity=0.6)]
        if not quick:
            hcfgs += [dict(to="client", reflect=False, intensity=1.0), dict(to="server", reflect=True, intensity=1.0),
                      dict(to="both", reflect=False, intensity=0.3, join=0.6), dict(to="both", reflect=True, intensity=0.8)]
        for cfg in hcfgs:
            jobs.append((n, dict(sp, rounds=4), ctx.rng.getrandbits(32), ("handshake", cfg))); n += 1
        # idle: only keep-alives flow between the rounds
        for r in range(1 if quick else 3):
            jobs.append((n, dict(sp, rounds=3, round_gap=0.9, ping_timeout=0.4375), ctx.rng.getrandbits(32),
                         ("handshake", dict(to=ctx.rng.choice(["both", "client"]), reflect=bool(r % 2), intensity=0.5, idle=True)))); n += 1
    for sp in (st_spec, st2_spec, late_spec):
        for r in range(1 if quick else 4):
            jobs.append((n, sp, ctx.rng.getrandbits(32), ("handshake", dict(conns=ctx.rng.choice([1, 2, 3]), steps=40)))); n += 1
    drv = ctx.driver("C02")
    ndiff, first = 0, None
    with multiprocessing.Pool(min(16, os.cpu_count() or 4)) as pool:
        for idx, specd, seed, atk, bad, att, stats, err in pool.imap_unordered(work, jobs):
            if err:
                ctx.corr_break("c07-session-harness", "session crashed in the harness", {"traceback": err, "spec": specd, "attack": atk})
                continue
            for key, what in bad:
                ctx.violation("c07:%s:%s" % (key, specd.get("transport", "udp") + (":" + atk[1] if atk[0] == "stream" else "") + (":flood" if atk[0] == "flood" else "") + (":probe" if atk[0] == "probe" else "") + (":reconnect" if atk[0] == "reconnect" else "") + (":" + atk[0] if atk[0] in ("multiport", "writefail-dg", "writefail-st", "forgedack", "handshake") else "")), what,
                              {"spec": specd, "attack": atk, "seed": seed, "how": "harness/corr_C07.py work((0, spec, seed, attack))"})
            if att is not None and specd.get("transport") == "lite":
                # stream transports: the server transport replayed through L1 from the stream reads / writes (harness/l1_stream.py)
                r = l1_stream.compare_server(drv, att)
                if r.get("tie_race"):
                    ctx.tag("l1-stream-replay:set-aside-tie-race")
                elif not r.get("skipped"):
                    ctx.tag("l1-stream-replay")
                    ctx.tag("l1-stream-replay:chunks-read", r.get("reads", 0))
                    if r.get("prefix"):
                        ctx.tag("l1-stream-replay:prefix-only")
            else:
                r = l1_server_compare(drv, att, atk[0] == "multiport") if att is not None else {"ok": True, "diffs": [], "skipped": True}
            if not r["ok"]:
                ndiff += 1
                if first is None:
                    first = {"spec": specd, "attack": atk, "seed": seed, "diff": r["diffs"][0]}
            ctx.traces_validated += 0 if r.get("skipped") else 1
            ctx.evaluations += stats.get("inj", 0)
            for i in range(stats.get("inj", 0)):
                ctx.distinct.add((idx, i))
            if atk[0] == "probe":
                ctx.tag("%s:probe-unserved-port" % specd.get("transport", "udp"), len(atk[1]))
                ctx.evaluations += len(atk[1])
                for i in range(len(atk[1])):
                    ctx.distinct.add((idx, "probe", i))
            elif atk[0] == "multiport":
                ctx.tag("%s:one-read-several-ports" % specd.get("transport", "udp"), stats.get("multi_port_reads", 0))
                ctx.tag("%s:forged-for-unbound-port-in-genuine-read:%s" % (specd.get("transport", "udp"), atk[1]["splice"]), stats.get("forged", 0))
                ctx.tag("%s:third-party-read-bound+unbound" % specd.get("transport", "udp"), stats.get("third_reads", 0))
            elif atk[0] == "forgedack":
                for lab, cnt in stats.get("forged", {}).items():
                    a = lab.split(":")
                    ctx.tag("udp:forged-ack+loss:%s:in-flight-%s" % (a[0], a[1]), cnt)
                    ctx.tag("udp:forged-ack+loss:shape:%s" % a[2], cnt)
                    ctx.tag("udp:forged-ack+loss:signature:%s" % a[3], cnt)
                for kind, cnt in stats.get("lost", {}).items():
                    ctx.tag("udp:forged-ack+loss:genuine-first-transmission-lost:%s" % kind, cnt)
            elif atk[0] == "handshake":
                tr = specd.get("transport", "udp")
                ctx.tag("%s:handshake-packets:twin-runs" % tr)
                for lab, cnt in stats.get("hs_labels", {}).items():
                    a = lab.split(":")
                    if tr == "udp":
                        ctx.tag("udp:handshake-packets:%s:%s:%s" % (a[0], a[1], a[2]), cnt)
                        ctx.tag("udp:handshake-packets:shape:%s" % ":".join(a[2:]), cnt)
                    else:
                        ctx.tag("lite:handshake-packets:%s" % ":".join(a[:2]), cnt)
            elif atk[0] in ("writefail-dg", "writefail-st"):
                ctx.tag("%s:write-fails-for-one-peer:%s" % (specd.get("transport", "udp"), atk[1].get("kind", "sendto-raises") + (str(atk[1]["at"]) if "at" in atk[1] else "")), stats.get("inj", 0))
            else:
                ctx.tag("%s:%s" % (specd.get("transport", "udp"), atk[1] if atk[0] != "flood" else "flood"), stats.get("inj", 0) if atk[0] != "flood" else getattr(att, "flood_sent", 0))
            if atk[0] == "flood":
                ctx.evaluations += getattr(att, "flood_sent", 0)
                for i in range(getattr(att, "flood_sent", 0)):
                    ctx.distinct.add((idx, "flood", i))
            ctx.tag("reads-rejected-by-the-barrier", stats.get("rejected", 0))
            if len(ctx.samples) < 4:
                ctx.samples.append({"spec": specd, "attack": atk, "injected": stats.get("inj"), "reads": stats.get("decodes"),
                                    "reads_rejected": stats.get("rejected"), "model_lines": r.get("lines")})
    ctx.extra["l1_session_diffs"] = ndiff
    if ndiff and not ctx.violations:
        ctx.corr_break("l1-server-transport-correspondence", "the real server transport and the Lean L1 model disagree in %d attacked runs" % ndiff,
                       dict(first, theorems_no_longer_tied=["Nx.C07.frame_other_addr", "Nx.C07.unknown_port_creates_nothing"]))
    elif ndiff:
        ctx.extra["first_l1_diff"] = first
