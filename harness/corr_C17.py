"""C17 — back-end login: the real client/servers in simulation vs the Lean `Backend.plan`, plus the property oracle.

Every configuration of the finite matrix (3 version bands x extra data x key derivation 0/1 x key size 16/32 x ticket
version 0/1 x pid size 4/8 x first ticket for the secure server y/n x advertised address real/0.0.0.1 x v0/v1/lite)
is run end to end (harness/backend_sim.py over harness/sim.py), then failure scripts and datagram loss on sub-matrices.
For each run: (a) correspondence — the called authentication methods with their arguments, the Kerberos key handed
to ClientTicket.decrypt, and the connection the client asks rmc.connect for (or the exception) must equal the model's
plan; (b) oracle — the property itself on the real code: a protocol-following script yields exactly one accepted
secure connection whose server-side pid, handler-observed pid and client-side pid are the issued pid, at the right
address, with request_ticket iff needed; every failure script yields an exception and no accepted connection.

Sessions: the property quantifies over every login, not over the first login of every client object, so SEQUENCES of
logins through one BackEndClient (one connection to the authentication server) and one Settings object are explored as
well: every ordered pair of step kinds (user / user with extra data / user with a source key / guest via login_guest /
each family of failure) in every version band, and longer random sessions — different accounts, the same password under
another pid, a changed password, re-logins, failed attempts before and after good ones, one after the other, with the
earlier secure connections still open, or all in flight at once, through one or two BackEndClients sharing the Settings
object. Every step is compared with the Lean `Backend.session` (the client object threaded through the logins; proved
history independent) and judged by the same property oracle as a single login: it must behave exactly like that login
through a fresh client.

The library's own random draws: "logging in yields a connection" is also quantified over what the login path draws at
random — every PRUDP endpoint's 32-bit connection check (the Kerberos challenge of the secure handshake), its 8-bit
session id, the 16-bit initial unreliable sequence id of PRUDP v1, the 16-byte ticket key of ticket version 1. Random
runs never reach their boundary values (one login in 2^32 draws the check 0xFFFFFFFF), so full logins are run with these
draws pinned (backend_sim.apply_draws on the simulation's wrapper of the library's `random`): every boundary value of each
kind alone in every band on every transport, client and server side drawing different boundary values, corners of all
kinds at once, with first-copy datagram loss, under failure scripts (which must still fail), and inside sessions. The Lean
plan has no draw parameter: the theorems say the login decisions do not depend on them, and every pinned run is compared
with the plan like any other.

Time passing at one secure server: "a stale ticket never yields a connection" speaks about every CONNECT a secure server
object receives during its life, not about the first time it sees a ticket — and an authentication server may hand out
again what it issued (a cache; a replay is the same on the wire). Timed sessions (build_timed_sessions) run several logins
against ONE long-lived pair of secure servers while VIRTUAL time advances between them (the simulation sleeps: minutes or a
day cost nothing): the authentication server issues the tickets of a *ticket group* once, stamped at a chosen instant (also
before the session: pre-aged), and hands the byte-identical tickets out at every login of the group — at ages from fresh
over just below / just above 120 s to an hour and a day + a few seconds, in every subset and order of "which earlier logins
showed the ticket to which server object", interleaved with other accounts' groups and with freshly issued tickets of the
same account, through a BackEndClient that stays connected or is reconnected after the pause. The oracle is the property at
the actual instants: a login whose whole attempt lies within stamp + 120 s must connect as the issued pid, one that begins
after stamp + 120 s must not connect. Every call of a keyed server's process_login_request of every session (timed or not)
is also replayed into the Lean `Backend.serve` (one server object, the recorded payloads at the recorded instants; theorems:
admission is history independent, a stale ticket is refused after any history), and the CONNECT payload itself is compared
with `Backend.connectRequest` of the credentials the plan ends in.

The advertised station answered by a different server: the property's "a ticket for a different server never yields a
connection" / "the server sees exactly the issued user id" also speak about WHO answers at the station the (protocol-following)
authentication server advertises. build_station_cases runs full logins in which somebody else listens there while the genuine
secure server lives at another address: the library's own server without a Kerberos key (acknowledges the CONNECT with an
empty payload), the library's own server under another key (silent), a keyless server that answers 8 zero bytes / a guessed
check value / an echo of the request / 4 bytes, and a server that reads the request but answers check+0, check+2, an inverted
or bit-flipped or byte-swapped check value, a wrong length field, 4 / 7 / 12 bytes, swapped fields or nothing — every variant
in every version band on every transport with the real and the 0.0.0.1 station, under first-copy datagram loss, and with the
client's connection check pinned to its boundary values. Oracle: login raises, its `async with` body is never entered
(obs["entered"]), nobody is admitted by the genuine secure server. Every CONNECT/ACK payload any client endpoint of any single
run judged (PRUDPClient.check_connection_response: credentials?, connection check, payload, returned / raised) is also replayed
into the Lean `Backend.checkResponse` (theorem connect_answer_gate: accepted iff the payload is (4, check+1 mod 2^32)).
"""
import itertools, multiprocessing, os, struct, sys
from concurrent.futures import ThreadPoolExecutor

LEVEL = "proof"

BANDS = [30000, 40000, 40400]
SUCCESS = 0x00010001


def base_case(i, version, extra, kd, key_size, tv, pid_size, ffs, placeholder, transport, rng_bytes):
    c = dict(version=version, extra=extra, kd=kd, key_size=key_size, ticket_version=tv, pid_size=pid_size,
             first_for_secure=ffs, placeholder=placeholder, transport=transport, seed=i,
             username="user%d" % (i % 7), password="pw%d" % i, server_password="pw%d" % i,
             session_key=rng_bytes[:key_size], client_version=3 + i % 5, cid=i % 3,
             pid=(1000 + i) if pid_size == 4 else ((1 << 40) + i))
    # when the login path reads a source key, give one in half of the cases, an empty one (-> password) in the others
    reads = (version >= 40400) or (version >= 40000 and extra)
    if reads and i % 2 == 0:
        c["source_key"] = rng_bytes[32:48]; c["source_key_text"] = c["source_key"].hex()
        if i % 4 == 0: c["password"] = None       # no password needed
    else:
        c["source_key"] = None; c["source_key_text"] = ""
    return c


def worker(c):
    import backend_sim
    try:
        return backend_sim.run_case(c)
    except BaseException as e:      # never lose a case silently
        return {"crash": repr(e)}


def script_tokens(c, obs_tickets):
    """the model's view of what the authentication server answers in this case"""
    import backend_sim as B
    from nintendo.nex import common
    first_ticket, second_ticket = obs_tickets
    fault = c.get("fault")
    err = lambda name: common.Result.error(name).code()
    placeholder = c["placeholder"]
    sid = c.get("sid", 2 if placeholder else 1)
    addr, port = ("0.0.0.1", 1) if placeholder else (B.SECURE_HOST, B.SECURE_PORT)
    if fault == "first-rmc-error":
        first = "fail %d" % err("Authentication::UnderMaintenance")
    elif fault == "first-error-result" and c["version"] >= 40400:
        first = "fail %d" % err("Authentication::ValidationFailed")
    else:
        res = err("Authentication::ValidationFailed") if fault == "first-error-result" else SUCCESS
        first = "resp %d %d %s %s %s %d %d %d %d" % (res, c["pid"], first_ticket.hex(), c["source_key_text"] or "~", addr, port, B.SECURE_PID, c.get("cid", 0), sid)
    if fault == "second-rmc-error":
        second = "fail %d" % err("Authentication::TokenExpired")
    else:
        second = "resp %d %s" % (err("Authentication::InvalidParam") if fault == "second-error-result" else SUCCESS, second_ticket.hex())
    return first, second


def plan_line(c, tickets):
    import backend_sim as B
    first, second = script_tokens(c, tickets)
    pw = "none" if c.get("password") is None else (c["password"].encode().hex() or "-")
    return "plan %d %d %d %d %d %s %d %s %s %d %s %s" % (c["version"], c.get("client_version", 7), c["kd"], c["key_size"], c["pid_size"],
                                                       B.AUTH_HOST, B.AUTH_PORT, c["username"], pw, 1 if c["extra"] else 0, first, second)


def tickets_for(c):
    """re-create exactly the tickets run_case's authentication server hands out (same seeds, same clock)"""
    import backend_sim as B
    from sim import Sim
    with Sim(c.get("seed", 0)) as sim:
        s = B.make_settings(c)
        return B.build_tickets(c, s, sim.rng, sim.clock.time())


def canon_obs(o):
    calls = "|".join(o["calls"])
    key = o["keys"][0] if o["keys"] else "none"
    if o["attempts"]:
        a = o["attempts"][0]
        out = "connect %s %d %d %d %d %s %s" % (a[0], a[1], a[2], a[3], a[4], a[5] or "-", a[6] or "-")
    else:
        out = o["error"] or "none"
    return calls, key, out


def canon_model(line):
    parts = line.split(" ; ")
    if len(parts) != 3: return None
    calls, key, out = parts
    key = "none" if key == "none" else key.split(" ")[-1]
    return calls, key, out


def judge(c, o):
    """the property on the real code for one login `c` (a single run or one step of a session) observed as `o`"""
    import backend_sim as B
    kind = c["kind"]
    why = None
    if kind in ("matrix", "loss"):
        exp_addr = (B.AUTH_HOST, B.AUTH_PORT) if c["placeholder"] else (B.SECURE_HOST, B.SECURE_PORT)
        sid = 2 if c["placeholder"] else 1
        if o["error"] is not None: why = "login through a protocol-following server failed: %s%s" % (o["error"], " (%s)" % o["error_text"] if o.get("error_text") else "")
        elif len(o["accepts"]) != 1: why = "expected exactly one accepted secure connection, saw %r" % (o["accepts"],)
        elif o["accepts"][0][2] != c["pid"]: why = "secure server authenticated pid %r, issued %r" % (o["accepts"][0][2], c["pid"])
        elif o["handler_pids"] != [c["pid"]] or o["probe"] != c["pid"]: why = "secure server's handler observed pid %r, issued %r" % (o["handler_pids"], c["pid"])
        elif o["client_pid"] != c["pid"]: why = "client-side pid() is %r, issued %r" % (o["client_pid"], c["pid"])
        elif tuple(o["accepts"][0][0]) != exp_addr or o["accepts"][0][1] != sid: why = "connected to %r stream %r, expected %r stream %r" % (o["accepts"][0][0], o["accepts"][0][1], exp_addr, sid)
        elif any(x.startswith("requestTicket") for x in o["calls"]) != (not c["first_for_secure"]): why = "request_ticket issued=%r but first ticket for secure server=%r" % (o["calls"], c["first_for_secure"])
        elif not c["first_for_secure"] and "requestTicket %d %d" % (c["pid"], B.SECURE_PID) not in o["calls"]: why = "request_ticket called with %r" % (o["calls"],)
    elif kind.startswith("fail:station:"):
        import struct as _st
        legit = [r for r in o.get("responses", []) if r["cred"] and r["data"] == _st.pack("<II", 4, (r["check"] + 1) & 0xFFFFFFFF).hex()]
        if legit: return None          # a keyless server guessed the 32-bit check value (one in 2^32): that answer IS the proof of knowledge
        who = {"no-key": "a server that holds no Kerberos key (the library's keyless server: empty CONNECT/ACK payload)",
               "other-key": "a server that holds another Kerberos key"}.get(c["station"], "a server that is not the secure server (answer variant '%s')" % c["station"])
        answers = sorted({r["data"] or "<empty>" for r in o.get("responses", []) if r["cred"]})
        tail = "; CONNECT/ACK payloads the client received: %s (its connection check: %s, so the only valid answer was %s); the genuine secure server (elsewhere) admitted %r" % (
            answers or "none", sorted({"0x%08X" % r["check"] for r in o.get("responses", []) if r["cred"]}) or "?",
            sorted({_st.pack("<II", 4, (r["check"] + 1) & 0xFFFFFFFF).hex() for r in o.get("responses", []) if r["cred"]}) or "?", o["accepts"])
        if o.get("entered"):
            why = "the advertised station is answered by %s, yet login() yielded a connection (client-side pid() = %r, then: %s)%s" % (who, o["client_pid"], o["error"] or "the probe call returned %r" % (o["probe"],), tail)
        elif o["error"] is None or o["accepts"] or o["handler_pids"]:
            why = "the advertised station is answered by %s: expected login() to raise and nobody to be admitted, saw error=%r accepts=%r handler pids=%r%s" % (who, o["error"], o["accepts"], o["handler_pids"], tail)
    elif kind == "fail:stale-by-now":
        if o["error"] is None or o["accepts"] or o["handler_pids"]:
            why = "a ticket older than 120 s (at the instant of this login) still produced a connection: error=%r accepts=%r" % (o["error"], o["accepts"])
    else:
        if o["error"] is None or o["accepts"] or o["handler_pids"] or o.get("entered"):
            why = "failure script '%s' still produced a connection: error=%r accepts=%r%s" % (kind, o["error"], o["accepts"], ", login() yielded a client" if o.get("entered") else "")
    return why


FAILURES = ["wrong-password", "no-password", "first-error-result", "first-rmc-error", "second-error-result", "second-rmc-error",
            "garbled-ticket", "garbled-second", "stale", "wrong-server-key", "wrong-source", "bad-source-key-hex"]


# ---------------------------------------------------------------------------------------------------------------
# sessions: sequences of logins through one BackEndClient / one Settings object

OK_KINDS = ["user", "user-extra", "user-src", "guest"]
FAIL_FAMILIES = {"wrong-password": ["wrong-password"], "no-password": ["no-password"],
                 "first-error": ["first-error-result", "first-rmc-error"],
                 "second-error": ["second-error-result", "second-rmc-error", "garbled-second"],
                 "bad-ticket": ["garbled-ticket", "stale", "wrong-server-key", "wrong-source"],
                 "bad-source-key-hex": ["bad-source-key-hex"]}
STEP_KINDS = OK_KINDS + list(FAIL_FAMILIES)
GUEST_PID = 100


def reads_source_key(version, extra):
    return (version >= 40400) or (version >= 40000 and extra)


def make_step(rng, sess, idx, kind, prev, relation=None):
    """one login of a session: `kind` in STEP_KINDS; `relation` to the previous step's account: None = another account,
    'same-password' = another pid and user with the same password, 'password-changed' = the same user and pid whose password is
    now another one, 'again' = the same account once more"""
    import backend_sim as B
    version = sess["version"]
    uid = sess["seed"] * 16 + idx
    pid = (1000 + uid) if sess["pid_size"] == 4 else ((1 << 40) + uid)
    st = dict(username="user%d" % uid, password="pw%d" % uid, server_password="pw%d" % uid, pid=pid, extra=False,
              first_for_secure=rng.random() < 0.5, placeholder=rng.random() < 0.5, session_key=rng.randbytes(sess["key_size"]),
              source_key=None, source_key_text="", cid=rng.randrange(3), client=rng.randrange(sess.get("nclients", 1)))
    if prev is not None and not prev.get("guest") and relation == "same-password":
        st["password"] = st["server_password"] = prev["server_password"]
    elif prev is not None and not prev.get("guest") and relation in ("password-changed", "again"):
        st["username"], st["pid"] = prev["username"], prev["pid"]
        if relation == "again": st["password"] = st["server_password"] = prev["server_password"]
    fault = None
    if kind in FAIL_FAMILIES:
        fault = rng.choice(FAIL_FAMILIES[kind])
        st["extra"] = rng.random() < 0.5
        if fault == "bad-source-key-hex" and version < 40000: fault = kind = "wrong-password"       # no such field in that band
    if kind == "user-extra": st["extra"] = True
    elif kind == "user-src":
        st["extra"] = True if version < 40400 else rng.random() < 0.5
        if reads_source_key(version, st["extra"]):
            st["source_key"] = rng.randbytes(16); st["source_key_text"] = st["source_key"].hex()
            if rng.random() < 0.5: st["password"] = None
    elif kind == "guest":
        st.update(guest=True, username="guest", password=B.GUEST_PASSWORD, server_password=B.GUEST_PASSWORD, pid=GUEST_PID)
    if fault == "wrong-password": st["password"] = st["server_password"] + "x"
    elif fault == "no-password": st["password"] = None
    elif fault == "bad-source-key-hex":
        st["extra"] = True if version < 40400 else st["extra"]
        st["source_key_text"] = rng.choice(["zz", "abc", "0g", "123"])
    elif fault is not None:
        st["fault"] = fault
        if fault in ("second-error-result", "second-rmc-error", "garbled-second"): st["first_for_secure"] = False
    st["kind"] = "matrix" if fault is None else "fail:" + fault
    st["step_kind"] = kind
    return st


def make_session(rng, seed, version, kinds, mode="seq", nclients=1, relations=None, transport=None, loss=False):
    sess = dict(version=version, client_version=3 + seed % 5, kd=rng.choice([0, 1]), key_size=rng.choice([16, 32]), ticket_version=rng.choice([0, 1]),
                pid_size=rng.choice([4, 8]), transport=transport or rng.choice(["v0", "v1", "lite"]), seed=seed, mode=mode, nclients=nclients, steps=[])
    if loss: sess["loss"] = True
    prev = None
    for idx, kind in enumerate(kinds):
        if mode == "conc" and kind == "guest" and any(x.get("guest") for x in sess["steps"]): kind = "user"     # accounts are distinct when all are in flight
        rel = None if mode == "conc" else (relations[idx] if relations else rng.choice([None, None, "same-password", "password-changed", "again"]))
        prev = make_step(rng, sess, idx, kind, prev, rel)
        sess["steps"].append(prev)
    return sess


def session_worker(sess):
    import backend_sim
    try:
        return backend_sim.run_session(sess)
    except BaseException as e:
        return {"crash": repr(e)}


def session_line(sess, out):
    import backend_sim as B
    parts = ["session %d %d %d %d %d %s %d" % (sess["version"], sess["client_version"], sess["kd"], sess["key_size"], sess["pid_size"], B.AUTH_HOST, B.AUTH_PORT)]
    for k in range(len(sess["steps"])):
        c = B.step_case(sess, k)
        tickets = out["steps"][k].get("tickets")
        if tickets is None: return None
        first, second = script_tokens(c, tuple(bytes.fromhex(t) for t in tickets))
        if c.get("guest"): args = "guest"
        else:
            pw = "none" if c.get("password") is None else (c["password"].encode().hex() or "-")
            args = "%s %s %d" % (c["username"], pw, 1 if c["extra"] else 0)
        parts.append("%s %s %s" % (args, first, second))
    return " ;; ".join(parts)


def serve_lines(sessions, outs):
    """driver lines for the secure server's side of the sessions: per server object one `serve` line with its recorded calls of
    process_login_request in order; per login (schedules 'seq' / 'hold') one `creq` line: the payload the model builds from the
    credentials the client asked rmc.connect for and the connection check found inside the real payload"""
    import backend_sim as B
    from l1_trace import tz_offset
    from nintendo.nex import kerberos, streams
    serve_jobs, creq_jobs = [], []
    tz = tz_offset()
    for x, o in zip(sessions, outs):
        pres = o.get("presentations") or []
        servers = {}
        for r in pres: servers.setdefault(r["server"], []).append(r)
        for server, recs in sorted(servers.items()):
            head = "serve %d %d %d %d %d %s" % (x["key_size"], x["pid_size"], x["ticket_version"], 1_700_000_000, tz, B.SECURE_KEY.hex())
            serve_jobs.append((" ;; ".join([head] + ["%s %d" % (r["data"] or "-", r["now"]) for r in recs]), x, server, recs))
        if x["mode"] == "conc": continue
        s = B.make_settings(B.step_case(x, 0))
        done = set()
        for r in pres:
            k = r["step"]
            if k is None or k in done or not o["steps"][k]["attempts"]: continue
            done.add(k)
            a = o["steps"][k]["attempts"][0]          # (host, port, vport, pid, cid, session key, internal ticket) as handed to rmc.connect
            try:
                st = streams.StreamIn(bytes.fromhex(r["data"]), s)
                st.buffer()
                plain = kerberos.KerberosEncryption(bytes.fromhex(a[5])).decrypt(st.buffer())
                check = struct.unpack("<I", plain[-4:])[0]
            except Exception:
                check = 0
            creq_jobs.append(("creq %d %s %s %d %d %d" % (x["pid_size"], a[6] or "-", a[5] or "-", a[3], a[4], check), x, k, r["data"]))
    return serve_jobs, creq_jobs


def describe_step(c):
    who = "login_guest()" if c.get("guest") else "login(%r, password=%r%s)" % (c["username"], c.get("password"), ", auth_info=<AuthenticationInfo>" if c["extra"] else "")
    kind = c.get("kind") or ""
    return "%s [account pid %d, %s%s%s]" % (who, c["pid"], c["step_kind"], ", source key" if c.get("source_key") else "",
                                          ", ticket older than 120 s by now" if kind == "fail:stale-by-now" else ", server script: " + kind[5:] if kind.startswith("fail:") else "")


def _jsonable_session(sess):
    d = {k: v for k, v in sess.items() if k != "steps"}
    d["steps"] = [_jsonable(st) for st in sess["steps"]]
    return d


def _unjson_session(d):
    for st in d["steps"]:
        for k in ("session_key", "source_key"):
            if isinstance(st.get(k), str): st[k] = bytes.fromhex(st[k])
    return d


def build_sessions(rng, quick, first_seed):
    sessions = []
    seed = first_seed
    # every ordered pair of step kinds in every band, one BackEndClient, one login after the other
    for version, a, b in itertools.product(BANDS, STEP_KINDS, STEP_KINDS):
        for _ in range(1 if quick else 3):
            seed += 1
            sessions.append(make_session(rng, seed, version, [a, b]))
    # longer sessions: 3..5 steps, the three schedules, one or two BackEndClients on the one Settings object
    for n in range(150 if quick else 1200):
        seed += 1
        version = rng.choice(BANDS + [0, 39999, 40399, 40401])
        mode = rng.choice(["seq", "seq", "hold", "conc"])
        kinds = [rng.choice(OK_KINDS + OK_KINDS + list(FAIL_FAMILIES)) for _ in range(rng.randint(3, 5))]
        transport = rng.choice(["v0", "v1", "lite"])
        sessions.append(make_session(rng, seed, version, kinds, mode=mode, nclients=rng.choice([1, 1, 2]), transport=transport,
                                     loss=(mode == "seq" and transport != "lite" and rng.random() < 0.15)))
    # sessions whose endpoints draw boundary values (cycles of 1..3 values: the logins of one session draw different ones)
    for n in range(48 if quick else 400):
        seed += 1
        mode = rng.choice(["seq", "hold", "conc"])
        kinds = [rng.choice(OK_KINDS + OK_KINDS + list(FAIL_FAMILIES)) for _ in range(rng.randint(2, 4))]
        x = make_session(rng, seed, rng.choice(BANDS), kinds, mode=mode, nclients=rng.choice([1, 1, 2]))
        x["draws"] = {kind: [rng.choice(DRAW_EDGES[kind]) for _ in range(rng.randint(1, 3))] for kind in ("check", "session", "unrel") if kind == "check" or rng.random() < 0.5}
        sessions.append(x)
    return sessions


# ---------------------------------------------------------------------------------------------------------------
# time passing: the same ticket handed out again at several logins against one long-lived secure server

LIFETIME = 120
AGES_YOUNG = [0.5, 7.0, 30.0, 60.0, 100.0, 115.0, 119.0, 119.75]
AGES_OLD = [120.25, 121.0, 125.0, 180.0, 600.0, 3603.0, 86405.0]
TIMED_PATTERNS = ["young-then-old", "first-seen-old", "first-seen-near-limit", "old-then-renewed", "random"]


def group_ages(rng, pattern):
    young = lambda n: sorted(rng.sample(AGES_YOUNG, n))
    old = lambda n: sorted(rng.sample(AGES_OLD, n))
    if pattern == "young-then-old": return young(rng.randint(1, 3)) + old(rng.randint(1, 2))
    if pattern == "first-seen-old": return old(rng.randint(1, 3))
    if pattern == "first-seen-near-limit": return [rng.choice([115.0, 119.0, 119.75])] + old(rng.randint(1, 2))
    if pattern == "old-then-renewed": return young(rng.randint(0, 2)) + old(2)
    return sorted(rng.sample(AGES_YOUNG + AGES_OLD, rng.randint(2, 5)))


def make_timed_session(rng, seed, version, transport, pattern, mode="seq"):
    """logins at chosen virtual instants; the steps of a ticket group are one account that is handed the SAME tickets each time"""
    # key derivation 0 (65000+ MD5 per login on the Lean side) is orthogonal to the clock: one timed session in eight
    sess = dict(version=version, client_version=3 + seed % 5, kd=rng.choice([0, 1, 1, 1, 1, 1, 1, 1]), key_size=rng.choice([16, 32]), ticket_version=rng.choice([0, 1]),
                pid_size=rng.choice([4, 8]), transport=transport, seed=seed, mode=mode, nclients=rng.choice([1, 1, 2]), timed=True, pattern=pattern, steps=[])
    events = []                         # (at, step)
    idx = 0
    ngroups = 1 if rng.random() < 0.5 else 2
    for g in range(ngroups):
        name = "AB"[g]
        base = make_step(rng, sess, idx, rng.choice(OK_KINDS), None); idx += 1
        if g == 1 and base.get("guest") and any(st.get("guest") for _, st in events): base = make_step(rng, sess, idx - 1, "user", None)
        ages = group_ages(rng, pattern if g == 0 else "random")
        # stamped at the first login of the group, some time into the session, or before the session began (pre-aged)
        stamp = rng.choice([0, 0, 40, 200]) if g == 0 else rng.choice([0, 15, 90, 300])
        if rng.random() < 0.3: stamp = -int(rng.choice([50, 110, 118, 600]))
        # clock skew: the authentication server's clock runs AHEAD of the secure server's - the ticket is stamped a few seconds after the
        # instant at which it is shown (a negative age); an authentication server with such a clock still follows the protocol
        if rng.random() < 0.4:
            ages = list(ages) + [-rng.choice([0.5, 1.0, 3.0, 10.0, 30.0]) for _ in range(rng.randint(1, 2))]
        ages = [a for a in ages if stamp + a >= 0.25] or [max(0.5 - stamp, 120.25)]
        if mode == "hold": ages = [a for a in ages if a <= 600] or [119.75, 120.25]
        same_server = rng.random() < 0.7
        for a in ages:
            st = dict(base, group=name, stamp=stamp, at=stamp + a, cid=rng.randrange(3), client=rng.randrange(sess["nclients"]))
            if not same_server: st["placeholder"] = rng.random() < 0.5
            events.append((st["at"], st))
        if (g == 0 and pattern == "old-then-renewed") or rng.random() < 0.35:
            # the same account logs in with a freshly issued ticket in between / afterwards: that must work, and must not revive the old one
            for _ in range(rng.randint(1, 2)):
                at = stamp + rng.choice([a + d for a in ages for d in (4.5, 9.0)] + [ages[-1] + 5.0])
                if at < 0.25: continue
                st = dict(base, at=at, cid=rng.randrange(3), client=rng.randrange(sess["nclients"]), step_kind=base["step_kind"] + "-renewed")
                events.append((at, st))
    events.sort(key=lambda e: e[0])
    last = 0.0
    for at, st in events:
        st["at"] = float(at)
        # a BackEndClient that waits connected for more than a quarter of an hour is replaced by a new one after the pause (the property is about
        # the secure server; an idle connection to the authentication server costs a keep-alive every 5 s of virtual time)
        if mode != "hold" and (at - last > 900 or rng.random() < 0.1): st["reconnect"] = True
        last = at
        sess["steps"].append(st)
    return sess


def build_timed_sessions(rng, quick, first_seed):
    sessions, seed = [], first_seed
    for _ in range(1 if quick else 6):
        for version, transport, pattern in itertools.product(BANDS, ["v0", "v1", "lite"], TIMED_PATTERNS):
            seed += 1
            sessions.append(make_timed_session(rng, seed, version, transport, pattern))
    for n in range(40 if quick else 400):
        seed += 1
        sessions.append(make_timed_session(rng, seed, rng.choice(BANDS + [0, 39999, 40399, 40401]), rng.choice(["v0", "v1", "lite"]), rng.choice(TIMED_PATTERNS),
                                           mode=rng.choice(["seq", "seq", "hold"])))
    return sessions, seed


def timed_kind(so):
    """what the property demands of a login of a timed session, from the instants at which it really ran: 'matrix' = must connect (the whole attempt
    lies within the ticket's 120 s), 'fail:stale-by-now' = must not connect (it began after them), None = the attempt straddles the limit"""
    t = so.get("timing") or {}
    if "t0" not in t or "t1" not in t: return None
    limit = t["stamp"] + LIFETIME
    if t["t1"] <= limit - 0.001: return "matrix"
    if t["t0"] >= limit + 0.001: return "fail:stale-by-now"
    return None


def describe_timed(x, o, k):
    """the logins of the session that were handed the same ticket as login k, with instants, ages and outcomes"""
    st = x["steps"][k]
    def one(j):
        t = o["steps"][j].get("timing") or {}
        age = (t["t0"] - t["stamp"]) if "t0" in t else None
        srv = "the authentication host's secure port" if x["steps"][j]["placeholder"] else "the secure host"
        return "#%d at %.6g s (ticket %s s old, %s%s) -> %s" % (j, t.get("t0", -1), "%.6g" % age if age is not None else "?", srv, ", BackEndClient reconnected" if x["steps"][j].get("reconnect") else "",
                                                         o["steps"][j]["error"] or "connected as pid %r" % (o["steps"][j]["client_pid"],))
    same = [j for j in range(len(x["steps"])) if st.get("group") is not None and x["steps"][j].get("group") == st.get("group")]
    others = [j for j in range(len(x["steps"])) if j not in same and j != k]
    txt = ("ticket group %r (issued once, stamp = session start %+d s, handed out byte-identical): %s" % (st["group"], st["stamp"], "; ".join(one(j) for j in same))) if same else "freshly issued ticket: " + one(k)
    if others: txt += ". Other logins of the session: " + "; ".join(one(j) for j in others)
    return txt


# ---------------------------------------------------------------------------------------------------------------
# boundary values of the random draws the login path makes (see backend_sim.apply_draws)

DRAW_VALUES = {
    "check": [0, 1, 0x7FFFFFFF, 0x80000000, 0xFFFFFFFE, 0xFFFFFFFF, 0xFF, 0x100, 0xFFFF, 0x10000, 0x00FFFFFF, 0xFF000000],
    "session": [0, 1, 0x7F, 0x80, 0xFE, 0xFF],
    "unrel": [0, 1, 0x7FFF, 0x8000, 0xFFFE, 0xFFFF],
}
DRAW_EDGES = {"check": [0, 1, 0x7FFFFFFF, 0x80000000, 0xFFFFFFFE, 0xFFFFFFFF], "session": [0, 1, 0xFE, 0xFF], "unrel": [0, 1, 0xFFFE, 0xFFFF]}
DRAW_NAMES = {"check": "connection check", "session": "session id", "unrel": "initial unreliable sequence id", "token": "Kerberos ticket key bytes"}


def describe_draws(draws):
    parts = []
    for kind in ("check", "session", "unrel"):
        vs = draws.get(kind)
        if vs: parts.append("%s %s" % (DRAW_NAMES[kind], "0x%X" % vs[0] if len(vs) == 1 else "alternating " + "/".join("0x%X" % v for v in vs) + " from endpoint to endpoint"))
    if draws.get("token") is not None: parts.append("every byte of the drawn ticket key 0x%s" % draws["token"].upper())
    return "the library's own random draws pinned to boundary values (every PRUDP endpoint of the login: %s)" % "; ".join(parts)


def build_draw_cases(rng, quick, i):
    """full logins (and failure scripts) with the library's random draws at their boundaries"""
    cases = []
    def case(version, transport, draws, **over):
        nonlocal i
        i += 1
        c = base_case(i, version, over.pop("extra", rng.random() < 0.5), over.pop("kd", rng.choice([0, 1, 1])), rng.choice([16, 32]), over.pop("tv", rng.choice([0, 1])),
                      rng.choice([4, 8]), over.pop("ffs", rng.random() < 0.5), over.pop("placeholder", rng.random() < 0.5), transport, rng.randbytes(64))
        c["kind"] = "matrix"; c["draws"] = draws
        c.update(over)
        cases.append(c)
        return c
    reps = 1 if quick else 4
    versions = lambda: BANDS if quick else BANDS + [rng.choice([0, 39999, 40399, 40401, 50000])]
    for _ in range(reps):
        # each boundary value of each kind alone, drawn by every endpoint: band x transport exhaustive
        for v in DRAW_VALUES["check"]:
            for version, transport in itertools.product(versions(), ["v0", "v1", "lite"]):
                case(version, transport, {"check": [v]})
        for v in DRAW_VALUES["session"]:
            for version, transport in itertools.product(versions(), ["v0", "v1", "lite"]):
                case(version, transport, {"session": [v]})
        for v in DRAW_VALUES["unrel"]:
            for version in versions():
                case(version, "v1", {"unrel": [v]})                                   # only PRUDP v1 over UDP draws it
        for tok, version, transport in itertools.product(["00", "ff"], BANDS, ["v0", "v1", "lite"]):
            case(version, transport, {"token": tok}, tv=1)                            # only ticket version 1 draws it
        # the two sides of a connection drawing different boundary values (a 2-cycle: client a / server b on both connections)
        for kind in ("check", "session"):
            edges = DRAW_EDGES[kind]
            for a, b in itertools.permutations(edges, 2):
                if quick and rng.random() < (0.5 if kind == "check" else 0.0): continue
                case(rng.choice(BANDS), rng.choice(["v0", "v1", "lite"]), {kind: [a, b]})
        # all kinds at once: the corners, then random mixes of boundary values with cycles of 1..3
        for a, b, c3 in itertools.product([0, 0xFFFFFFFF], [0, 0xFF], [0, 0xFFFF]):
            for transport in ["v0", "v1", "lite"]:
                case(rng.choice(BANDS), transport, {"check": [a], "session": [b], "unrel": [c3], "token": rng.choice(["00", "ff"])})
        for _ in range(36):
            draws = {kind: [rng.choice(DRAW_VALUES[kind]) for _ in range(rng.randint(1, 3))] for kind in ("check", "session", "unrel") if rng.random() < 0.8}
            if rng.random() < 0.3: draws["token"] = rng.choice(["00", "ff"])
            if not draws: draws = {"check": [rng.choice(DRAW_EDGES["check"])]}
            case(rng.choice(BANDS + [0, 39999, 40399, 40401]), rng.choice(["v0", "v1", "lite"]), draws)
        # boundary draws while the first copy of every datagram is lost (retransmitted SYN / CONNECT carry the same challenge)
        for v, transport in itertools.product(DRAW_EDGES["check"], ["v0", "v1"]):
            c = case(rng.choice(BANDS), transport, {"check": [v], "session": [rng.choice(DRAW_EDGES["session"])]}, kd=1)
            c["loss"] = True; c["kind"] = "loss"
        # failure scripts stay failures whatever is drawn
        for fault in ["wrong-password", "first-error-result", "second-rmc-error", "garbled-ticket", "stale", "wrong-server-key", "wrong-source"]:
            for version in BANDS:
                draws = {"check": [rng.choice(DRAW_EDGES["check"])], "session": [rng.choice(DRAW_EDGES["session"])]}
                c = case(version, rng.choice(["v0", "v1", "lite"]), draws, ffs=(fault != "second-rmc-error") and rng.random() < 0.5)
                if fault == "wrong-password":
                    c["source_key"] = None; c["source_key_text"] = ""; c["password"] = c["server_password"] + "x"
                else:
                    c["fault"] = fault
                    if c.get("password") is None and not c["source_key"]: c["password"] = c["server_password"]
                c["kind"] = "fail:" + fault
    return cases, i


def build_station_cases(rng, quick, i):
    """full logins through a protocol-following authentication server whose advertised station is answered by a DIFFERENT server
    (backend_sim.STATION_VARIANTS) while the genuine secure server lives elsewhere"""
    import backend_sim as B
    cases = []
    def case(variant, version, transport, placeholder, **over):
        nonlocal i
        i += 1
        # key derivation 0 costs 65000 MD5 on the Lean side and is orthogonal to who answers the station: one case in six
        c = base_case(i, version, rng.random() < 0.5, over.pop("kd", rng.choice([0, 1, 1, 1, 1, 1])), rng.choice([16, 32]), rng.choice([0, 1]), rng.choice([4, 8]),
                      rng.random() < 0.5, placeholder, transport, rng.randbytes(64))
        c["station"] = variant; c["kind"] = "fail:station:" + variant
        c.update(over)
        cases.append(c)
        return c
    for _ in range(1 if quick else 3):
        # every variant x band x transport x real / 0.0.0.1 station
        for variant, version, transport, placeholder in itertools.product(B.STATION_VARIANTS, BANDS, ["v0", "v1", "lite"], [False, True]):
            case(variant, version, transport, placeholder)
        # the band boundaries
        for variant in B.STATION_VARIANTS:
            for version in ([rng.choice([0, 39999, 40399, 40401, 50000])] if quick else [0, 39999, 40399, 40401, 50000]):
                case(variant, version, rng.choice(["v0", "v1", "lite"]), rng.random() < 0.5)
        # while the first copy of every datagram is lost (the CONNECT is retransmitted and answered again)
        for variant, transport in itertools.product(B.STATION_VARIANTS, ["v0", "v1"]):
            c = case(variant, rng.choice(BANDS), transport, rng.random() < 0.5, kd=1)
            c["loss"] = True
        # the client's connection check (and the session ids) at the boundaries: check+1 wraps, check+2 wraps, the inverted value is 0 ...
        for variant in B.STATION_VARIANTS:
            for v in (rng.sample(DRAW_EDGES["check"], 3) if quick else DRAW_VALUES["check"]):
                draws = {"check": [v]}
                if rng.random() < 0.3: draws["session"] = [rng.choice(DRAW_EDGES["session"])]
                case(variant, rng.choice(BANDS), rng.choice(["v0", "v1", "lite"]), rng.random() < 0.5, draws=draws)
    return cases, i


def run(ctx):
    rng = ctx.rng
    quick = ctx.tier == "quick"
    import backend_sim as _B, c17_multi as _M
    # bound on event-loop turns per simulated session (sim.VLoop.max_turns): a login session takes < 15k turns (quick tier)
    _B.MAX_TURNS = _M.MAX_TURNS = 300_000 if quick else 3_000_000
    drv = ctx.driver()
    ctx.rule = ("one case = one end-to-end login in the deterministic simulation (real backend.connect/login, real generated "
                "Authentication(NX)Server scripted per case, real secure rmc.serve with a key); the 1152-point configuration matrix is exhaustive, "
                "failure scripts (%d kinds) and first-copy datagram loss run on sub-matrices; the advertised station answered by a different server (keyless / other key / 16 kinds of wrong CONNECT answer x band x transport x real|0.0.0.1 station, + loss, + pinned connection checks): must raise and never enter the login body; full logins with the library's own random draws (connection check, session id, "
                "initial unreliable id, ticket key) pinned to boundary values, alone / mixed per endpoint / combined / with loss / under failure scripts; sessions = 2..5 logins through ONE BackEndClient and Settings object "
                "(all ordered pairs of %d step kinds per band + random longer ones; sequential / earlier connections held / concurrent; 1-2 clients), one case per login; "
                "timed sessions = 2..9 logins at chosen virtual instants against one long-lived pair of secure servers, the authentication server handing out the byte-identical ticket of a group at ages from 0.5 s over 119.75 / 120.25 s to a day + 5 s "
                "(band x transport x 5 age patterns + random ones; other groups and freshly issued tickets interleaved), judged at the actual instants; every recorded process_login_request of every session is replayed into Lean Backend.serve and every CONNECT payload compared with Backend.connectRequest; "
                "several deployments in ONE process (c17_multi.py) = 2..6 logins through 2..3 authentication servers (other hosts and / or ports, own or alike secure keys, own Settings or one shared) whose stations are the byte-identical 0.0.0.1 placeholder url, the byte-identical real url of a shared secure server, or own ones, "
                "in the orders AB, ABA, AAB, ABB, ABAB, ABBA, AABA over two deployments, ABC, ABCA, ABAC, ACBA over three and random ones x sequential / held / concurrent x BackEndClients connected up front / lazily / anew per login, with distinct accounts and with the same user name / pid / both / the very same account (and guest) on several deployments, failure scripts mixed in: "
                "each login must be admitted exactly once, at ITS deployment's server, as the issued pid, with every authentication call at ITS authentication server; compared with the Lean plan of its own deployment; "
                "each login is compared with the Lean plan (session: the k-th plan of Backend.session) and judged by the property oracle" % (len(FAILURES), len(STEP_KINDS)))
    cases = []
    i = 0
    for version, extra, kd, key_size, tv, pid_size, ffs, placeholder, transport in itertools.product(
            BANDS, [False, True], [0, 1], [16, 32], [0, 1], [4, 8], [True, False], [False, True], ["v0", "v1", "lite"]):
        i += 1
        c = base_case(i, version, extra, kd, key_size, tv, pid_size, ffs, placeholder, transport, rng.randbytes(64))
        c["kind"] = "matrix"
        cases.append(c)
    n_matrix = len(cases)
    # the exact band boundaries
    for version, extra, ffs, placeholder in itertools.product([0, 39999, 40399, 40401, 50000], [False, True], [True, False], [False, True]):
        i += 1
        c = base_case(i, version, extra, rng.choice([0, 1]), rng.choice([16, 32]), rng.choice([0, 1]), rng.choice([4, 8]), ffs, placeholder,
                      rng.choice(["v0", "v1", "lite"]), rng.randbytes(64))
        c["kind"] = "matrix"
        cases.append(c)
    # failure scripts: every kind x band x extra x first-ticket y/n (+ transports / remaining axes drawn at random)
    for fault, version, extra, ffs in itertools.product(FAILURES, BANDS, [False, True], [True, False]):
        reps = 1 if quick else 4
        for _ in range(reps):
            i += 1
            c = base_case(i, version, extra, rng.choice([0, 1]), rng.choice([16, 32]), rng.choice([0, 1]), rng.choice([4, 8]), ffs,
                          rng.random() < 0.5, rng.choice(["v0", "v1", "lite"]), rng.randbytes(64))
            reads = (version >= 40400) or (version >= 40000 and extra)
            if fault in ("second-error-result", "second-rmc-error", "garbled-second") and ffs: continue      # never asked
            if fault in ("wrong-password", "no-password") and c["source_key"]: c["source_key"] = None; c["source_key_text"] = ""
            if fault == "wrong-password": c["password"] = c["server_password"] + "x"
            elif fault == "no-password": c["password"] = None
            elif fault == "bad-source-key-hex":
                if not reads: continue
                c["source_key"] = None; c["source_key_text"] = rng.choice(["zz", "abc", "0g", "12 3"]).replace(" ", "")
            else: c["fault"] = fault
            if c.get("password") is None and not c["source_key"] and fault != "no-password": c["password"] = c["server_password"]
            c["kind"] = "fail:" + fault
            cases.append(c)
    # first copy of every datagram lost (both handshakes retransmit)
    for version, ffs, transport, placeholder in itertools.product(BANDS, [True, False], ["v0", "v1"], [False, True]):
        i += 1
        c = base_case(i, version, rng.random() < 0.5, 1, 32, 1, 4, ffs, placeholder, transport, rng.randbytes(64))
        c["loss"] = True; c["kind"] = "loss"
        cases.append(c)

    draw_cases, i = build_draw_cases(rng, quick, i)
    cases += draw_cases
    station_cases, i = build_station_cases(rng, quick, i)
    cases += station_cases

    sessions = build_sessions(rng, quick, i)
    timed_sessions, _ = build_timed_sessions(rng, quick, sessions[-1]["seed"] if sessions else i)
    sessions += timed_sessions
    import c17_multi
    multis, _ = c17_multi.build(rng, quick, sessions[-1]["seed"] if sessions else i)      # built last: the older families keep their draws
    with multiprocessing.get_context("fork").Pool(min(16, os.cpu_count() or 4)) as pool:
        pending = pool.map_async(session_worker, sessions, chunksize=4)
        observations = pool.map(worker, cases, chunksize=8)
        session_outs = pending.get()
    import time as _time
    _t0 = _time.time()
    multi_outs = c17_multi.run_fresh(multis)      # each in a freshly forked process: the interpreter's history is the scenario's own
    multi_wall = _time.time() - _t0
    crashes = [(c, o) for c, o in zip(cases, observations) if "crash" in o]
    if crashes:
        ctx.corr_break("simulation-crash", "the simulation harness crashed on %d cases: %s" % (len(crashes), crashes[0][1]["crash"]), {"case": _jsonable(crashes[0][0])})
        return
    crashes = [(x, o) for x, o in zip(sessions, session_outs) if "crash" in o]
    if crashes:
        ctx.corr_break("simulation-crash", "the session harness crashed on %d sessions: %s" % (len(crashes), crashes[0][1]["crash"]), {"session": _jsonable_session(crashes[0][0])})
        return
    lines = [plan_line(c, tuple(bytes.fromhex(t) for t in o["tickets"])) for c, o in zip(cases, observations)]
    session_lines = [session_line(x, o) for x, o in zip(sessions, session_outs)]
    n_single = len(lines)
    lines = lines + [l if l is not None else "session-not-run" for l in session_lines]
    n_plans = len(lines)
    serve_jobs, creq_jobs = serve_lines(sessions, session_outs)
    # every verdict of a client endpoint on a CONNECT/ACK payload (single runs) against Lean Backend.checkResponse
    cack_jobs = {}
    for c, o in zip(cases, observations):
        for r in o.get("responses", []):
            cack_jobs.setdefault(("cack %d %d %s" % (1 if r["cred"] else 0, r["check"], r["data"] or "-"), r.get("result", "none")), (c, r))
    cack_jobs = sorted(cack_jobs.items(), key=lambda kv: kv[0])
    lines = lines + [j[0] for j in serve_jobs] + [j[0] for j in creq_jobs] + [k[0] for k, _ in cack_jobs]
    # the Lean side does 65000+ MD5 per old-style derivation: split the batch over a few driver processes
    nchunk = 12
    chunks = [lines[k::nchunk] for k in range(nchunk)]
    with ThreadPoolExecutor(nchunk) as ex:
        outs_chunks = list(ex.map(lambda ch: drv.batch(ch) if ch else [], chunks))
    outs = [None] * len(lines)
    for k, oc in enumerate(outs_chunks):
        outs[k::nchunk] = oc

    serve_models = outs[n_plans:n_plans + len(serve_jobs)]
    creq_models = outs[n_plans + len(serve_jobs):n_plans + len(serve_jobs) + len(creq_jobs)]
    cack_models = outs[n_plans + len(serve_jobs) + len(creq_jobs):]
    session_models = outs[n_single:n_plans]
    outs = outs[:n_single]; lines = lines[:n_single]
    diffs, fails = [], []
    for c, o, line, model in zip(cases, observations, lines, outs):
        kind = c["kind"]
        mc = canon_model(model)
        oc = canon_obs(o)
        ctx.case(key=(kind, c["version"], c["extra"], c["kd"], c["key_size"], c["ticket_version"], c["pid_size"], c["first_for_secure"], c["placeholder"], c["transport"], c.get("fault"), c["seed"]),
                 nontrivial=True, tag=("draws:" + "+".join(sorted(c["draws"])) + ":" if c.get("draws") else "") + kind + ":" + (mc[2].split(" ")[0] if mc else "bad-op") + (":second" if mc and "requestTicket" in mc[0] else ""),
                 sample={"case": {k: (v.hex() if isinstance(v, bytes) else v) for k, v in c.items() if k not in ("session_key",)}, "model": model[:200], "observed": list(oc)} if ctx.evaluations % 331 == 0 else None)
        if mc != oc:
            diffs.append((c, o, model, oc))
        why = judge(c, o)      # ---- the property on the real code
        if why:
            fails.append((c, o, why))
    # ---- sessions: every step against the model's session and against the property
    import backend_sim as B
    sdiffs, sfails = [], []
    n_straddle = 0
    for x, o, model in zip(sessions, session_outs, session_models):
        plans = model.split(" ;; ") if model not in ("bad-op", "") else []
        n = len(x["steps"])
        kinds = [st["step_kind"] for st in x["steps"]]
        whole = None
        if o["error"] is not None: whole = "the session as a whole ended with %s" % o["error"]
        elif any(o["stray"][f] for f in ("calls", "accepts", "attempts", "keys", "handler_pids")):
            whole = "activity that belongs to no login of the session: %r" % ({f: o["stray"][f] for f in ("calls", "accepts", "attempts", "keys", "handler_pids") if o["stray"][f]},)
        if whole: sfails.append((x, o, None, whole))
        for k in range(n):
            c = B.step_case(x, k)
            so = o["steps"][k]
            mc = canon_model(plans[k]) if k < len(plans) and len(plans) == n else None
            oc = canon_obs(so)
            if x.get("timed"):
                c["kind"] = timed_kind(so)
                t = so.get("timing") or {}
                seen = sum(1 for j in range(k) if x["steps"][j].get("group") is not None and x["steps"][j].get("group") == c.get("group") and x["steps"][j]["placeholder"] == c["placeholder"])
                ctx.case(key=("timed-session", x["seed"], k), nontrivial=True,
                         tag="timed:%s:%s:%s:%s" % (x["mode"], "group" if c.get("group") else "fresh-ticket", "first-seen" if not seen else "seen-before",
                                                    {"matrix": "young->must-connect", "fail:stale-by-now": "stale->must-fail", None: "straddles-the-limit"}[c["kind"]]),
                         sample={"session": _jsonable_session(x), "step": k, "timing": t, "observed": list(oc)} if ctx.evaluations % 97 == 0 else None)
                if mc != oc: sdiffs.append((x, k, model, oc))
                if c["kind"] is None: n_straddle += 1; continue
                why = judge(c, so)
                if why and c["kind"] != "matrix":
                    why = "the ticket was %.6g s old when this login began (stamp + %d s passed %.6g s earlier): a stale ticket, yet the login produced a connection: error=%r, secure server accepted %r, handler saw pid %r" % (
                        t["t0"] - t["stamp"], LIFETIME, t["t0"] - t["stamp"] - LIFETIME, so["error"], so["accepts"], so["handler_pids"])
                elif why:
                    why = "the ticket was %.6g s old when this login began and %.6g s old when it ended (younger than %d s), " % (t["t0"] - t["stamp"], t["t1"] - t["stamp"], LIFETIME) + why
                if why: sfails.append((x, o, k, why))
                continue
            ctx.case(key=("session", x["seed"], k), nontrivial=True,
                     tag="session:%s:%s%s:%s" % (x["mode"], (kinds[k - 1] + ">") if k else "", kinds[k], (mc[2].split(" ")[0] if mc else "bad-op")),
                     sample={"session": _jsonable_session(x), "step": k, "model": (plans[k][:200] if k < len(plans) else model[:200]), "observed": list(oc)} if ctx.evaluations % 397 == 0 else None)
            if mc != oc: sdiffs.append((x, k, model, oc))
            why = judge(c, so)
            if why: sfails.append((x, o, k, why))
    ctx.extra["sessions"] = len(sessions)
    ctx.extra["session_logins"] = sum(len(x["steps"]) for x in sessions)
    ctx.extra["session_modes"] = {m: sum(1 for x in sessions if x["mode"] == m) for m in ("seq", "hold", "conc")}
    ctx.extra["session_correspondence_diffs"] = len(sdiffs)
    ctx.extra["timed_sessions"] = sum(1 for x in sessions if x.get("timed"))
    ctx.extra["timed_logins"] = sum(len(x["steps"]) for x in sessions if x.get("timed"))
    ctx.extra["timed_logins_straddling_the_limit_not_judged"] = n_straddle
    # ---- the secure server's side: every recorded process_login_request against Backend.serve, every CONNECT payload against Backend.connectRequest
    serve_diffs = []
    n_pres = 0
    for (line, x, server, recs), model in zip(serve_jobs, serve_models):
        verdicts = model.split(" ;; ") if model not in ("bad-op", "") else []
        n_pres += len(recs)
        for j, r in enumerate(recs):
            m = verdicts[j] if j < len(verdicts) and len(verdicts) == len(recs) else "bad-op"
            real = r.get("result", "none")
            if real.startswith("again ") and m.startswith("accept "): m = "again " + m.split(" ")[3]      # a retransmitted CONNECT: answered, nobody logged in again
            if m != real: serve_diffs.append((x, server, j, r, m))
    creq_diffs = [(x, k, real, model) for (line, x, k, real), model in zip(creq_jobs, creq_models) if model != real]
    ctx.extra["server_presentations_vs_model"] = n_pres
    ctx.extra["server_objects_vs_model"] = len(serve_jobs)
    ctx.extra["server_presentation_diffs"] = len(serve_diffs)
    ctx.extra["connect_payloads_vs_model"] = len(creq_jobs)
    ctx.extra["connect_payload_diffs"] = len(creq_diffs)
    ctx.extra["session_oracle_failures"] = len(sfails)
    # report the shortest failing sessions first, each with the verdict of the same login through a fresh client
    sfails.sort(key=lambda f: (bool(f[0].get("draws")), len(f[0]["steps"]), f[2] if f[2] is not None else -1))
    for x, o, k, why in sfails[:8]:
        kinds = [st["step_kind"] for st in x["steps"]]
        if k is None:
            key = "backend-session:%s:v%d:%s" % (x["mode"], x["version"], ">".join(kinds))
            text = "session of %d logins through one BackEndClient (%s): %s" % (len(kinds), x["mode"], why)
        else:
            c = B.step_case(x, k)
            alone = dict(x, steps=[dict(x["steps"][k], client=0)], mode="seq", nclients=1)
            ao = session_worker(alone)
            if x.get("timed"): c["kind"] = timed_kind(o["steps"][k])
            alone_why = ("crash " + ao["crash"]) if "crash" in ao else (ao["error"] or judge(c, ao["steps"][0]))
            key = "backend-session:%s:v%d:%s:step%d" % (x["mode"], x["version"], ">".join(kinds[:k + 1]), k)
            before = "; ".join("#%d %s -> %s" % (j, describe_step(B.step_case(x, j)), o["steps"][j]["error"] or "connected") for j in range(len(kinds)) if j != k and (j < k or x["mode"] == "conc"))
            text = ("login #%d of a session through one BackEndClient/Settings object (schedule '%s', nex.version %d, key derivation %d, %s): %s -- %s. %s: %s. "
                    "The same login alone through a fresh BackEndClient: %s") % (
                k, x["mode"], x["version"], x["kd"], x["transport"], describe_step(c), why,
                "Other logins in flight" if x["mode"] == "conc" else "Earlier logins through the same client", before or "none",
                "behaves as the property demands" if alone_why is None else alone_why)
            if x.get("timed"):
                key = "backend-timed-session:%s:v%d:%s:step%d:%s" % (x["mode"], x["version"], x["transport"], k, "stale-ticket-connected" if c["kind"] != "matrix" else "young-ticket-failed")
                text = ("login #%d of a timed session against one long-lived pair of secure servers (virtual time; schedule '%s', nex.version %d, key derivation %d, ticket version %d, %s): %s, begun at %.6g s -- %s. %s. "
                        "The same login at the same instant with the same ticket against secure servers that have just been started: %s") % (
                    k, x["mode"], x["version"], x["kd"], x["ticket_version"], x["transport"], describe_step(c), o["steps"][k]["timing"]["t0"], why, describe_timed(x, o, k),
                    "behaves as the property demands" if alone_why is None else alone_why)
        if x.get("draws"):
            key += ":draws[%s]" % ",".join("%s=%s" % (kk, "/".join("%X" % v for v in vs)) for kk, vs in sorted(x["draws"].items()))
            text += " [in this session: %s; the fresh-client comparison run restarts the same cycle of pinned values, so with a cycle of several values its endpoints may draw other members of it]" % describe_draws(x["draws"])
        ctx.violation(key, text, {"session": _jsonable_session(x), "step": k, "observed": {"steps": [_jsonable(so) for so in o["steps"]], "stray": o["stray"], "error": o["error"], "draws_made": o.get("draws_made")},
                                  "how": "harness/backend_sim.run_session(session) (./check C17 --replay <this file>)"})
    # ---- several deployments in one process (c17_multi.py): every login against ITS deployment's plan and the property
    def batch_chunked(ls):
        chunks = [ls[k::nchunk] for k in range(nchunk)]
        with ThreadPoolExecutor(nchunk) as ex:
            ocs = list(ex.map(lambda ch: drv.batch(ch) if ch else [], chunks))
        res = [None] * len(ls)
        for k, oc in enumerate(ocs): res[k::nchunk] = oc
        return res
    _t0 = _time.time()
    c17_multi.evaluate(ctx, batch_chunked, multis, multi_outs)
    ctx.extra["multi_wall_seconds"] = round(multi_wall + _time.time() - _t0, 1)
    ctx.traces_validated = len(cases) + sum(len(x["steps"]) for x in sessions) + sum(len(x["steps"]) for x in multis)
    ctx.exhaustive = True
    ctx.extra["matrix_configurations"] = n_matrix
    ctx.extra["failure_script_runs"] = sum(1 for c in cases if c["kind"].startswith("fail"))
    ctx.extra["loss_runs"] = sum(1 for c in cases if c["kind"] == "loss")
    ctx.extra["pinned_draw_runs"] = sum(1 for c in cases if c.get("draws"))
    ctx.extra["pinned_draw_sessions"] = sum(1 for x in sessions if x.get("draws"))
    ctx.extra["correspondence_diffs"] = len(diffs)
    ctx.extra["oracle_failures"] = len(fails)
    # failures that need no pinned draw first, then the simplest pinned ones
    fails.sort(key=lambda f: sum(len(v) for v in f[0].get("draws", {}).values()))
    plain = [f for f in fails if not f[0].get("draws")]
    pinned = [f for f in fails if f[0].get("draws")]
    ctx.extra["pinned_draw_oracle_failures"] = len(pinned)
    seen_sig, pinned_sel = set(), []
    for f in pinned:       # one report per (kinds pinned, transport, what went wrong), the simplest first
        sig = (tuple(sorted(f[0]["draws"])), f[0]["transport"], f[2][:60])
        if sig not in seen_sig: seen_sig.add(sig); pinned_sel.append(f)
    # one report per (kind, transport) first, so that 25 reports show the variety of what failed
    seen_kt, first, rest = set(), [], []
    for f in plain:
        kt = (f[0]["kind"], f[0]["transport"])
        (rest if kt in seen_kt else first).append(f); seen_kt.add(kt)
    plain = first + rest
    for c, o, why in plain[:25] + pinned_sel[:8]:
        key = "backend:%s:v%d:extra=%d:ffs=%d:placeholder=%d" % (c["kind"], c["version"], c["extra"], c["first_for_secure"], c["placeholder"])
        if c.get("draws"):
            key += ":draws[%s]" % ",".join("%s=%s" % (k, "/".join("%X" % v for v in vs) if k != "token" else vs) for k, vs in sorted(c["draws"].items()))
            why = "%s login(%r) over %s, nex.version %d, with %s: %s%s" % (
                "back-end" if not c.get("loss") else "back-end (first copy of every datagram lost)", c["username"], c["transport"], c["version"], describe_draws(c["draws"]), why,
                "" if c["kind"].startswith("fail") else "; authentication methods invoked: %s; the secure server admitted: %s" % (
                    [x.split(" ")[0] for x in o["calls"]], ["pid %r" % a[2] for a in o["accepts"]] or "nobody"))
        ctx.violation(key, why, {"case": _jsonable(c), "observed": _jsonable(o), "how": "harness/backend_sim.run_case(case) (./check C17 --replay <this file>); case.draws pins the library's random draws, see backend_sim.apply_draws"})
    cack_diffs = [(line, real, model, c, r) for ((line, real), (c, r)), model in zip(cack_jobs, cack_models) if model != real]
    ctx.extra["station_runs"] = len(station_cases)
    ctx.extra["station_variants"] = len(B.STATION_VARIANTS)
    ctx.extra["connect_answers_vs_model"] = len(cack_jobs)
    ctx.extra["connect_answers_refused"] = sum(1 for (line, real), _ in cack_jobs if real != "ok")
    ctx.extra["connect_answer_diffs"] = len(cack_diffs)
    if cack_diffs and not ctx.violations and not ctx.known_hits:
        line, real, model, c, r = cack_diffs[0]
        ctx.corr_break("backend-connect-answer-correspondence", "the real PRUDPClient.check_connection_response and Lean Backend.checkResponse disagree on %d of %d distinct (credentials, check, payload) triples (first: %r: real %r, model %r)" % (
                           len(cack_diffs), len(cack_jobs), line, real, model),
                       {"case": _jsonable(c), "record": r, "model": model, "theorems_no_longer_tied": ["Nx.C17.connect_answer_gate", "Nx.C17.wrong_station_answer_refused", "Nx.C17.admitted_answer_accepted"]})
    if serve_diffs and not ctx.violations and not ctx.known_hits:
        x, server, j, r, m = serve_diffs[0]
        ctx.corr_break("backend-serve-correspondence", "the real PRUDPServerStream.process_login_request and Lean Backend.serve disagree on %d of %d recorded calls (first: server %s, call %d at tick %d: real %r, model %r)" % (
                           len(serve_diffs), n_pres, server, j, r["now"], r.get("result"), m),
                       {"session": _jsonable_session(x), "server": server, "call": j, "record": r, "model": m,
                        "theorems_no_longer_tied": ["Nx.C17.admission_history_independent", "Nx.C17.stale_ticket_refused_after_any_history", "Nx.C17.admitted_ticket_is_young"]})
    if creq_diffs and not ctx.violations and not ctx.known_hits:
        x, k, real, model = creq_diffs[0]
        ctx.corr_break("backend-connect-request-correspondence", "the CONNECT payload the real client sent and Lean Backend.connectRequest of the plan's credentials disagree on %d of %d logins" % (len(creq_diffs), len(creq_jobs)),
                       {"session": _jsonable_session(x), "step": k, "real": real, "model": model, "theorems_no_longer_tied": ["Nx.C17.connect_admitted_as_issued"]})
    if sdiffs and not ctx.violations and not ctx.known_hits:
        x, k, model, oc = sdiffs[0]
        ctx.corr_break("backend-session-correspondence", "real BackEndClient logins in sequence and Lean Backend.session disagree on %d of %d session steps" % (len(sdiffs), sum(len(x["steps"]) for x in sessions)),
                       {"session": _jsonable_session(x), "step": k, "model": model, "observed": list(oc), "theorems_no_longer_tied": ["Nx.C17.login_history_independent", "Nx.C17.session_step_connect", "Nx.C17.login_leaves_client"]})
    if diffs and not ctx.violations and not ctx.known_hits:
        c, o, model, oc = diffs[0]
        ctx.corr_break("backend-plan-correspondence", "real BackEndClient.login and Lean plan disagree on %d of %d runs" % (len(diffs), len(cases)),
                       {"case": _jsonable(c), "model": model, "observed": list(oc), "theorems_no_longer_tied": ["Nx.C17.connect_credentials", "Nx.C17.second_ticket_iff", "Nx.C17.dispatch_old"]})


def replay(ctx, path):
    import json, backend_sim
    r = json.load(open(path))
    if "multi" in r:
        import c17_multi
        c17_multi.replay(r["multi"])
        return 0
    if "session" in r:
        out = backend_sim.run_session(_unjson_session(r["session"]))
        timed = r["session"].get("timed")
        for k, so in enumerate(out["steps"]):
            print("login #%d:" % k, {f: so[f] for f in ("calls", "keys", "attempts", "accepts", "handler_pids", "client_pid", "error")})
            if timed:
                c = dict(backend_sim.step_case(r["session"], k), kind=timed_kind(so))
                t = so.get("timing") or {}
                print("   ticket group %r, begun at %s s, ended at %s s, ticket stamped at %s s -> %s; property verdict: %s" % (
                    c.get("group"), t.get("t0"), t.get("t1"), t.get("stamp"), {"matrix": "younger than 120 s: must connect", "fail:stale-by-now": "older than 120 s: must not connect", None: "straddles the limit: not judged"}[c["kind"]],
                    "-" if c["kind"] is None else (judge(c, so) or "holds")))
        if timed:
            for p in out["presentations"]:
                print("   process_login_request at %s, t = %.9f s, login #%s: %s" % (p["server"], p["now"] / 2.0 ** 30, p["step"], p.get("result", "")[:60]))
        print("stray:", out["stray"], "error:", out["error"])
        return 0
    c = r["case"]
    for k in ("session_key", "source_key"):
        if isinstance(c.get(k), str): c[k] = bytes.fromhex(c[k])
    o = backend_sim.run_case(c)
    print({f: o.get(f) for f in ("calls", "keys", "attempts", "accepts", "handler_pids", "client_pid", "probe", "error", "error_text", "draws_made", "entered", "responses", "rogue_answers")})
    if c.get("station"): print("advertised station answered by:", c["station"], "- login() yielded a connection:", o.get("entered"))
    if c.get("draws"): print("pinned:", describe_draws(c["draws"]))
    if "kind" in c: print("property verdict:", judge(c, o) or "holds")
    return 0


def _jsonable(d):
    return {k: (v.hex() if isinstance(v, bytes) else v) for k, v in d.items()}
