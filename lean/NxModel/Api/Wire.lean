import NxModel.Nex.Common
/-!
# The `nex.*` settings at the consumer that puts structures on the wire: `RMCClient`

`rmc.connect` / `rmc.serve` / `rmc.serve_on_transport` wrap the PRUDP connection in an `RMCClient`, which keeps **its own copy** of the
caller's settings and adjusts the copy to the negotiated connection (`nintendo/nex/rmc.py:126-131`):

    self.settings = settings.copy()
    if self.client.minor_version() >= 3:
        self.settings["nex.struct_header"] = True

Every protocol class and `BackEndClient` encodes with that copy (`client.settings`).  `rmcSettings` is that adjustment, `negotiatedMinor`
what `minor_version()` returns on an established connection (v0 carries no negotiation options: 0; v1 / lite: the smaller of the two ends),
and the `req…` / `resp…` functions are the bodies the generated authentication protocol (`nintendo/nex/authentication.py`) and
`BackEndClient.login` (`backend.py:36-41, 94-131`) write for a given effective configuration, built from the stream / structure model of
`Streams.lean` and `Common.lean`.  The correspondence (harness/api_wire.py) captures the same bodies from a real `RMCClient` over a
simulated PRUDP connection for every connection kind x minor versions x nex.* values.
-/
namespace Nx.Api.Wire
open Nx Nx.Nex

/-- the `nex.*` group of the settings table -/
structure NexCfg where
  structHeader : Bool
  pidSize : Nat
  version : Nat
  clientVersion : Nat
  deriving DecidableEq, Repr

inductive Kind where
  | v0 | v1 | v2 | lite
  deriving DecidableEq, Repr

/-- `PRUDPClient.minor_version()` after the handshake (prudp.py:1013-1022, 1302, 1326; `PRUDPMessageV0` has no option fields: 0) -/
def negotiatedMinor (k : Kind) (cmin smin : Nat) : Nat :=
  match k with
  | .v0 => 0
  | _ => min cmin smin

/-- `RMCClient.__init__` (rmc.py:126-131): the copy the connection encodes with -/
def rmcSettings (minor : Nat) (c : NexCfg) : NexCfg :=
  if minor ≥ 3 then { c with structHeader := true } else c

/-! ## structures -/

/-- one class of a hierarchy in `Structure.encode` (common.py:79-90): with headers `save` gets `max_version`, without it gets 0 -/
def wLevel (c : NexCfg) (maxVersion : Nat) (body : Nat → Except Err Bytes) : Except Err Bytes := do
  let b ← body (if c.structHeader then maxVersion else 0)
  wStructLevel c.structHeader maxVersion b

def cat : List (Except Err Bytes) → Except Err Bytes
  | [] => .ok []
  | x :: xs => do let a ← x; let r ← cat xs; pure (a ++ r)

/-- `AuthenticationInfo(Data)`: two levels -/
def wAuthInfo (c : NexCfg) (token : String) (ngs ttype sver : Nat) : Except Err Bytes :=
  cat [wLevel c 0 (fun _ => .ok []), wLevel c 0 (fun _ => cat [wString (some token), wU32 ngs, wU8 ttype, wU32 sver])]

/-- `NullData(Data)` -/
def wNullData (c : NexCfg) : Except Err Bytes := cat [wLevel c 0 (fun _ => .ok []), wLevel c 0 (fun _ => .ok [])]

def wHolder (name : String) (payload : Except Err Bytes) : Except Err Bytes := do let p ← payload; wAnyData (some name) p

/-- `RVConnectionData` (authentication.py:36-74): `max_version` is 1 from NEX 3.5.0; the server time is written for version >= 1 only -/
def wConnData (c : NexCfg) (main special : String) (protocols : List Nat) (time : Nat) : Except Err Bytes :=
  wLevel c (if c.version ≥ 30500 then 1 else 0) fun v =>
    cat ([wString (some main), wList wU8 protocols, wString (some special)] ++ (if c.version ≥ 30500 ∧ v ≥ 1 then [wDateTime time] else []))

/-- `ValidateAndRequestTicketParam` as `BackEndClient.login_with_param` fills it in (backend.py:112-121) -/
def wParam (c : NexCfg) (user : String) (dataName : String) (data : Except Err Bytes) : Except Err Bytes :=
  wLevel c 0 fun _ => cat [wU32 3, wString (some user), wHolder dataName data, wBool false, wU32 c.version, wU32 c.clientVersion]

/-! ## request and response bodies of the authentication protocol -/

def reqLoginEx (c : NexCfg) (user token : String) : Except Err Bytes :=
  cat [wString (some user), wHolder "AuthenticationInfo" (wAuthInfo c token 3 1 0)]

def reqTicket (c : NexCfg) (source target : Nat) : Except Err Bytes := cat [wPid c.pidSize source, wPid c.pidSize target]

def reqGetName (c : NexCfg) (pid : Nat) : Except Err Bytes := wPid c.pidSize pid

/-- the first request of `BackEndClient.login(user, password, auth_info)`: method id and body (backend.py:36-41) -/
def reqBackendLogin (c : NexCfg) (user token : String) : Nat × Except Err Bytes :=
  if c.version < 40000 then (2, reqLoginEx c user token)
  else if c.version < 40400 then (2, reqLoginEx c user token)
  else (6, wParam c user "AuthenticationInfo" (wAuthInfo c token 3 1 0))

def respLogin (c : NexCfg) (code pid : Nat) (ticket : Bytes) (main special : String) (protocols : List Nat) (time : Nat) (name : String) :
    Except Err Bytes :=
  cat [wResult code, wPid c.pidSize pid, wBuffer ticket, wConnData c main special protocols time, wString (some name)]

def respTicket (code : Nat) (ticket : Bytes) : Except Err Bytes := cat [wResult code, wBuffer ticket]

end Nx.Api.Wire
