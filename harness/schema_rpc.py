"""Worker side of the C14 tie: one generated module in a fresh process; real generated client -> real RMCClient
-> in-memory transport -> real RMCClient -> real generated server with a recording implementation,
forward-compatibility splices on every versioned structure, sequences of connections sharing a Settings object,
bursts of calls in flight at the same time on one connection (transport whose send yields to the event loop), and a
repetition of every string-carrying method with non-ASCII content in every string-valued position.

An exception of the library that escapes a unit of work (a connection, a burst, the splices of a configuration) is
not an infrastructure error: it is recorded with the input that was being processed (`doing`) and reported."""
import asyncio, os, random, struct, sys, traceback

from schema_proto2lean import load_env, code
import schema_values as SV
import c14_values as V14
from schema_tie import exc_name, module_configs, driver_batch, make_class_name, FUEL


def task(args):
    repo, name, cfgs, seed, per_item, exe, deep = args
    res = {"module": name, "cases": 0, "lines": 0, "tags": {}, "diffs": [], "keys": [], "samples": [], "error": None,
           "methods": 0, "fc_cases": 0}
    try:
        _task(repo, name, cfgs, seed, per_item, exe, deep, res)
    except Exception:
        res["error"] = traceback.format_exc()
        res["error_in_library"] = _in_library(res["error"], repo)
    return res


def _in_library(tb, repo):
    """does the traceback pass through the tree under test?"""
    return os.path.join(os.path.abspath(repo), "nintendo") + os.sep in tb


def _short(x, n=1500):
    x = str(x)
    return x if len(x) <= n else x[:n] + "...(%d more)" % (len(x) - n)


def _task(repo, name, cfgs, seed, per_item, exe, deep, res):
    sys.path.insert(0, repo)
    import importlib, logging
    logging.disable(logging.CRITICAL)
    import anyio
    from nintendo.nex import common, streams, rmc, settings as nexsettings, notification
    mod = importlib.import_module("nintendo.nex." + name)
    if not os.path.abspath(mod.__file__).startswith(os.path.abspath(repo)):
        raise RuntimeError("module %s imported from %s" % (name, mod.__file__))
    env, problem = load_env(os.path.join(repo, "nintendo/files/proto"), repo, name)
    if env is None: raise RuntimeError(problem)
    rng = random.Random("rpc/%s/%s/%r" % (seed, name, cfgs[0]))
    gen = V14.Gen14(env, rng)
    real = SV.Real(gen, mod, common, notification)
    tags = res["tags"]
    def tag(t, n=1): tags[t] = tags.get(t, 0) + n
    lines = env.driver_lines()
    nsetup = len(lines)
    checks = []
    doing = {}          # breadcrumb: the input being processed (reported when the library raises outside a guarded call)
    crashes = []

    class Pipe:
        def __init__(self, minor):
            self.q = asyncio.Queue(); self.peer = None; self.minor = minor
        def minor_version(self): return self.minor
        async def send(self, data):
            if getattr(self, "log", None) is not None: self.log.append(bytes(data))
            await self.peer.q.put(bytes(data))
        async def recv(self):
            d = await self.q.get()
            if d is None: raise anyio.EndOfStream
            return d
        async def close(self):
            await self.peer.q.put(None); await self.q.put(None)
        disconnect = close
        def pid(self): return 1
        def local_address(self): return ("127.0.0.1", 1)
        def remote_address(self): return ("127.0.0.1", 2)
        def local_sid(self): return 1
        def remote_sid(self): return 1

    def mk_settings(cfg):
        s = nexsettings.default()
        s["nex.version"] = cfg[0]; s["nex.struct_header"] = 0; s["nex.pid_size"] = cfg[2]
        return s

    async def proto_session(ci, cfg, the_proto):
        st = mk_settings(cfg)
        cs = "%d %d %d %d" % (cfg[0], cfg[1], cfg[2], FUEL)
        minor = rng.choice([3, 4, 5]) if cfg[1] else rng.choice([0, 1, 2])
        a, b = Pipe(minor), Pipe(minor); a.peer = b; b.peer = a
        rc, rs = rmc.RMCClient(st, a), rmc.RMCClient(st, b)
        checks.append(("hdrauto", "%s:%s:hdr-auto:%r:%d" % (name, the_proto["name"], cfg, minor), len(lines),
                       {"real": (int(bool(rc.settings["nex.struct_header"])), int(bool(rs.settings["nex.struct_header"]))), "minor": minor, "orig": int(bool(st["nex.struct_header"]))}))
        lines.append("rmccfg 0 %d" % minor)
        servers = {the_proto["name"]: getattr(mod, make_class_name(the_proto["name"], "Server"))()}
        async with anyio.create_task_group() as tg:
            tg.start_soon(rc.start, [])
            tg.start_soon(rs.start, list(servers.values()))
            try:
                for p in [the_proto]:
                    pname = p["name"]
                    srv = servers[pname]
                    cli = getattr(mod, make_class_name(pname, "Client"))(rc)
                    first_supported = True
                    for m in p["methods"]:
                        if ci == 0: res["methods"] += 1
                        mref = "%d %d" % (code(pname), code(m["name"]))
                        if not m["supported"]:
                            if ci == 0 and not p["noresponse"]:
                                try:
                                    with anyio.fail_after(10):
                                        await rc.request(p["id"], m["id"], b"")
                                    r = "returned"
                                except common.RMCError as e:
                                    r = e.name()
                                checks.append(("notimpl", "%s:%s.%s:unsupported" % (name, pname, m["name"]), len(lines), {"r": r, "client_has": hasattr(cli, m["name"])}))
                                lines.append("dispatch %d %d 1" % (code(pname), m["id"]))
                            continue
                        if ci == 0 and first_supported and not p["noresponse"]:
                            # a server class that leaves the method at the generated stub
                            first_supported = False
                            try:
                                args = [real.build_typed(v["type"], gen.gen(v["type"], cfg, 0, False)) for v in m["request"]]
                                with anyio.fail_after(10):
                                    await getattr(cli, m["name"])(*args)
                                r = "returned"
                            except common.RMCError as e:
                                r = e.name()
                            except Exception as e:
                                r = "exc " + exc_name(e)
                            checks.append(("notimpl", "%s:%s.%s:unimplemented" % (name, pname, m["name"]), len(lines), {"r": r, "client_has": False}))
                            lines.append("dispatch %d %d 0" % (code(pname), m["id"]))
                        reps = list(range(per_item))
                        if gen.method_stringy(m):
                            # every string-valued position of this method holds non-ASCII text (multi-byte UTF-8, astral)
                            reps += ["na%d" % i for i in range(1 if per_item == 1 else 2)]
                            # ... and once more with a string from the EDGES of the domain in every such position (trailing / only / inner
                            # U+0000, white space and control characters at the ends, BMP border characters, lengths at the borders of the
                            # 16-bit prefix up to the longest encodable string, map keys differing only in their tail)
                            reps += ["ed%d" % i for i in range(1 if per_item == 1 else 3)]
                        for rep in reps:
                            key = "%s:%s.%s:%r:%s" % (name, pname, m["name"], cfg, rep)
                            gen.nonascii = isinstance(rep, str) and rep.startswith("na")
                            gen.edge = isinstance(rep, str) and rep.startswith("ed")
                            try:
                                args = [gen.gen(v["type"], cfg, 0, False) for v in m["request"]]
                                rets = [gen.gen(v["type"], cfg, 0, len(m["response"]) == 1 and v["type"]["name"] != "anydata") for v in m["response"]]
                            finally:
                                gen.nonascii = False; gen.edge = False
                            doing.clear(); doing.update(op="call", protocol=pname, method=m["name"], cfg=list(cfg), minor_version=minor,
                                         args=_short(SV.vals(args), 4000), returns=_short(SV.vals(rets), 4000))
                            rec = {}
                            rargs = [real.build_typed(v["type"], t) for v, t in zip(m["request"], args)]
                            rrets = [real.build_typed(v["type"], t) for v, t in zip(m["response"], rets)]
                            if len(rrets) > 1:
                                robj = rmc.RMCResponse()
                                for v, x in zip(m["response"], rrets): setattr(robj, v["name"], x)
                            elif len(rrets) == 1: robj = rrets[0]
                            else: robj = None
                            async def impl(client, *a, _rec=rec, _robj=robj):
                                _rec["args"] = a
                                return _robj
                            setattr(srv, m["name"], impl)
                            try:
                                with anyio.fail_after(10):
                                    result = await getattr(cli, m["name"])(*rargs)
                                flow = "ok"
                            except common.RMCError as e:
                                flow, result = "rmcerror " + e.name(), None
                            except Exception as e:
                                flow, result = "err " + exc_name(e), None
                            if p["noresponse"] and flow == "ok":
                                for _ in range(200):
                                    if "args" in rec: break
                                    await anyio.sleep(0)
                            delattr(srv, m["name"])
                            checks.append(("rpc", key, len(lines), {"flow": flow, "cfg": cfg, "proto": pname, "method": m, "args": args, "rets": rets,
                                                                    "sargs": rec.get("args"), "result": result, "noresponse": p["noresponse"],
                                                                    "nonascii": isinstance(rep, str) and rep.startswith("na"),
                                                                    "edge": isinstance(rep, str) and rep.startswith("ed")}))
                            lines.append("visreq %s %s %s" % (cs, mref, SV.vals(args)))
                            lines.append("visresp %s %s %s" % (cs, mref, SV.vals(rets)))
                            lines.append("req %s %s %s" % (cs, mref, SV.vals(args)))
                            lines.append("sresp %s %s %s" % (cs, mref, SV.vals(rets)))
                    if ci == 0 and not p["noresponse"]:
                        try:
                            with anyio.fail_after(10):
                                await rc.request(p["id"], max([m["id"] for m in p["methods"]] + [0]) + 1000, b"")
                            r = "returned"
                        except common.RMCError as e:
                            r = e.name()
                        checks.append(("notimpl", "%s:%s:unknown-method" % (name, pname), len(lines), {"r": r, "client_has": False}))
                        lines.append("dispatch %d %d 1" % (code(pname), max([m["id"] for m in p["methods"]] + [0]) + 1000))
                if ci == 0 and the_proto is env.protos[0]:
                    try:
                        with anyio.fail_after(10):
                            await rc.request(0x7E00 + len(name), 1, b"")
                        r = "returned"
                    except common.RMCError as e:
                        r = e.name()
                    checks.append(("notimpl", "%s:unknown-protocol" % name, len(lines), {"r": r, "client_has": False}))
                    lines.append("dispatch 1 1 1")
            finally:
                await rc.close()

    # ---------------- forward compatibility splices (structure headers on)
    def forward_compat(cfg):
        st = mk_settings(cfg); st["nex.struct_header"] = 1
        cs = "%d 1 %d %d" % (cfg[0], cfg[2], FUEL)
        for s in env.versioned():
            sname = s["name"]
            if sname not in env.structs: continue
            x = rng.random()
            gen.nonascii, gen.edge = x < 0.3, 0.3 <= x < 0.55
            try: tree = gen.obj(sname, cfg)
            finally: gen.nonascii = False; gen.edge = False
            doing.clear(); doing.update(op="forward-compat", struct=sname, cfg=[cfg[0], 1, cfg[2]], value=_short(SV.to_val(tree), 4000))
            rb = None
            try:
                obj = real.build(tree)
                out = streams.StreamOut(st); out.add(obj); rb = out.get()
                # walk the hierarchy levels to the structure's own level
                pos = 0
                for _ in range(len(gen.chain(sname)) - 1):
                    pos += 5 + struct.unpack_from("<I", rb, pos + 1)[0]
                ver = rb[pos]; ln = struct.unpack_from("<I", rb, pos + 1)[0]
                body = rb[pos + 5: pos + 5 + ln]
                if pos + 5 + ln != len(rb): raise ValueError("the length prefixes of the hierarchy levels do not add up to the encoded size")
                base = streams.StreamIn(rb, st).extract(real.cls(sname))
            except Exception as e:
                # the library cannot write / read back its own structure: a failing input for the round trip itself
                checks.append(("selfrt", "%s:%s:%r:self" % (name, sname, cfg), len(lines),
                               {"struct": sname, "cfg": cfg, "value": SV.to_val(tree), "hex": SV.hx(rb) if rb else None,
                                "exc": "%s: %s" % (exc_name(e), e), "stage": "decode" if rb is not None else "encode"}))
                lines.append("vis %s S %d %s" % (cs, code(sname), SV.to_val(tree)))
                continue
            if deep:
                vers = list(range(ver + 1, 256)); ks = list(range(1, 17))
                combos = [(v, rng.choice(ks)) for v in vers] + [(rng.choice(vers), k) for k in ks]
            else:
                vers = sorted({ver + 1, min(255, ver + 2), 255, rng.randint(ver + 1, 255)})
                combos = [(v, k) for v in vers for k in sorted({1, 16, rng.randint(2, 15)})][:8]
            ty = "S %d" % code(sname)
            for v2, k in combos:
                extra = rng.randbytes(k); tail = rng.randbytes(rng.choice([0, 2, 5]))
                patched = rb[:pos] + bytes([v2]) + struct.pack("<I", ln + k) + body + extra + tail
                try:
                    sin = streams.StreamIn(patched, st)
                    d = sin.extract(real.cls(sname))
                    r = (d, patched[sin.tell():])
                except Exception as e:
                    r = "err " + exc_name(e)
                checks.append(("fc", "%s:%s:%r:v%d:k%d" % (name, sname, cfg, v2, k), len(lines),
                               {"struct": sname, "cfg": cfg, "ver": ver, "v2": v2, "k": k, "tail": tail, "r": r, "base": base,
                                "value": SV.to_val(tree), "hex": SV.hx(patched)}))
                lines.append("vis %s %s %s" % (cs, ty, SV.to_val(tree)))
                lines.append("dec %s %s %s" % (cs, ty, SV.hx(patched)))
                lines.append("wfrev %d" % code(sname))
                res["fc_cases"] += 1

    # ---------------- sequences of connections sharing ONE settings object per side
    def carries_struct(m):
        def has(t):
            n = t["name"]
            if n in ("list", "map"): return any(has(x) for x in t["template"])
            return n == "anydata" or n not in SV.BASIC
        return any(has(v["type"]) for v in m["request"] + m["response"])

    async def one_connection(cst, sst, minor, p, calls):
        """one RMC connection (client settings object cst, server settings object sst, negotiated minor version);
        returns everything observable: header flags, wire bytes, what the implementation saw, what the caller got"""
        a, b = Pipe(minor), Pipe(minor); a.peer = b; b.peer = a
        wire = []; a.log = wire; b.log = wire
        rc, rs = rmc.RMCClient(cst, a), rmc.RMCClient(sst, b)
        obs = {"hdr": (int(bool(rc.settings["nex.struct_header"])), int(bool(rs.settings["nex.struct_header"]))), "calls": []}
        srv = getattr(mod, make_class_name(p["name"], "Server"))()
        cli = getattr(mod, make_class_name(p["name"], "Client"))(rc)
        async with anyio.create_task_group() as tg:
            tg.start_soon(rc.start, []); tg.start_soon(rs.start, [srv])
            try:
                for m, args, rets in calls:
                    rec = {}
                    doing.clear(); doing.update(op="call on one connection of a sequence of connections", protocol=p["name"], method=m["name"], minor_version=minor,
                                                args=_short(SV.vals(args), 4000), returns=_short(SV.vals(rets), 4000))
                    rargs = [real.build_typed(v["type"], t) for v, t in zip(m["request"], args)]
                    rrets = [real.build_typed(v["type"], t) for v, t in zip(m["response"], rets)]
                    if len(rrets) > 1:
                        robj = rmc.RMCResponse()
                        for v, x in zip(m["response"], rrets): setattr(robj, v["name"], x)
                    elif len(rrets) == 1: robj = rrets[0]
                    else: robj = None
                    async def impl(client, *a_, _rec=rec, _robj=robj):
                        _rec["args"] = a_
                        return _robj
                    setattr(srv, m["name"], impl)
                    w0 = len(wire)
                    try:
                        with anyio.fail_after(10):
                            result = await getattr(cli, m["name"])(*rargs)
                        flow = "ok"
                    except common.RMCError as e:
                        flow, result = "rmcerror " + e.name(), None
                    except Exception as e:
                        flow, result = "err " + exc_name(e), None
                    if p["noresponse"] and flow == "ok":
                        for _ in range(200):
                            if "args" in rec: break
                            await anyio.sleep(0)
                    delattr(srv, m["name"])
                    sa = rec.get("args")
                    seen = None if sa is None else [real.canon(v["type"], x) for v, x in zip(m["request"], sa)]
                    if flow != "ok" or p["noresponse"]: got = None
                    elif len(m["response"]) > 1: got = [real.canon(v["type"], getattr(result, v["name"], None)) for v in m["response"]]
                    elif len(m["response"]) == 1: got = [real.canon(m["response"][0]["type"], result)]
                    else: got = []
                    obs["calls"].append({"method": m["name"], "flow": flow, "wire": [x.hex() for x in wire[w0:]], "server_saw": seen, "caller_got": got})
            finally:
                await rc.close()
        return obs

    async def sequences(cfg):
        def fresh():
            s = nexsettings.default()
            s["nex.version"] = cfg[0]; s["nex.struct_header"] = 0; s["nex.pid_size"] = cfg[2]
            return s
        for p in env.protos:
            ms = [m for m in p["methods"] if m["supported"]]
            if not ms: continue
            pick = [m for m in ms if carries_struct(m)] or ms
            rng.shuffle(pick)
            pick = pick[:3]
            minors = [4, 2, 4, 0, 3]
            extra = [rng.choice([0, 1, 2, 3, 4, 5]) for _ in range(2)]
            minors = minors + extra if rng.random() < 0.5 else extra + minors
            for scenario in ("server-shared", "client-shared", "both-shared"):
                shared_c, shared_s = fresh(), fresh()
                snap_c, snap_s = dict(shared_c.settings), dict(shared_s.settings)
                for step, minor in enumerate(minors):
                    calls = []
                    for m in pick:
                        args = [gen.gen(v["type"], cfg, 0, False) for v in m["request"]]
                        rets = [gen.gen(v["type"], cfg, 0, len(m["response"]) == 1 and v["type"]["name"] != "anydata") for v in m["response"]]
                        calls.append((m, args, rets))
                    cst = shared_c if scenario in ("client-shared", "both-shared") else fresh()
                    sst = shared_s if scenario in ("server-shared", "both-shared") else fresh()
                    got = await one_connection(cst, sst, minor, p, calls)
                    twin = await one_connection(fresh(), fresh(), minor, p, calls)
                    key = "%s:%s:seq:%s:%r:step%d:minor%d" % (name, p["name"], scenario, cfg, step, minor)
                    changed = {k: (snap_c[k], v) for k, v in shared_c.settings.items() if snap_c.get(k) != v}
                    changed.update({"server." + k: (snap_s[k], v) for k, v in shared_s.settings.items() if snap_s.get(k) != v})
                    checks.append(("seq", key, len(lines), {"got": got, "twin": twin, "minor": minor, "minors": minors, "step": step, "scenario": scenario,
                                                            "proto": p["name"], "cfg": cfg, "changed": changed,
                                                            "calls": [(m["name"], SV.vals(a)[:1500], SV.vals(r)[:1500]) for m, a, r in calls]}))
                    lines.append("rmccfg 0 %d" % minor)

    # ---------------- several calls in flight at the same time on ONE connection
    class YPipe(Pipe):
        """in-memory transport whose send() yields to the event loop before the datagram is on its way (what the PRUDP
        send lock / socket write do); either serialised by a lock, or free-running (datagrams of concurrent senders may
        overtake each other). Every send / receive is logged with the task that made it."""
        def __init__(self, minor, side, sh):
            Pipe.__init__(self, minor); self.side = side; self.sh = sh
            self.lock = anyio.Lock() if sh["lock"] else None
        async def _deliver(self, data):
            for _ in range(self.sh["yrng"].choice(self.sh["yields"][self.side])): await anyio.sleep(0)
            await self.peer.q.put(data)
            # ... and may return to the sender only some time after the datagram has left (lock release, checkpoints)
            for _ in range(self.sh["yrng"].choice(self.sh["yields"]["after"])): await anyio.sleep(0)
        async def send(self, data):
            data = bytes(data)
            self.sh["ev"].append(("send", self.side, asyncio.current_task(), data)); self.sh["progress"] += 1
            if self.lock is not None:
                async with self.lock: await self._deliver(data)
            else:
                await self._deliver(data)
        async def recv(self):
            d = await self.q.get()
            if d is None: raise anyio.EndOfStream
            self.sh["ev"].append(("recv", self.side, None, d)); self.sh["progress"] += 1
            return d

    def call_id_of(data):
        off = 7 if (data[4] & 0x7F) == 0x7F else 5
        return struct.unpack_from("<I", data, off)[0]

    def plan_burst(cfg, p, gi):
        ms = [m for m in p["methods"] if m["supported"]]
        rich = [m for m in ms if m["request"] and (m["response"] or p["noresponse"])] or ms
        m0 = rng.choice(rich)
        burst = [m0] * rng.choice([2, 3, 4]) + [rng.choice(ms) for _ in range(rng.choice([0, 1, 2, 3, 4]))]
        rng.shuffle(burst)
        calls = burst + [rng.choice(ms)]            # the last one is made alone, after the burst
        gen.nonascii = gi % 3 == 2
        gen.edge = gi % 3 == 1
        try:
            args = [[gen.gen(v["type"], cfg, 0, False) for v in m["request"]] for m in calls]
            rets = {}
            for m in calls:
                rets.setdefault(m["name"], []).append(
                    [gen.gen(v["type"], cfg, 0, len(m["response"]) == 1 and v["type"]["name"] != "anydata") for v in m["response"]])
        finally:
            gen.nonascii = False; gen.edge = False
        return calls, args, rets

    async def burst(cfg, p, gi):
        """K calls started together on one RMCClient (the same method several times with different values, and other
        methods), then one call alone. The implementation returns, for the j-th arrival of a method, the j-th prepared
        value set; afterwards every caller must be matched with an arrival that carries its arguments and whose
        returned values are the ones it got back."""
        calls, args, rets = plan_burst(cfg, p, gi)
        n = len(calls)
        minor = rng.choice([3, 4, 5]) if cfg[1] else rng.choice([0, 1, 2])
        # the caller's send always yields at least once in two of three bursts; the answering side may also send without
        # yielding, so that several responses can be waiting before the first caller is resumed
        sh = {"ev": [], "progress": 0, "yrng": random.Random(rng.random()), "lock": gi % 2 == 0,
              "yields": {"c": (0, 1, 2, 3) if gi % 3 == 1 else (1, 1, 2, 3), "s": (0, 0, 1, 2, 3), "after": (0, 0, 1, 2, 4)}}
        key = "%s:%s:burst:%r:%d" % (name, p["name"], cfg, gi)
        doing.clear(); doing.update(op="burst of concurrent calls", protocol=p["name"], cfg=list(cfg), minor_version=minor,
                     calls=[(m["name"], _short(SV.vals(a), 1000)) for m, a in zip(calls, args)])
        a, b = YPipe(minor, "c", sh), YPipe(minor, "s", sh); a.peer = b; b.peer = a
        st = mk_settings(cfg)
        rc, rs = rmc.RMCClient(st, a), rmc.RMCClient(st, b)
        # a connection that has already made many calls: the 32-bit call id counter near a byte / word boundary or about to wrap
        start_id = rng.choice([0xFF, 0xFFFF, 0xFFFFFFFE, 0xFFFFFFFF, 0xFFFFFFFF - rng.randrange(8), rng.randrange(1 << 32)]) if gi % 3 == 2 else None
        if start_id is not None and isinstance(getattr(rc, "call_id", None), int): rc.call_id = start_id
        else: start_id = None
        srv = getattr(mod, make_class_name(p["name"], "Server"))()
        cli = getattr(mod, make_class_name(p["name"], "Client"))(rc)
        arrivals = {m["name"]: [] for m in calls}
        robjs = {}
        for m in calls:
            if m["name"] in robjs: continue
            robjs[m["name"]] = []
            for rt in rets[m["name"]]:
                rr = [real.build_typed(v["type"], t) for v, t in zip(m["response"], rt)]
                if len(rr) > 1:
                    robj = rmc.RMCResponse()
                    for v, x in zip(m["response"], rr): setattr(robj, v["name"], x)
                elif len(rr) == 1: robj = rr[0]
                else: robj = None
                robjs[m["name"]].append(robj)
            async def impl(client, *a_, _n=m["name"]):
                j = len(arrivals[_n]); arrivals[_n].append(a_); sh["progress"] += 1
                for _ in range(sh["yrng"].choice((0, 1, 2))): await anyio.sleep(0)
                if j >= len(robjs[_n]): raise RuntimeError("implementation called more often than the method was called")
                return robjs[_n][j]
            setattr(srv, m["name"], impl)
        rargs = [[real.build_typed(v["type"], t) for v, t in zip(m["request"], a_)] for m, a_ in zip(calls, args)]
        outcome = [None] * n
        owner = {}              # asyncio task -> caller index
        done = [0]
        orig_request = rc.request
        async def request(protocol, method, body, noresponse=False):
            t = asyncio.current_task()
            try:
                r = await orig_request(protocol, method, body, noresponse)
            except common.RMCError as e:
                sh["ev"].append(("done", "c", t, ("rmc", e.result().code()))); raise
            except BaseException as e:
                sh["ev"].append(("done", "c", t, ("exc", type(e).__name__))); raise
            sh["ev"].append(("done", "c", t, ("none",) if r is None else ("body", bytes(r))))
            return r
        rc.request = request
        async def caller(i, stagger):
            owner[asyncio.current_task()] = i
            try:
                for _ in range(stagger): await anyio.sleep(0)
                try:
                    result = await getattr(cli, calls[i]["name"])(*rargs[i])
                    outcome[i] = ("ok", result)
                except common.RMCError as e:
                    outcome[i] = ("rmcerror " + e.name(), None)
                except Exception as e:
                    outcome[i] = ("err " + exc_name(e), None)
            finally:
                done[0] += 1; sh["progress"] += 1
        async def settle(cond, scope=None):
            """let the event loop run until cond() holds; everything is in memory, so when nothing at all has happened
            for 2000 consecutive passes of the loop the remaining tasks wait for something that will never come"""
            idle, last = 0, sh["progress"]
            while not cond():
                await anyio.sleep(0)
                if sh["progress"] != last: idle, last = 0, sh["progress"]
                else:
                    idle += 1
                    if idle > 2000:
                        if scope is not None: scope.cancel()
                        return False
            return True
        async def phase(idxs):
            target = done[0] + len(idxs)
            async with anyio.create_task_group() as cg:
                for i in idxs: cg.start_soon(caller, i, rng.choice([0, 0, 1, 2]))
                await settle(lambda: done[0] >= target, cg.cancel_scope)
        async with anyio.create_task_group() as tg:
            tg.start_soon(rc.start, []); tg.start_soon(rs.start, [srv])
            try:
                with anyio.fail_after(60):
                    await phase(list(range(n - 1)))
                    if p["noresponse"]: await settle(lambda: sum(len(x) for x in arrivals.values()) >= n - 1)
                    await phase([n - 1])
                    if p["noresponse"]: await settle(lambda: sum(len(x) for x in arrivals.values()) >= n)
            finally:
                await rc.close()
        # ---- what was observed -> payload + driver lines
        cs = "%d %d %d %d" % (cfg[0], cfg[1], cfg[2], FUEL)
        i0 = len(lines)
        pl = {"cfg": cfg, "proto": p["name"], "noresponse": p["noresponse"], "minor": minor, "lock": sh["lock"], "yields": sh["yields"], "start_id": start_id, "calls": calls, "args": args, "rets": rets,
              "arrivals": arrivals, "outcome": outcome, "ret_line": {}, "mux": [], "burst": n - 1,
              "wire": [(e[1], e[3].hex()) for e in sh["ev"] if e[0] == "send"]}
        checks.append(("conc", key, i0, pl))
        for m, a_ in zip(calls, args):
            lines.append("visreq %s %d %d %s" % (cs, code(p["name"]), code(m["name"]), SV.vals(a_)))
        for mn, rl in rets.items():
            m = next(x for x in calls if x["name"] == mn)
            for j, rt in enumerate(rl):
                pl["ret_line"][(mn, j)] = len(lines)
                lines.append("visresp %s %d %d %s" % (cs, code(p["name"]), code(mn), SV.vals(rt)))
                lines.append("sresp %s %d %d %s" % (cs, code(p["name"]), code(mn), SV.vals(rt)))
        # the client's call-matching machine, fed with what happened on the client side in the order it happened
        first = next((call_id_of(x) for kind, side, t, x in sh["ev"] if side == "c" and kind == "send"), 1)
        pl["mux"].append((len(lines), "new", None, (start_id, first)))
        lines.append("mux new %d" % first)
        model_task = {}          # asyncio task -> task number of the model (= order of the request() sections)
        for kind, side, t, x in sh["ev"]:
            if side != "c": continue
            if kind == "send":
                model_task[t] = len(model_task)
                pl["mux"].append((len(lines), "call", owner.get(t), call_id_of(x)))
                lines.append("mux call %d" % (1 if p["noresponse"] else 0))
            elif kind == "recv":
                pl["mux"].append((len(lines), "recv", None, x.hex()))
                lines.append("mux recv %s" % x.hex())
            elif kind == "done" and t in model_task and not p["noresponse"] and x[0] in ("body", "rmc"):
                pl["mux"].append((len(lines), "wake", owner.get(t), (model_task[t], x[0], x[1].hex() if x[0] == "body" else x[1])))
                lines.append("mux wake %d" % model_task[t])
        pl["model_task_of_caller"] = {owner.get(t): k for t, k in model_task.items()}

    async def bursts(cfg):
        for p in env.protos:
            if not any(m["supported"] for m in p["methods"]): continue
            for gi in range(6 if deep else 3):
                await guarded("burst", burst(cfg, p, gi))

    async def guarded(unit, coro):
        """a unit of work; an exception of the library that escapes it is a reported failure with the input (`doing`)"""
        try:
            await coro
        except Exception as e:
            tb = traceback.format_exc()
            leaf = e
            while getattr(leaf, "exceptions", None): leaf = leaf.exceptions[0]      # what a task group wrapped
            crashes.append({"unit": unit, "exc": "%s: %s" % (type(leaf).__name__, _short(leaf, 300)), "traceback": tb[-3000:],
                            "doing": dict(doing), "in_library": _in_library(tb, repo)})

    async def main():
        async def fc(cfg): forward_compat(cfg)
        for ci, cfg in enumerate(cfgs):
            for p in env.protos:       # one RMC connection per protocol (two protocols of a module may share an id)
                await guarded("connection", proto_session(ci, cfg, p))
            if cfg[1]:
                await guarded("forward-compat", fc(cfg))
        # one sequence scenario set per task slice, under the slice's first nex.version / pid size
        await guarded("connection-sequence", sequences(cfgs[0]))
        await bursts(cfgs[0])
        if len(cfgs) > 1 and cfgs[-1][0] != cfgs[0][0]:
            await guarded("connection-sequence", sequences(cfgs[-1]))
        if len(cfgs) > 1 and cfgs[-1] != cfgs[0]:
            await bursts(cfgs[-1])
    anyio.run(main)
    infra = [c for c in crashes if not c["in_library"]]
    if infra:
        raise RuntimeError("harness failure in unit %s while %r:\n%s" % (infra[0]["unit"], infra[0]["doing"], infra[0]["traceback"]))

    outs = driver_batch(exe, lines)
    res["lines"] = len(lines)
    for i in range(nsetup):
        if outs[i] != "ok": raise RuntimeError("driver rejected schema line %d: %r -> %r" % (i, lines[i][:200], outs[i]))

    per_kind = {}
    def diff(key, what, detail):
        kind = str(detail.get("vkey", "soft" if detail.get("soft") else key)).split(":")[0]      # at most 40 reported per kind of failure and worker
        per_kind[kind] = per_kind.get(kind, 0) + 1
        if per_kind[kind] <= 40:
            d = {"key": key, "what": what}; d.update(detail); res["diffs"].append(d)
        res["ndiffs"] = res.get("ndiffs", 0) + 1

    def first_difference(expected, got):
        e, g = expected.split(), got.split()
        i = next((i for i, (x, y) in enumerate(zip(e, g)) if x != y), min(len(e), len(g)))
        def show(tok):
            if tok[:1] == "s" and len(tok) > 1:
                try: return "%s (= %r)" % (_short(tok, 80), bytes.fromhex(tok[1:]).decode("utf8", "replace")[:40])
                except ValueError: pass
            return _short(tok, 80)
        return "value #%d passed %s, arrived %s" % (i, show(e[i]) if i < len(e) else "<end>", show(g[i]) if i < len(g) else "<end>")

    def count_na(ts):
        n = 0
        for t in ts:
            if t[0] in ("str", "url"): n += V14.is_non_ascii(t[1])
            elif t[0] == "list": n += count_na(t[1])
            elif t[0] == "map": n += count_na([x for kv in t[1] for x in kv])
            elif t[0] == "obj": n += count_na(t[2])
        return n

    def count_edge(ts, out=None):
        out = {} if out is None else out
        for t in ts:
            if t[0] in ("str", "url"):
                if V14.is_edge(t[1]):
                    c = ("url:" if t[0] == "url" else "") + V14.edge_class(t[1]); out[c] = out.get(c, 0) + 1
            elif t[0] == "list": count_edge(t[1], out)
            elif t[0] == "map":
                count_edge([x for kv in t[1] for x in kv], out)
                ks = [k[1] for k, _ in t[1] if k[0] == "str"]
                if len(ks) > 1 and len({k.rstrip("\0 \n\uffff") for k in ks}) < len(ks): out["map-keys-differing-in-tail"] = out.get("map-keys-differing-in-tail", 0) + 1
            elif t[0] == "obj": count_edge(t[2], out)
        return out

    def conc_check(key, i0, pl):
        calls, n, nb = pl["calls"], len(pl["calls"]), pl["burst"]
        pname = pl["proto"]
        E = outs[i0:i0 + n]                                   # visible arguments per caller
        def shown(i): return "%s(%s)" % (calls[i]["name"], _short(SV.vals(pl["args"][i]), 160))
        base = {"module": name, "protocol": pname, "cfg": list(pl["cfg"]), "minor_version": pl["minor"],
                "transport": "send yields to the event loop (caller side %r times, answering side %r times before the datagram is queued, %r times after; drawn per datagram), %s" % (
                    pl["yields"]["c"], pl["yields"]["s"], pl["yields"]["after"], "one sender at a time (lock)" if pl["lock"] else "concurrent senders may overtake each other"),
                "calls_started_together": [[calls[i]["name"], _short(SV.vals(pl["args"][i]), 1500)] for i in range(nb)],
                "then_alone": [calls[nb]["name"], _short(SV.vals(pl["args"][nb]), 1500)],
                "call_id_counter_at_start": pl["start_id"] if pl["start_id"] is not None else "fresh connection",
                "implementation_returns_by_arrival": {mn: [_short(SV.vals(r), 1500) for r in rl] for mn, rl in pl["rets"].items()},
                "observed": [{"caller": i, "method": calls[i]["name"], "flow": (pl["outcome"][i] or ("never returned",))[0]} for i in range(n)],
                "requests_and_responses_sent": [list(w) for w in pl["wire"]][:40],
                "vkey": "concurrent-calls:%s" % name,
                "how": "one RMCClient pair over an in-memory transport whose send yields; start the listed calls as tasks of one task group on the same generated client, then the last call alone"}
        tag("burst:%d-in-flight:%s" % (nb, "lock" if pl["lock"] else "free"))
        res["cases"] += n
        bad = []
        # ---- the model of the client's call matching, fed with the observed client-side events
        ids = []
        for li, kind, who, x in pl["mux"]:
            o = outs[li]
            if "SPECDIFF" in o or "H-IDS-BROKEN" in o or o.startswith("crash") or o == "bad-op":
                bad.append("model: %s -> %s" % (lines[li][:60], o[:80]))
            elif kind == "new":
                if x[0] is not None and x[1] != x[0]: bad.append("the call id counter was at %d, the first request went out with call id %d" % x)
                if x[0] is not None: tag("burst:call-id-counter-preset")
            elif kind == "call":
                w = o.split(";")[0].split()
                if len(w) != 3 or w[0] != "sent" or int(w[2]) != x:
                    bad.append("request of caller %s went out with call id %d, the model says %s" % (who, x, o))
                ids.append(x)
            elif kind == "wake":
                t, k, v = x
                want = "done %d %s" % (t, "body " + (v or "-") if k == "body" else "rmc %d" % v)
                if o != want: bad.append("caller %s: request() gave %s, the model says %s" % (who, _short(want, 100), _short(o, 100)))
        if len(set(ids)) != len(ids):
            bad.append("call ids on the wire are not distinct: %r" % ids)
        # ---- the property: every caller is matched with an arrival carrying its arguments whose returned values it got back
        problems = []
        by_method = {}
        for i, m in enumerate(calls): by_method.setdefault(m["name"], []).append(i)
        for mn, idxs in by_method.items():
            m = calls[idxs[0]]
            arr = pl["arrivals"][mn]
            def args_ok(i, j):
                if not E[i].startswith("ok ") or len(arr[j]) != len(m["request"]): return False
                mask = SV.parse_val(E[i][3:])
                return "ok [" + "".join(" " + real.canon(v["type"], a_, mk) for v, a_, mk in zip(m["request"], arr[j], mask)) + " ]" == E[i]
            def result_ok(i, j):
                if j >= len(pl["rets"][mn]): return False
                li = pl["ret_line"][(mn, j)]
                mvresp, msresp = outs[li], outs[li + 1]
                oc = pl["outcome"][i]
                if oc is None: return False
                if pl["noresponse"]: return oc[0] == "ok" and oc[1] is None
                if msresp == "err Other" and oc[0] == "rmcerror PythonCore::Exception": return True     # known: isinstance(response, common.Data)
                if oc[0] != "ok" or not mvresp.startswith("ok "): return False
                result = oc[1]
                if len(m["response"]) > 1: vals = [getattr(result, v["name"], None) for v in m["response"]]
                elif len(m["response"]) == 1: vals = [result]
                else: return result is None
                mask = SV.parse_val(mvresp[3:])
                return "ok [" + "".join(" " + real.canon(v["type"], a_, mk) for v, a_, mk in zip(m["response"], vals, mask)) + " ]" == mvresp
            ok = {(i, j) for i in idxs for j in range(len(arr)) if args_ok(i, j) and result_ok(i, j)}
            match = {}                                         # arrival -> caller
            def augment(i, seen):
                for j in range(len(arr)):
                    if (i, j) in ok and j not in seen:
                        seen.add(j)
                        if j not in match or augment(match[j], seen):
                            match[j] = i
                            return True
                return False
            unmatched = [i for i in idxs if not augment(i, set())]
            if len(arr) != len(idxs):
                problems.append("the implementation of %s was called %d times for %d calls" % (mn, len(arr), len(idxs)))
            for i in unmatched:
                oc = pl["outcome"][i]
                mine = [j for j in range(len(arr)) if args_ok(i, j)]
                theirs = [j for j in range(len(arr)) if j not in mine and result_ok(i, j)]
                if oc is None:
                    problems.append("caller %d %s never returned (its arguments reached the implementation: %s)" % (i, shown(i), bool(mine)))
                elif not mine:
                    problems.append("caller %d %s: no call of the implementation carried its arguments (flow %s)" % (i, shown(i), oc[0]))
                elif oc[0] != "ok":
                    problems.append("caller %d %s failed with %s although the implementation returned normally" % (i, shown(i), oc[0]))
                elif theirs:
                    k = next((k for k in idxs if k != i and any(args_ok(k, j) for j in theirs)), None)
                    problems.append("caller %d %s was handed the values the implementation returned for %s" % (
                        i, shown(i), "caller %d %s" % (k, shown(k)) if k is not None else "another call"))
                else:
                    problems.append("caller %d %s got values that differ from those the implementation returned for its arguments" % (i, shown(i)))
        if problems:
            tag("burst:FAILS")
            diff(key, "%d calls in flight at the same time on one connection (%s, then one call alone): %s" % (
                nb, pname, "; ".join(problems[:4]) + (" ... (%d problems)" % len(problems) if len(problems) > 4 else "")),
                 dict(base, problems=problems, model_disagreements=bad))
        elif bad:
            diff(key, "burst of %d concurrent calls on %s: the client's call matching differs from the model: %s" % (nb, pname, "; ".join(bad[:3])), dict(base, soft=True, model_disagreements=bad))
        else:
            tag("burst:calls-matched", n)
            res["keys"].append(key)
            for i in range(n): res["keys"].append("%s:caller%d:%s" % (key, i, calls[i]["name"]))

    for c in crashes:
        d = c["doing"]
        diff("%s:crash:%s" % (name, c["unit"]),
             "the library raised %s outside any call of the harness that expects errors, while processing: %s" % (c["exc"], _short({k: v for k, v in d.items() if k not in ("args", "returns", "value", "calls")}, 300)),
             {"module": name, "unit": c["unit"], "input": d, "traceback": c["traceback"], "vkey": "library-exception:%s:%s" % (name, c["unit"])})

    for kind, key, i0, pl in checks:
        res["cases"] += 1
        if kind == "hdrauto":
            want = int(outs[i0].split()[1])
            tag("hdr-auto:minor%d:%d" % (pl["minor"], want))
            if pl["real"] != (want, want):
                diff(key, "RMCClient with minor version %d has struct_header=%r, model says %d" % (pl["minor"], pl["real"], want), {"module": name, "vkey": "hdr-auto:minor%d" % pl["minor"]})
            else: res["keys"].append(key)
        elif kind == "notimpl":
            tag("notimpl:" + key.rsplit(":", 1)[-1] + ":" + pl["r"])
            if outs[i0] != "ok NotImplemented":
                diff(key, "model dispatch says %s" % outs[i0], {"module": name, "soft": True})
            elif pl["r"] != "Core::NotImplemented" or pl["client_has"]:
                diff(key, "expected Core::NotImplemented, real code gave %s (client stub present: %s)" % (pl["r"], pl["client_has"]), {"module": name, "vkey": "not-implemented:" + key})
            else: res["keys"].append(key)
        elif kind == "rpc":
            m = pl["method"]
            mvreq, mvresp, mreq, msresp = outs[i0:i0 + 4]
            base = {"module": name, "protocol": pl["proto"], "method": m["name"], "method_id": m["id"], "cfg": list(pl["cfg"]),
                    "args": SV.vals(pl["args"])[:4000], "returns": SV.vals(pl["rets"])[:4000]}
            tag("rpc:" + ("hdr" if pl["cfg"][1] else "nohdr") + ":" + pl["flow"].split(" ")[0])
            if pl["nonascii"]:
                tag("rpc-nonascii-rep:" + pl["flow"].split(" ")[0])
                tag("rpc-nonascii-rep:string-positions", count_na(pl["args"]) + count_na(pl["rets"]))
            if pl.get("edge"):
                tag("rpc-edge-rep:" + pl["flow"].split(" ")[0])
                for cl, c in count_edge(pl["args"] + pl["rets"]).items(): tag("rpc-edge-rep:strings:" + cl, c)
            if pl["flow"] != "ok":
                if msresp == "err Other" and mreq.startswith("ok") and pl["flow"] == "rmcerror PythonCore::Exception":
                    # the generated server's isinstance test rejects what the implementation returned
                    cls = type(real.build_typed(m["response"][0]["type"], pl["rets"][0])).__name__
                    diff(key, "%s.%s: the implementation returned a %s, the generated server rejects it (isinstance(response, common.Data) fails: its base class Gathering is not a Data) and the caller gets PythonCore::Exception" % (pl["proto"], m["name"], cls),
                         dict(base, vkey="result-type:anydata:" + cls))
                else:
                    diff(key, "%s.%s(%s) returning %s failed on the real code (%s)%s; interpreter: request %s, response %s" % (
                        pl["proto"], m["name"], _short(base["args"], 200), _short(base["returns"], 200), pl["flow"], " (non-ASCII text in every string position)" if pl["nonascii"] else (" (a string from the edges of the domain in every string position)" if pl.get("edge") else ""), mreq[:40], msresp[:40]), dict(base, vkey="rpc:%s:%s.%s" % (name, pl["proto"], m["name"])))
                continue
            sargs = pl["sargs"]
            if sargs is None or len(sargs) != len(m["request"]):
                diff(key, "server implementation was not called", dict(base, vkey="rpc:%s:%s.%s" % (name, pl["proto"], m["name"])))
                continue
            mask = SV.parse_val(mvreq[3:])
            got = "ok [" + "".join(" " + real.canon(v["type"], a, mk) for v, a, mk in zip(m["request"], sargs, mask)) + " ]"
            if got != mvreq:
                diff(key, "%s.%s: arguments seen by the server implementation differ from those passed%s: %s" % (pl["proto"], m["name"], " (non-ASCII text in every string position)" if pl["nonascii"] else (" (a string from the edges of the domain in every string position)" if pl.get("edge") else ""), first_difference(mvreq, got)), dict(base, real=got[:4000], expected=mvreq[:4000], vkey="rpc:%s:%s.%s" % (name, pl["proto"], m["name"])))
                continue
            if not pl["noresponse"]:
                result = pl["result"]
                if len(m["response"]) > 1: vals = [getattr(result, v["name"], None) for v in m["response"]]
                elif len(m["response"]) == 1: vals = [result]
                else: vals = []
                mask = SV.parse_val(mvresp[3:])
                got = "ok [" + "".join(" " + real.canon(v["type"], a, mk) for v, a, mk in zip(m["response"], vals, mask)) + " ]"
                if got != mvresp or (not m["response"] and result is not None):
                    diff(key, "%s.%s: values returned to the caller differ from those the implementation returned%s: %s" % (pl["proto"], m["name"], " (non-ASCII text in every string position)" if pl["nonascii"] else (" (a string from the edges of the domain in every string position)" if pl.get("edge") else ""), first_difference(mvresp, got)), dict(base, real=got[:4000], expected=mvresp[:4000], vkey="rpc:%s:%s.%s" % (name, pl["proto"], m["name"])))
                    continue
            if len(res["samples"]) < 2 and 0 < len(mvreq) < 200:
                res["samples"].append({"module": name, "method": pl["proto"] + "." + m["name"], "cfg": list(pl["cfg"]), "args": base["args"][:200], "returns": base["returns"][:200]})
            res["keys"].append(key)
        elif kind == "seq":
            want_hdr = int(outs[i0].split()[1])
            got, twin = pl["got"], pl["twin"]
            base = {"module": name, "protocol": pl["proto"], "scenario": pl["scenario"], "cfg_nex_pid": [pl["cfg"][0], pl["cfg"][2]],
                    "minor_versions_of_the_connections": pl["minors"], "failing_step": pl["step"], "minor_version": pl["minor"],
                    "calls": pl["calls"], "vkey": "connection-sequence:%s" % name,
                    "how": "make connections one after the other with the given negotiated minor versions; the side(s) named by `scenario` pass the SAME Settings object to every RMCClient; compare with a fresh pair with fresh Settings"}
            tag("seq:%s:minor%d:%s" % (pl["scenario"], pl["minor"], "same" if got == twin and not pl["changed"] else "DIFFERS"))
            if got["hdr"] != (want_hdr, want_hdr):
                bad = [(x["method"], x["flow"], y["flow"]) for x, y in zip(got["calls"], twin["calls"]) if x != y]
                diff(key, "connection %d of the sequence %r (%s, minor version %d) runs with struct_header=%r (client, server); struct_header_auto says %d; calls that no longer behave like on a fresh pair (method, flow here, flow fresh): %r" % (
                    pl["step"], pl["minors"], pl["scenario"], pl["minor"], got["hdr"], want_hdr, bad[:3]),
                     dict(base, observed=got["hdr"], shared=[{k: str(x[k])[:800] for k in x} for x in got["calls"]], fresh=[{k: str(y[k])[:800] for k in y} for y in twin["calls"]]))
            elif got != twin:
                d = next((i for i, (x, y) in enumerate(zip(got["calls"], twin["calls"])) if x != y), 0)
                x, y = got["calls"][d], twin["calls"][d]
                what = [k for k in ("flow", "server_saw", "caller_got", "wire") if x[k] != y[k]]
                diff(key, "connection %d of the sequence %r (%s, minor version %d) does not behave like a fresh pair with fresh settings: call %s differs in %s (flow %s vs %s)" % (
                    pl["step"], pl["minors"], pl["scenario"], pl["minor"], x["method"], what, x["flow"], y["flow"]),
                     dict(base, shared={k: str(x[k])[:1500] for k in x}, fresh={k: str(y[k])[:1500] for k in y}))
            elif pl["changed"]:
                diff(key, "the caller's Settings object was modified by the library after connection %d of %r: %r" % (pl["step"], pl["minors"], pl["changed"]), dict(base, changed=repr(pl["changed"])))
            else:
                res["keys"].append(key)
        elif kind == "selfrt":
            tag("forward-compat:own-encoding-unreadable")
            diff(key, "%s written by the library's own encoder (nex.version %d, structure headers on) cannot be %s: %s; value %s" % (
                pl["struct"], pl["cfg"][0], "read back by its decoder" if pl["stage"] == "decode" else "encoded", pl["exc"], _short(pl["value"], 300)),
                 {"module": name, "struct": pl["struct"], "cfg": [pl["cfg"][0], 1, pl["cfg"][2]], "value": pl["value"][:4000], "encoded_hex": (pl["hex"] or "")[:6000],
                  "vkey": "struct-roundtrip:%s:%s" % (name, pl["struct"])})
        elif kind == "conc":
            conc_check(key, i0, pl)
        elif kind == "fc":
            mvis, mdec, mwf = outs[i0:i0 + 3]
            sname = pl["struct"]
            base = {"module": name, "struct": sname, "cfg": [pl["cfg"][0], 1, pl["cfg"][2]], "written_revision": pl["ver"], "announced_revision": pl["v2"],
                    "extra_bytes": pl["k"], "value": pl["value"][:3000], "patched_hex": pl["hex"][:6000]}
            want = "%s | %s" % (mvis, SV.hx(pl["tail"]))
            if isinstance(pl["r"], str):
                real_s = pl["r"]
            else:
                mask = SV.parse_val(mvis[3:])
                real_s = "ok %s | %s" % (real.canon({"name": sname, "template": None}, pl["r"][0], mask), SV.hx(pl["r"][1]))
            tag("forward-compat:%s:%s" % ("ascending" if mwf == "ok 1" else "NOT-ascending", "same" if real_s == want else "broken"))
            if real_s != mdec:
                diff(key, "spliced structure: real decode %s, interpreter %s" % (real_s[:80], mdec[:80]), dict(base, soft=True))
            if real_s != want:
                diff(key, "forward compatibility fails for %s at nex.version %d: written with revision %d; announced as revision %d with %d trailing bytes the real decoder gives %s instead of the same fields and the untouched rest" % (
                    sname, pl["cfg"][0], pl["ver"], pl["v2"], pl["k"], real_s[:60]), dict(base, vkey="forward-compat:%s:%s" % (name, sname), ascending=mwf))
            else:
                res["keys"].append(key)
