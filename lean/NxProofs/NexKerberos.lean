import NxModel.Nex.Kerberos
import NxProofs.NexStreams
/-! proofs about the Kerberos envelope, tickets and key derivation -/
namespace Nx.Nex.Kerberos
open Nx Nx.Nex Nx.Crypto

/-- RC4 is xor with a key stream that does not depend on the data: applying it twice from the same state is the identity -/
theorem rc4Apply_involution (st : Rc4) (x : Bytes) : (rc4Apply st (rc4Apply st x).1).1 = x := by
  induction x generalizing st with
  | nil => rfl
  | cons a r ih =>
    simp only [rc4Apply]
    rw [ih]
    congr 1
    rw [UInt8.xor_assoc, UInt8.xor_self, UInt8.xor_zero]

theorem rc4_involution (key x : Bytes) : rc4 key (rc4 key x) = x := rc4Apply_involution _ x

/-! ## digests have 16 bytes -/

theorem le32_length (w : UInt32) : (le32 w).length = 4 := rfl

theorem md5_length (m : Bytes) : (md5 m).length = 16 := by
  unfold md5
  simp [le32_length]

theorem hmacMd5_length (k m : Bytes) : (hmacMd5 k m).length = 16 := by
  unfold hmacMd5
  exact md5_length _

/-! ## envelope -/

theorem body_append_tag (e t : Bytes) (ht : t.length = 16) : body (e ++ t) = e ∧ tag (e ++ t) = t := by
  unfold body tag
  have : (e ++ t).length - 16 = e.length := by simp [ht]
  rw [this]
  simp

theorem check_encrypt (key e : Bytes) : check key (e ++ hmacMd5 key e) = true := by
  obtain ⟨hb, ht⟩ := body_append_tag e (hmacMd5 key e) (hmacMd5_length key e)
  unfold check
  rw [hb, ht]
  simp

/-- `decrypt k (encrypt k x) = x` for every key the cipher accepts and every data -/
theorem decrypt_encrypt (key data b : Bytes) (h : Kerberos.encrypt key data = .ok b) :
    Kerberos.decrypt key b = .ok data := by
  unfold Kerberos.encrypt at h
  split at h
  · rename_i hk
    simp only [Except.ok.injEq] at h
    subst h
    unfold Kerberos.decrypt
    simp only [check_encrypt, Bool.not_true, Bool.false_eq_true, if_false, hk, if_true]
    rw [(body_append_tag _ _ (hmacMd5_length key _)).1, rc4_involution]
  · cases h

theorem encrypt_ok_iff (key data : Bytes) : (∃ b, Kerberos.encrypt key data = .ok b) ↔ (1 ≤ key.length ∧ key.length ≤ 256) := by
  unfold Kerberos.encrypt rc4KeyOk
  by_cases h : (1 ≤ key.length ∧ key.length ≤ 256)
  · simp [h]
  · have : (decide (1 ≤ key.length) && decide (key.length ≤ 256)) = false := by
      simp only [Bool.and_eq_false_iff, decide_eq_false_iff_not]; omega
    simp [this, h]

/-- check-before-decrypt: whatever is accepted carries the HMAC of its body under the key, has at
least 16 bytes, and the plaintext is the RC4 image of the body -/
theorem decrypt_ok_implies_mac (key b x : Bytes) (h : Kerberos.decrypt key b = .ok x) :
    tag b = hmacMd5 key (body b) ∧ 16 ≤ b.length ∧ x = rc4 key (body b) := by
  unfold Kerberos.decrypt at h
  split at h
  · cases h
  · rename_i hc
    simp only [Bool.not_eq_true, Bool.not_eq_false'] at hc
    have hc' : check key b = true := by simpa using hc
    unfold check at hc'
    have htag : tag b = hmacMd5 key (body b) := by simpa using hc'
    have hlen : (tag b).length = 16 := by rw [htag]; exact hmacMd5_length _ _
    have h16 : 16 ≤ b.length := by
      unfold tag at hlen
      simp only [List.length_drop] at hlen
      omega
    split at h
    · simp only [Except.ok.injEq] at h
      exact ⟨htag, h16, h.symm⟩
    · cases h

/-- anything whose tag is not the HMAC of its body is rejected before the cipher runs -/
theorem decrypt_rejects (key b : Bytes) (h : tag b ≠ hmacMd5 key (body b)) : Kerberos.decrypt key b = .error .value := by
  unfold Kerberos.decrypt check
  have : (tag b == hmacMd5 key (body b)) = false := by simpa using h
  simp [this]

/-- anything shorter than a tag is rejected -/
theorem decrypt_short (key b : Bytes) (h : b.length < 16) : Kerberos.decrypt key b = .error .value := by
  apply decrypt_rejects
  intro he
  have : (tag b).length = 16 := by rw [he]; exact hmacMd5_length _ _
  unfold tag at this
  simp only [List.length_drop] at this
  omega

/-! ## HMAC pads short keys with zeros: distinct keys can be equivalent -/

theorem hmacMd5_key_zero (key m : Bytes) (h : key.length < 64) : hmacMd5 (key ++ [0]) m = hmacMd5 key m := by
  unfold hmacMd5
  have h1 : ¬ (key.length > 64) := by omega
  have h2 : ¬ ((key ++ [0]).length > 64) := by simp; omega
  simp only [h1, h2, if_false]
  have : key ++ [0] ++ List.replicate (64 - (key ++ [0]).length) 0 = key ++ List.replicate (64 - key.length) 0 := by
    simp only [List.length_append, List.length_cons, List.length_nil, List.append_assoc, List.cons_append, List.nil_append]
    have : 64 - key.length = (64 - (key.length + (0 + 1))) + 1 := by omega
    rw [this, List.replicate_succ]
  rw [this]

/-- a ciphertext made under `key` passes the check of the different key `key ++ [0]` -/
theorem wrong_key_accepted (key data b : Bytes) (hk : 1 ≤ key.length) (h64 : key.length < 64)
    (h : Kerberos.encrypt key data = .ok b) : ∃ x, Kerberos.decrypt (key ++ [0]) b = .ok x := by
  unfold Kerberos.encrypt at h
  split at h
  · simp only [Except.ok.injEq] at h
    subst h
    have hc : check (key ++ [0]) (rc4 key data ++ hmacMd5 key (rc4 key data)) = true := by
      have := check_encrypt (key ++ [0]) (rc4 key data)
      rw [hmacMd5_key_zero key _ h64] at this
      exact this
    have hk2 : rc4KeyOk (key ++ [0]) = true := by
      unfold rc4KeyOk; simp; omega
    unfold Kerberos.decrypt
    simp [hc, hk2]
  · cases h

/-! ## key derivation -/

/-- reference: `n`-fold iteration written with `Nat.iterate`-style recursion from the other end -/
def md5Pow : Nat → Bytes → Bytes
  | 0, k => k
  | n + 1, k => md5 (md5Pow n k)

theorem md5Iter_succ (n : Nat) (k : Bytes) : md5Iter (n + 1) k = md5 (md5Iter n k) := by
  induction n generalizing k with
  | zero => rfl
  | succ n ih => rw [md5Iter, ih]; rfl

theorem md5Iter_eq_pow (n : Nat) (k : Bytes) : md5Iter n k = md5Pow n k := by
  induction n with
  | zero => rfl
  | succ n ih => rw [md5Iter_succ, ih]; rfl

theorem md5Iter_add (a b : Nat) (k : Bytes) : md5Iter (a + b) k = md5Iter b (md5Iter a k) := by
  induction a generalizing k with
  | zero => simp [md5Iter]
  | succ a ih => rw [Nat.succ_add, md5Iter, ih]; rfl

theorem deriveOld_def (base pidc : Nat) (pw : Bytes) (pid : Nat) (h : 0 < pidc) :
    deriveOld base pidc pw pid = .ok (md5Pow (base + pid % pidc) pw) := by
  unfold deriveOld
  have : ¬ pidc = 0 := by omega
  simp [this, md5Iter_eq_pow]

theorem deriveNew_def (base pidc : Nat) (pw : Bytes) (pid : Nat) (h : pid < 18446744073709551616) :
    deriveNew base pidc pw pid = .ok (md5Pow pidc (md5Pow base pw ++ u64le pid)) := by
  unfold deriveNew wU64
  simp [h, md5Iter_eq_pow, bind, Except.bind, pure, Except.pure]

theorem derive_length_old (base pidc : Nat) (pw : Bytes) (pid : Nat) (k : Bytes) (hb : 0 < base)
    (h : deriveOld base pidc pw pid = .ok k) : k.length = 16 := by
  unfold deriveOld at h
  split at h
  · cases h
  · simp only [Except.ok.injEq] at h
    subst h
    obtain ⟨n, hn⟩ : ∃ n, base + pid % pidc = n + 1 := ⟨base + pid % pidc - 1, by omega⟩
    rw [hn, md5Iter_succ]
    exact md5_length _

/-! ## tickets -/

theorem clientTicket_roundtrip (c : Cfg) (key : Bytes) (t : ClientTicket) (b : Bytes)
    (h : ClientTicket.encrypt c key t = .ok b) : ClientTicket.decrypt c key b = .ok t := by
  unfold ClientTicket.encrypt at h
  obtain ⟨d, hd, he⟩ := bind_ok h
  unfold clientPlain at hd
  split at hd
  · cases hd
  · rename_i hks
    have hks' : c.keySize = t.sessionKey.length := by
      simpa using hks
    obtain ⟨p, hp, hd⟩ := bind_ok hd
    obtain ⟨bb, hbb, hd⟩ := bind_ok hd
    simp only [pure, Except.pure, Except.ok.injEq] at hd
    subst hd
    have h1 := decrypt_encrypt key _ b he
    have h2 : rd c.keySize (t.sessionKey ++ p ++ bb) = .ok (t.sessionKey, p ++ bb) := by
      rw [hks', List.append_assoc]; exact rd_append _ _
    have h3 := rPid_wPid c.pidSize hp bb
    have h4 : rBuffer bb = .ok (t.internal, []) := by
      have := rBuffer_wBuffer hbb []
      simpa using this
    simp only [ClientTicket.decrypt, h1, bind, Except.bind, h2, h3, h4, pure, Except.pure]

theorem serverPlain_read (c : Cfg) (t : ServerTicket) (d : Bytes) (hd : serverPlain c t = .ok d) :
    (do let (ts, r) ← rDateTime d
        let (source, r) ← rPid c.pidSize r
        let (sk, _) ← rd c.keySize r
        pure (⟨ts, source, sk⟩ : ServerTicket)) = .ok t := by
  unfold serverPlain at hd
  obtain ⟨ts, hts, hd⟩ := bind_ok hd
  obtain ⟨p, hp, hd⟩ := bind_ok hd
  split at hd
  · cases hd
  · rename_i hks
    have hks' : c.keySize = t.sessionKey.length := by
      have : ¬ (t.sessionKey.length ≠ c.keySize) := hks
      omega
    simp only [pure, Except.pure, Except.ok.injEq] at hd
    subst hd
    have h1 := rDateTime_wDateTime hts (p ++ t.sessionKey)
    have h2 := rPid_wPid c.pidSize hp t.sessionKey
    have h3 : rd c.keySize t.sessionKey = .ok (t.sessionKey, []) := by
      have := rd_append t.sessionKey []
      rw [hks']; simpa using this
    simp only [List.append_assoc, h1, bind, Except.bind, h2, h3, pure, Except.pure]

theorem serverTicket_roundtrip (c : Cfg) (key ticketKey : Bytes) (t : ServerTicket) (b : Bytes)
    (h : ServerTicket.encrypt c key ticketKey t = .ok b) : ServerTicket.decrypt c key b = .ok t := by
  unfold ServerTicket.encrypt at h
  obtain ⟨d, hd, h⟩ := bind_ok h
  have hread := serverPlain_read c t d hd
  by_cases hv : c.ticketVersion = 1
  · simp only [hv, if_true] at h
    obtain ⟨e, he, h⟩ := bind_ok h
    obtain ⟨a, ha, h⟩ := bind_ok h
    obtain ⟨bb, hbb, h⟩ := bind_ok h
    simp only [pure, Except.pure, Except.ok.injEq] at h
    subst h
    have h1 := rBuffer_wBuffer ha bb
    have h2 : rBuffer bb = .ok (e, []) := by
      have := rBuffer_wBuffer hbb []
      simpa using this
    have h3 := decrypt_encrypt _ _ _ he
    unfold ServerTicket.decrypt
    simp only [hv, if_true, h1, bind, Except.bind, h2, pure, Except.pure, h3]
    exact hread
  · simp only [hv, if_false] at h
    have h3 := decrypt_encrypt _ _ _ h
    unfold ServerTicket.decrypt
    simp only [hv, if_false, bind, Except.bind, pure, Except.pure, h3]
    exact hread

/-- the version-1 layout: `buffer(ticketKey) ‖ buffer(envelope under md5(key ‖ ticketKey))` -/
theorem serverTicket_v1_layout (c : Cfg) (key ticketKey : Bytes) (t : ServerTicket) (b : Bytes)
    (hv : c.ticketVersion = 1) (h : ServerTicket.encrypt c key ticketKey t = .ok b) :
    ∃ d e, serverPlain c t = .ok d ∧ Kerberos.encrypt (md5 (key ++ ticketKey)) d = .ok e ∧
      b = u32le ticketKey.length ++ ticketKey ++ (u32le e.length ++ e) := by
  unfold ServerTicket.encrypt at h
  obtain ⟨d, hd, h⟩ := bind_ok h
  simp only [hv, if_true] at h
  obtain ⟨e, he, h⟩ := bind_ok h
  obtain ⟨a, ha, h⟩ := bind_ok h
  obtain ⟨bb, hbb, h⟩ := bind_ok h
  simp only [pure, Except.pure, Except.ok.injEq] at h
  refine ⟨d, e, hd, he, ?_⟩
  subst h
  unfold wBuffer wU32 at ha hbb
  split at ha
  · split at hbb
    · simp only [bind, Except.bind, pure, Except.pure, Except.ok.injEq] at ha hbb
      rw [← ha, ← hbb]
    · cases hbb
  · cases ha

/-- size guards: a session key of the wrong size is refused on encryption -/
theorem client_size_guard (c : Cfg) (key : Bytes) (t : ClientTicket) (h : c.keySize ≠ t.sessionKey.length) :
    ClientTicket.encrypt c key t = .error .value := by
  simp [ClientTicket.encrypt, clientPlain, h, bind, Except.bind, throw, throwThe, MonadExceptOf.throw]

theorem decrypted_sessionKey_size (c : Cfg) (key data : Bytes) (t : ClientTicket)
    (h : ClientTicket.decrypt c key data = .ok t) : t.sessionKey.length = c.keySize := by
  unfold ClientTicket.decrypt at h
  obtain ⟨d, _, h⟩ := bind_ok h
  obtain ⟨⟨sk, r⟩, hsk, h⟩ := bind_ok h
  obtain ⟨⟨target, r2⟩, _, h⟩ := bind_ok h
  obtain ⟨⟨internal, r3⟩, _, h⟩ := bind_ok h
  simp only [pure, Except.pure, Except.ok.injEq] at h
  subst h
  unfold rd at hsk
  split at hsk
  · simp only [Except.ok.injEq, Prod.mk.injEq] at hsk
    rw [← hsk.1]; simp; omega
  · cases hsk

end Nx.Nex.Kerberos
